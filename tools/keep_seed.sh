#!/bin/bash
# usage: keep_seed.sh <seed-id> <worktree-name>   store an agent's change under seeded/<id>, confirm the demo both ways, run the checks
id=$1; wt=/tmp/wt-$2; d=/verif/seeded/$id
mkdir -p $d
(cd $wt/_demo && for f in *; do case $f in check.log|check.exit|check.rc|make*|build*|_build*|librebuild*|work|*.log|demo_with*|FOREIGN*|with_*|without_*) ;; *) cp -r $f $d/;; esac; done)
git -C $wt diff -- aldor > $d/patch.diff
echo "diffstat: $(git -C $wt diff --stat -- aldor | tail -1)"
echo "suite: PASS=$(grep -c '^PASS' $wt/_demo/check.log) FAIL=$(grep -cE '^(FAIL|ERROR)' $wt/_demo/check.log) probe-refs=$(grep -c wt-probe $wt/_demo/check.log)"
(cd $d && bash demo.sh >/tmp/$2.wt.log 2>&1; echo "demo on worktree: exit $?"; ALDOR_TREE=/tmp/wt-probe bash demo.sh >/tmp/$2.repo.log 2>&1; echo "demo on unchanged build (/tmp/wt-probe): exit $?")
cd /verif && python3 tools/matrix.py -j 1 seeded/$id 2>&1 | cut -c1-260
