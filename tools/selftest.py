#!/usr/bin/env python3
"""Both-ways self-test of the checkers (DESIGN.md 2.3).

For every mutation in selftest/mutations.json: copy the analysed part of
/repo to a scratch directory outside /repo and /verif, break one instance with
a textual edit that still compiles, run the property's check against the
scratch tree (ALDOR_REPO=<scratch>) and require exit 1 with the expected
rule/instance named.  The unchanged scratch copy must be silent.  The scratch
directory is removed afterwards.

usage: selftest.py [--property Cxx] [--id name] [--keep]
"""
import json
import os
import shutil
import subprocess
import sys
import tempfile

HERE = os.path.dirname(os.path.dirname(os.path.abspath(__file__)))
REPO = os.environ.get("ALDOR_REPO", "/repo")


def make_scratch():
    base = os.environ.get("VERIF_SCRATCH", "/var/tmp")
    d = tempfile.mkdtemp(prefix="aldor-verif-scratch.", dir=base)
    rel = ["aldor/aldor/src", "aldor/aldor/lib/java/src/foamj", "aldor/aldor/lib/libfoam/Makefile.am",
           "aldor/aldor/tools/unix/msgcat", "aldor/aldor/tools/unix/zacc"]
    for r in rel:
        src = os.path.join(REPO, r)
        dst = os.path.join(d, r)
        os.makedirs(os.path.dirname(dst), exist_ok=True)
        if os.path.isdir(src):
            shutil.copytree(src, dst, ignore=shutil.ignore_patterns("*.o", "*.a", "*.i", "*.s", "aldor", "javagen",
                                                                    "testall", "*.class", "*.jar", ".deps", "test"))
        elif os.path.exists(src):
            shutil.copy2(src, dst)
    return d


def run_check(pid, scratch):
    env = dict(os.environ, ALDOR_REPO=scratch)
    p = subprocess.run([os.path.join(HERE, "check"), pid, "--tier", "quick", "--no-evidence"], env=env,
                       capture_output=True, text=True, cwd=HERE)
    return p.returncode, p.stdout + p.stderr


def main():
    args = sys.argv[1:]
    want_prop = want_id = None
    keep = False
    i = 0
    while i < len(args):
        if args[i] == "--property":
            want_prop = args[i + 1]; i += 2
        elif args[i] == "--id":
            want_id = args[i + 1]; i += 2
        elif args[i] == "--keep":
            keep = True; i += 1
        else:
            print(__doc__); return 2
    muts = json.load(open(os.path.join(HERE, "selftest", "mutations.json")))
    muts = [m for m in muts if (want_prop is None or m["property"] == want_prop) and (want_id is None or m["id"] == want_id)]
    if not muts:
        print("no mutations selected")
        return 2
    scratch = make_scratch()
    failures = 0
    try:
        props = sorted(set(m["property"] for m in muts))
        for pid in props:
            rc, out = run_check(pid, scratch)
            lines = [l for l in out.splitlines() if l.startswith("VIOLATION") or l.startswith("ANALYSIS-BROKEN")]
            if rc != 0:
                print("SELFTEST-FAIL %s: unchanged scratch copy is not silent (exit %d): %s" % (pid, rc, lines[:2]))
                failures += 1
            else:
                print("selftest %s: unchanged copy silent" % pid)
        for m in muts:
            path = os.path.join(scratch, m["file"])
            orig = open(path).read()
            if orig.count(m["old"]) != m.get("count", 1):
                print("SELFTEST-FAIL %s: anchor text occurs %d times in %s (mutation recipe is stale)" % (
                    m["id"], orig.count(m["old"]), m["file"]))
                failures += 1
                continue
            open(path, "w").write(orig.replace(m["old"], m["new"]))
            try:
                # the mutant must still compile
                if m["file"].endswith((".c", ".h")) and not m.get("nocompile"):
                    unit = m.get("compile_unit", m["file"] if m["file"].endswith(".c") else None)
                    if unit:
                        srcdir = os.path.join(scratch, "aldor/aldor/src")
                        cp = subprocess.run(["clang", "-std=c99", "-fsyntax-only", "-w", "-I" + srcdir,
                                             os.path.join(scratch, unit)], cwd=srcdir, capture_output=True, text=True)
                        if cp.returncode != 0:
                            print("SELFTEST-FAIL %s: mutant does not compile: %s" % (m["id"], cp.stderr[:300]))
                            failures += 1
                            continue
                rc, out = run_check(m["property"], scratch)
                exp_rc = m.get("expect_exit", 1)
                named = all(e in out for e in m["expect"])
                if rc == exp_rc and named:
                    print("selftest %s/%s: detected (%s)" % (m["property"], m["id"], ", ".join(m["expect"])))
                else:
                    print("SELFTEST-FAIL %s/%s: exit %d (want %d), expected mention of %s\n%s" % (
                        m["property"], m["id"], rc, exp_rc, m["expect"], out[-1500:]))
                    failures += 1
            finally:
                open(path, "w").write(orig)
    finally:
        if not keep:
            shutil.rmtree(scratch, ignore_errors=True)
        else:
            print("scratch kept at", scratch)
    print("selftest: %d mutations, %d failures" % (len(muts), failures))
    return 1 if failures else 0


if __name__ == "__main__":
    sys.exit(main())
