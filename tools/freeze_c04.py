#!/usr/bin/env python3
"""Developer tool (never run by a check): regenerate the frozen vocabulary
file of C04 from the current tree, after the diffs were read."""
import json, os, sys
sys.path.insert(0, os.path.dirname(os.path.dirname(os.path.abspath(__file__))))
from rules import common, bvals, c04_builtins as c4, trees

F = c4.FROZEN

# vocabulary: callees appearing in any canonical tree of today's (triaged) tree
c4.COLLECT = {"callees": set(), "uncompared": {}}
json.dump([], open(os.path.join(F, "c04_callees.json"), "w"))
try:
    rep = c4.run("quick")
finally:
    pass
json.dump(sorted(c4.COLLECT["callees"]), open(os.path.join(F, "c04_callees.json"), "w"), indent=1)
print("callees:", len(c4.COLLECT["callees"]))
print("uncompared (must be triaged by hand into c04_uncompared.json):")
for k, v in sorted(c4.COLLECT["uncompared"].items()):
    print("  ", k, v)
for v in rep.violations:
    print("violation:", v["key"], v["message"])
