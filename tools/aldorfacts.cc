// aldorfacts - LibTooling fact extractor for the Aldor compiler sources.
//
// For one translation unit it writes a JSON file describing the type-checked
// program after preprocessing:
//   enums      : every enum declared in a repository file, enumerators + values
//   records    : struct/union field lists (to map positional initialisers)
//   vars       : file-scope variables with their (semantic) initialiser tree
//   functions  : every function defined in a repository file: signature and,
//                when selected, the full statement/expression tree of its body
//                (every node carries a numeric id) and optionally its clang CFG
//                (blocks, successors, ordered element ids, terminators)
//
// usage: aldorfacts --out=F [--trees=all|a,b,c] [--cfg=all|a,b] [--root=/repo]
//                   file.c -- <compiler flags>
//
// Nothing here decides a property; rules live in /verif/rules/*.py.

#include "clang/AST/ASTConsumer.h"
#include "clang/AST/ASTContext.h"
#include "clang/AST/Decl.h"
#include "clang/AST/Expr.h"
#include "clang/AST/RecursiveASTVisitor.h"
#include "clang/AST/Stmt.h"
#include "clang/Analysis/CFG.h"
#include "clang/Basic/SourceManager.h"
#include "clang/Frontend/CompilerInstance.h"
#include "clang/Frontend/FrontendAction.h"
#include "clang/Lex/Lexer.h"
#include "clang/Tooling/CompilationDatabase.h"
#include "clang/Tooling/Tooling.h"
#include "llvm/Support/JSON.h"
#include "llvm/Support/raw_ostream.h"

#include <map>
#include <set>
#include <string>
#include <vector>

using namespace clang;

static std::string gOut;
static std::string gRoot = "/repo";
static bool gTreesAll = false, gCfgAll = false;
static std::set<std::string> gTrees, gCfgs;

namespace {

class Dumper {
public:
  Dumper(ASTContext &C, llvm::json::OStream &J) : Ctx(C), SM(C.getSourceManager()), J(J) {}

  ASTContext &Ctx;
  SourceManager &SM;
  llvm::json::OStream &J;
  std::map<const Stmt *, unsigned> StmtIds;
  std::map<const Decl *, unsigned> DeclIds;
  unsigned NextStmt = 1, NextDecl = 1;

  unsigned declId(const Decl *D) {
    D = D->getCanonicalDecl();
    auto It = DeclIds.find(D);
    if (It != DeclIds.end()) return It->second;
    return DeclIds[D] = NextDecl++;
  }

  std::string fileOf(SourceLocation L) {
    L = SM.getExpansionLoc(L);
    if (L.isInvalid()) return "";
    return SM.getFilename(L).str();
  }
  unsigned lineOf(SourceLocation L) {
    L = SM.getExpansionLoc(L);
    if (L.isInvalid()) return 0;
    return SM.getExpansionLineNumber(L);
  }
  bool inRepo(SourceLocation L) {
    std::string F = fileOf(L);
    if (F.empty()) return false;
    if (SM.isInSystemHeader(SM.getExpansionLoc(L))) return false;
    return true;
  }

  // innermost macro whose expansion produced the *start* of this node
  std::string immediateMacroOf(SourceLocation L) {
    if (!L.isMacroID()) return "";
    SourceLocation Cur = L;
    while (Cur.isMacroID() && SM.isMacroArgExpansion(Cur))
      Cur = SM.getImmediateSpellingLoc(Cur);
    if (!Cur.isMacroID()) return "";
    return Lexer::getImmediateMacroName(Cur, SM, Ctx.getLangOpts()).str();
  }

  // outermost macro whose expansion produced the *start* of this node
  std::string macroOf(SourceLocation L) {
    if (!L.isMacroID()) return "";
    SourceLocation Cur = L;
    std::string Name;
    while (Cur.isMacroID()) {
      if (SM.isMacroArgExpansion(Cur)) {
        Cur = SM.getImmediateSpellingLoc(Cur);
        continue;
      }
      Name = Lexer::getImmediateMacroName(Cur, SM, Ctx.getLangOpts()).str();
      Cur = SM.getImmediateExpansionRange(Cur).getBegin();
    }
    return Name;
  }

  std::string typeClass(QualType T) {
    if (T.isNull()) return "?";
    QualType C = T.getCanonicalType();
    const Type *Ty = C.getTypePtr();
    if (Ty->isVoidType()) return "void";
    if (Ty->isBooleanType()) return "u1";
    if (Ty->isEnumeralType()) return "enum";
    if (Ty->isIntegerType()) {
      uint64_t W = Ctx.getTypeSize(C);
      std::string S = Ty->isSignedIntegerType() ? "i" : "u";
      // plain char is distinguished: its signedness is the platform's
      if (const auto *BT = dyn_cast<BuiltinType>(Ty)) {
        if (BT->getKind() == BuiltinType::Char_S || BT->getKind() == BuiltinType::Char_U)
          return "char";
        if (BT->getKind() == BuiltinType::SChar) return "schar";
      }
      return S + std::to_string(W);
    }
    if (Ty->isRealFloatingType()) return "f" + std::to_string(Ctx.getTypeSize(C));
    if (Ty->isFunctionPointerType()) return "fnptr";
    if (Ty->isPointerType()) return "ptr";
    if (Ty->isArrayType()) return "array";
    if (Ty->isRecordType()) return "record";
    if (Ty->isFunctionType()) return "func";
    return "other";
  }

  void typeAttrs(QualType T) {
    if (T.isNull()) return;
    J.attribute("t", T.getAsString());
    J.attribute("tc", typeClass(T));
  }

  void emitExprAttrs(const Expr *E) {
    typeAttrs(E->getType());
    if (E->isValueDependent()) return;
    if (E->getType()->isIntegralOrEnumerationType() && E->isPRValue() &&
        !isa<IntegerLiteral>(E) && !isa<CharacterLiteral>(E)) {
      Expr::EvalResult R;
      if (E->EvaluateAsInt(R, Ctx, Expr::SE_NoSideEffects)) {
        J.attribute("cv", R.Val.getInt().getExtValue());
      }
    }
  }

  static const Expr *stripToRef(const Expr *E) {
    while (true) {
      E = E->IgnoreParens();
      if (const auto *C = dyn_cast<CastExpr>(E)) { E = C->getSubExpr(); continue; }
      if (const auto *CE = dyn_cast<ConstantExpr>(E)) { E = CE->getSubExpr(); continue; }
      return E;
    }
  }

  void dumpVarDecl(const VarDecl *VD) {
    J.object([&] {
      J.attribute("n", VD->getName());
      J.attribute("did", declId(VD));
      typeAttrs(VD->getType());
      J.attribute("l", lineOf(VD->getLocation()));
      if (VD->isStaticLocal()) J.attribute("static", true);
      if (const auto *AT = Ctx.getAsConstantArrayType(VD->getType()))
        J.attribute("bound", (int64_t)AT->getSize().getZExtValue());
      if (VD->hasInit()) {
        J.attributeBegin("init");
        dumpStmt(VD->getInit());
        J.attributeEnd();
      }
    });
  }

  void dumpStmt(const Stmt *S) {
    if (!S) { J.value(nullptr); return; }
    unsigned Id = NextStmt++;
    StmtIds[S] = Id;
    J.object([&] {
      J.attribute("id", Id);
      J.attribute("k", S->getStmtClassName());
      J.attribute("l", lineOf(S->getBeginLoc()));
      std::string M = macroOf(S->getBeginLoc());
      if (!M.empty()) {
        J.attribute("mac", M);
        std::string IM = immediateMacroOf(S->getBeginLoc());
        if (!IM.empty() && IM != M) J.attribute("imac", IM);
      }
      if (const auto *E = dyn_cast<Expr>(S)) emitExprAttrs(E);

      bool ChildrenDone = false;
      if (const auto *DR = dyn_cast<DeclRefExpr>(S)) {
        const ValueDecl *D = DR->getDecl();
        J.attribute("n", D->getName());
        J.attribute("did", declId(D));
        if (const auto *EC = dyn_cast<EnumConstantDecl>(D)) {
          J.attribute("dk", "enum");
          J.attribute("v", EC->getInitVal().getExtValue());
        } else if (isa<FunctionDecl>(D)) {
          J.attribute("dk", "fn");
        } else if (isa<ParmVarDecl>(D)) {
          J.attribute("dk", "parm");
        } else if (const auto *VD = dyn_cast<VarDecl>(D)) {
          J.attribute("dk", "var");
          if (VD->hasGlobalStorage()) J.attribute("g", true);
          if (const auto *AT = Ctx.getAsConstantArrayType(VD->getType()))
            J.attribute("bound", (int64_t)AT->getSize().getZExtValue());
        } else {
          J.attribute("dk", "other");
        }
      } else if (const auto *ME = dyn_cast<MemberExpr>(S)) {
        J.attribute("n", ME->getMemberDecl()->getName());
        J.attribute("arrow", ME->isArrow());
        if (const auto *FD = dyn_cast<FieldDecl>(ME->getMemberDecl())) {
          J.attribute("rn", FD->getParent()->getName());
          if (const auto *AT = Ctx.getAsConstantArrayType(FD->getType()))
            J.attribute("bound", (int64_t)AT->getSize().getZExtValue());
        }
      } else if (const auto *BO = dyn_cast<BinaryOperator>(S)) {
        J.attribute("op", BO->getOpcodeStr());
      } else if (const auto *UO = dyn_cast<UnaryOperator>(S)) {
        std::string Op = UnaryOperator::getOpcodeStr(UO->getOpcode()).str();
        if (UO->isPostfix()) Op = "post" + Op;
        J.attribute("op", Op);
      } else if (const auto *CE = dyn_cast<CastExpr>(S)) {
        J.attribute("ck", CE->getCastKindName());
        J.attribute("impl", isa<ImplicitCastExpr>(CE));
      } else if (const auto *IL = dyn_cast<IntegerLiteral>(S)) {
        J.attribute("v", IL->getValue().getLimitedValue());
        J.attribute("cv", (int64_t)IL->getValue().getLimitedValue());
      } else if (const auto *CL = dyn_cast<CharacterLiteral>(S)) {
        J.attribute("v", (int64_t)CL->getValue());
        J.attribute("cv", (int64_t)CL->getValue());
      } else if (const auto *FL = dyn_cast<FloatingLiteral>(S)) {
        llvm::SmallString<32> Str;
        FL->getValue().toString(Str);
        J.attribute("v", Str.str());
      } else if (const auto *SL = dyn_cast<StringLiteral>(S)) {
        if (SL->getCharByteWidth() == 1) J.attribute("v", SL->getBytes());
      } else if (const auto *Call = dyn_cast<CallExpr>(S)) {
        if (const FunctionDecl *FD = Call->getDirectCallee()) {
          J.attribute("callee", FD->getName());
        } else {
          // call through a function pointer: say through what
          const Expr *C = stripToRef(Call->getCallee());
          if (const auto *U = dyn_cast<UnaryOperator>(C))
            if (U->getOpcode() == UO_Deref) C = stripToRef(U->getSubExpr());
          if (const auto *DR = dyn_cast<DeclRefExpr>(C))
            J.attribute("via", DR->getDecl()->getName());
          else if (const auto *ME = dyn_cast<MemberExpr>(C))
            J.attribute("via", ("." + ME->getMemberDecl()->getName()).str());
          else
            J.attribute("via", "?");
        }
      } else if (const auto *UE = dyn_cast<UnaryExprOrTypeTraitExpr>(S)) {
        J.attribute("trait", (int)UE->getKind());
        if (UE->isArgumentType()) J.attribute("argt", UE->getArgumentType().getAsString());
      } else if (const auto *ILE = dyn_cast<InitListExpr>(S)) {
        const InitListExpr *Sem = ILE->isSemanticForm() ? ILE : ILE->getSemanticForm();
        if (!Sem) Sem = ILE;
        if (const auto *RT = Sem->getType()->getAs<RecordType>())
          J.attribute("rn", RT->getDecl()->getName());
        J.attributeBegin("c");
        J.arrayBegin();
        for (const Expr *I : Sem->inits()) dumpStmt(I);
        J.arrayEnd();
        J.attributeEnd();
        if (Sem->hasArrayFiller()) {
          J.attribute("filler", true);
        }
        ChildrenDone = true;
      } else if (const auto *DS = dyn_cast<DeclStmt>(S)) {
        J.attributeBegin("decls");
        J.arrayBegin();
        for (const Decl *D : DS->decls())
          if (const auto *VD = dyn_cast<VarDecl>(D)) dumpVarDecl(VD);
        J.arrayEnd();
        J.attributeEnd();
        ChildrenDone = true;
      } else if (const auto *CS = dyn_cast<CaseStmt>(S)) {
        Expr::EvalResult R;
        if (CS->getLHS()->EvaluateAsInt(R, Ctx)) J.attribute("lo", R.Val.getInt().getExtValue());
        if (const auto *DR = dyn_cast<DeclRefExpr>(stripToRef(CS->getLHS())))
          J.attribute("lon", DR->getDecl()->getName());
        else {
          std::string LM = immediateMacroOf(CS->getLHS()->getBeginLoc());
          if (LM.empty()) LM = macroOf(CS->getLHS()->getBeginLoc());
          if (!LM.empty()) J.attribute("lon", LM);     // label written as a macro name
        }
        if (CS->getRHS()) {
          Expr::EvalResult R2;
          if (CS->getRHS()->EvaluateAsInt(R2, Ctx)) J.attribute("hi", R2.Val.getInt().getExtValue());
        }
        J.attributeBegin("c");
        J.arrayBegin();
        dumpStmt(CS->getSubStmt());
        J.arrayEnd();
        J.attributeEnd();
        ChildrenDone = true;
      } else if (const auto *LS = dyn_cast<LabelStmt>(S)) {
        J.attribute("n", LS->getName());
      } else if (const auto *GS = dyn_cast<GotoStmt>(S)) {
        J.attribute("n", GS->getLabel()->getName());
      } else if (const auto *IS = dyn_cast<IfStmt>(S)) {
        // fixed shape: [cond, then, else|null]
        J.attributeBegin("c");
        J.arrayBegin();
        dumpStmt(IS->getCond());
        dumpStmt(IS->getThen());
        dumpStmt(IS->getElse());
        J.arrayEnd();
        J.attributeEnd();
        ChildrenDone = true;
      } else if (const auto *FS = dyn_cast<ForStmt>(S)) {
        J.attributeBegin("c");
        J.arrayBegin();
        dumpStmt(FS->getInit());
        dumpStmt(FS->getCond());
        dumpStmt(FS->getInc());
        dumpStmt(FS->getBody());
        J.arrayEnd();
        J.attributeEnd();
        ChildrenDone = true;
      }

      if (!ChildrenDone) {
        J.attributeBegin("c");
        J.arrayBegin();
        for (const Stmt *C : S->children()) dumpStmt(C);
        J.arrayEnd();
        J.attributeEnd();
      }
    });
  }

  void dumpCFG(const FunctionDecl *FD) {
    CFG::BuildOptions BO;
    BO.setAllAlwaysAdd();
    BO.PruneTriviallyFalseEdges = false;
    std::unique_ptr<CFG> G = CFG::buildCFG(FD, FD->getBody(), &Ctx, BO);
    if (!G) { J.attribute("cfg", nullptr); return; }
    J.attributeBegin("cfg");
    J.object([&] {
      J.attribute("entry", G->getEntry().getBlockID());
      J.attribute("exit", G->getExit().getBlockID());
      J.attributeBegin("blocks");
      J.arrayBegin();
      for (const CFGBlock *B : *G) {
        J.object([&] {
          J.attribute("id", B->getBlockID());
          J.attributeBegin("succs");
          J.arrayBegin();
          for (auto SI = B->succ_begin(); SI != B->succ_end(); ++SI) {
            const CFGBlock *Sx = SI->getReachableBlock();
            if (!Sx) Sx = SI->getPossiblyUnreachableBlock();
            if (Sx) J.value((int64_t)Sx->getBlockID()); else J.value(nullptr);
          }
          J.arrayEnd();
          J.attributeEnd();
          J.attributeBegin("elems");
          J.arrayBegin();
          for (const CFGElement &El : *B) {
            if (auto CS = El.getAs<CFGStmt>()) {
              auto It = StmtIds.find(CS->getStmt());
              if (It != StmtIds.end()) J.value((int64_t)It->second);
            }
          }
          J.arrayEnd();
          J.attributeEnd();
          if (const Stmt *T = B->getTerminatorStmt()) {
            auto It = StmtIds.find(T);
            if (It != StmtIds.end()) J.attribute("term", It->second);
            J.attribute("termk", T->getStmtClassName());
          }
          if (const Stmt *TC = B->getTerminatorCondition()) {
            auto It = StmtIds.find(TC);
            if (It != StmtIds.end()) J.attribute("cond", It->second);
          }
          if (const Stmt *L = B->getLabel()) {
            auto It = StmtIds.find(L);
            if (It != StmtIds.end()) J.attribute("label", It->second);
          }
          if (B->hasNoReturnElement()) J.attribute("noreturn", true);
        });
      }
      J.arrayEnd();
      J.attributeEnd();
    });
    J.attributeEnd();
  }

  void run() {
    TranslationUnitDecl *TU = Ctx.getTranslationUnitDecl();
    J.object([&] {
      J.attribute("main", SM.getFileEntryForID(SM.getMainFileID())->getName());
      // enums
      J.attributeBegin("enums");
      J.arrayBegin();
      for (const Decl *D : TU->decls()) {
        const EnumDecl *ED = dyn_cast<EnumDecl>(D);
        if (!ED) {
          // typedef enum {...} X;  the EnumDecl itself is also a TU decl, so nothing to do
          continue;
        }
        if (!ED->isThisDeclarationADefinition() || !inRepo(ED->getLocation())) continue;
        J.object([&] {
          std::string N = ED->getName().str();
          if (N.empty())
            if (const TypedefNameDecl *TD = ED->getTypedefNameForAnonDecl()) N = TD->getName().str();
          J.attribute("n", N);
          J.attribute("file", fileOf(ED->getLocation()));
          J.attribute("l", lineOf(ED->getLocation()));
          J.attributeBegin("e");
          J.arrayBegin();
          for (const EnumConstantDecl *EC : ED->enumerators()) {
            J.arrayBegin();
            J.value(EC->getName());
            J.value(EC->getInitVal().getExtValue());
            J.arrayEnd();
          }
          J.arrayEnd();
          J.attributeEnd();
        });
      }
      J.arrayEnd();
      J.attributeEnd();
      // records
      J.attributeBegin("records");
      J.arrayBegin();
      for (const Decl *D : TU->decls()) {
        const RecordDecl *RD = dyn_cast<RecordDecl>(D);
        if (!RD || !RD->isThisDeclarationADefinition() || !inRepo(RD->getLocation())) continue;
        J.object([&] {
          std::string N = RD->getName().str();
          if (N.empty())
            if (const TypedefNameDecl *TD = RD->getTypedefNameForAnonDecl()) N = TD->getName().str();
          J.attribute("n", N);
          J.attribute("union", RD->isUnion());
          J.attribute("file", fileOf(RD->getLocation()));
          J.attributeBegin("f");
          J.arrayBegin();
          for (const FieldDecl *F : RD->fields()) {
            J.arrayBegin();
            J.value(F->getName());
            J.value(F->getType().getAsString());
            J.arrayEnd();
          }
          J.arrayEnd();
          J.attributeEnd();
        });
      }
      J.arrayEnd();
      J.attributeEnd();
      // file-scope variables
      J.attributeBegin("vars");
      J.arrayBegin();
      for (const Decl *D : TU->decls()) {
        const VarDecl *VD = dyn_cast<VarDecl>(D);
        if (!VD || !inRepo(VD->getLocation())) continue;
        J.object([&] {
          J.attribute("n", VD->getName());
          J.attribute("did", declId(VD));
          J.attribute("file", fileOf(VD->getLocation()));
          J.attribute("l", lineOf(VD->getLocation()));
          typeAttrs(VD->getType());
          J.attribute("static", VD->getStorageClass() == SC_Static);
          J.attribute("extern", VD->getStorageClass() == SC_Extern);
          J.attribute("def", VD->isThisDeclarationADefinition() != VarDecl::DeclarationOnly);
          if (const auto *AT = Ctx.getAsConstantArrayType(VD->getType()))
            J.attribute("bound", (int64_t)AT->getSize().getZExtValue());
          if (VD->hasInit()) {
            J.attributeBegin("init");
            dumpStmt(VD->getInit());
            J.attributeEnd();
          }
        });
      }
      J.arrayEnd();
      J.attributeEnd();
      // functions
      J.attributeBegin("functions");
      J.arrayBegin();
      for (const Decl *D : TU->decls()) {
        const FunctionDecl *FD = dyn_cast<FunctionDecl>(D);
        if (!FD || !inRepo(FD->getLocation())) continue;
        bool IsDef = FD->doesThisDeclarationHaveABody();
        J.object([&] {
          std::string Name = FD->getName().str();
          J.attribute("n", Name);
          J.attribute("did", declId(FD));
          J.attribute("file", fileOf(FD->getLocation()));
          J.attribute("l", lineOf(FD->getLocation()));
          J.attribute("static", FD->getStorageClass() == SC_Static);
          J.attribute("def", IsDef);
          J.attribute("ret", FD->getReturnType().getAsString());
          J.attribute("rettc", typeClass(FD->getReturnType()));
          J.attribute("variadic", FD->isVariadic());
          J.attribute("noreturn", FD->isNoReturn());
          J.attributeBegin("params");
          J.arrayBegin();
          for (const ParmVarDecl *P : FD->parameters()) {
            J.object([&] {
              J.attribute("n", P->getName());
              J.attribute("did", declId(P));
              typeAttrs(P->getType());
            });
          }
          J.arrayEnd();
          J.attributeEnd();
          if (IsDef) {
            J.attribute("endl", lineOf(FD->getBody()->getEndLoc()));
            if (gTreesAll || gTrees.count(Name) || gCfgAll || gCfgs.count(Name)) {
              J.attributeBegin("body");
              dumpStmt(FD->getBody());
              J.attributeEnd();
              if (gCfgAll || gCfgs.count(Name)) dumpCFG(FD);
            }
          }
        });
      }
      J.arrayEnd();
      J.attributeEnd();
    });
  }
};

class Consumer : public ASTConsumer {
public:
  void HandleTranslationUnit(ASTContext &Ctx) override {
    std::error_code EC;
    llvm::raw_fd_ostream OS(gOut, EC);
    if (EC) { llvm::errs() << "aldorfacts: cannot write " << gOut << "\n"; exit(3); }
    llvm::json::OStream J(OS);
    Dumper D(Ctx, J);
    D.run();
    OS << "\n";
  }
};

class Action : public ASTFrontendAction {
public:
  std::unique_ptr<ASTConsumer> CreateASTConsumer(CompilerInstance &, StringRef) override {
    return std::make_unique<Consumer>();
  }
};

class Factory : public tooling::FrontendActionFactory {
public:
  std::unique_ptr<FrontendAction> create() override { return std::make_unique<Action>(); }
};

} // namespace

static void splitInto(const std::string &S, std::set<std::string> &Out) {
  size_t P = 0;
  while (P <= S.size()) {
    size_t Q = S.find(',', P);
    if (Q == std::string::npos) Q = S.size();
    if (Q > P) Out.insert(S.substr(P, Q - P));
    P = Q + 1;
  }
}

int main(int argc, const char **argv) {
  std::vector<std::string> Sources;
  int I = 1;
  for (; I < argc; ++I) {
    std::string A = argv[I];
    if (A == "--") break;
    if (A.rfind("--out=", 0) == 0) gOut = A.substr(6);
    else if (A.rfind("--root=", 0) == 0) gRoot = A.substr(7);
    else if (A.rfind("--trees=", 0) == 0) {
      std::string V = A.substr(8);
      if (V == "all") gTreesAll = true; else splitInto(V, gTrees);
    } else if (A.rfind("--cfg=", 0) == 0) {
      std::string V = A.substr(6);
      if (V == "all") gCfgAll = true; else splitInto(V, gCfgs);
    } else Sources.push_back(A);
  }
  if (gOut.empty() || Sources.size() != 1 || I >= argc) {
    llvm::errs() << "usage: aldorfacts --out=F [--trees=all|a,b] [--cfg=all|a,b] file.c -- flags\n";
    return 2;
  }
  std::string Err;
  int Argc2 = argc - I;
  auto DB = tooling::FixedCompilationDatabase::loadFromCommandLine(Argc2, argv + I, Err);
  if (!DB) { llvm::errs() << "aldorfacts: " << Err << "\n"; return 2; }
  tooling::ClangTool Tool(*DB, Sources);
  Factory F;
  int RC = Tool.run(&F);
  return RC ? 3 : 0;
}
