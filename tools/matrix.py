#!/usr/bin/env python3
"""Run every check (quick tier, no evidence) against every seeded change, in
parallel, each on a private copy of the analysed part of /repo with the patch
applied (ALDOR_REPO points the checks at the copy; /repo itself is never
touched, so this can run while /repo is being used).

usage: matrix.py [-j N] [seeded/<id> ...]        (default: every seeded/*/patch.diff)
writes seeded/MATRIX.txt when run over all seeds.
"""
import concurrent.futures as cf
import json
import os
import shutil
import subprocess
import sys

HERE = os.path.dirname(os.path.dirname(os.path.abspath(__file__)))
ROOT = "/var/tmp/aldor-matrix/%d" % os.getpid()      # private to this run: several may be active
CHECKER = HERE                                       # a full run works from a snapshot of the checks, so that they can be edited meanwhile
SOURCE = "/repo"                                     # ... and from a snapshot of the analysed sources
EXCL = ["--exclude=*.o", "--exclude=*.a", "--exclude=*.lo", "--exclude=*.la", "--exclude=.libs", "--exclude=*.ao",
        "--exclude=*.al", "--exclude=*.class", "--exclude=*.jar", "--exclude=*.i", "--exclude=*.s", "--exclude=/aldor/src/aldor",
        "--exclude=/aldor/src/javagen", "--exclude=/aldor/src/test/testall", "--exclude=*.log", "--exclude=*.trs", "--exclude=*.abn", "--exclude=*.fm",
        "--exclude=aldorcode"]


def one(seed, props):
    sid = os.path.basename(seed.rstrip("/"))
    patchfile = os.path.join(HERE, seed, "patch.diff")
    if seed.endswith(".diff"):                       # a bare patch (benign refactorings)
        patchfile = seed if os.path.isabs(seed) else os.path.join(HERE, seed)
        sid = os.path.basename(seed)[:-5]
    wt = os.path.join(ROOT, sid)
    shutil.rmtree(wt, ignore_errors=True)
    os.makedirs(os.path.join(wt, "aldor"), exist_ok=True)
    try:
        subprocess.check_call(["rsync", "-a"] + EXCL + [SOURCE + "/aldor/aldor", os.path.join(wt, "aldor") + "/"])
        # the two generator tools are executables named like excluded files: copy them explicitly
        tu = os.path.join(wt, "aldor", "aldor", "tools", "unix")
        os.makedirs(tu, exist_ok=True)
        for t in ("msgcat", "zacc"):
            src = os.path.join(SOURCE, "aldor/aldor/tools/unix", t)
            if os.path.exists(src):
                shutil.copy2(src, os.path.join(tu, t))
        p = subprocess.run(["patch", "-p1", "-s", "-d", wt, "-i", patchfile],
                           capture_output=True, text=True)
        if p.returncode != 0:
            return sid, {"_": (9, ["patch does not apply: " + p.stdout[:200]])}
        env = dict(os.environ, ALDOR_REPO=wt, VERIF_NO_EVIDENCE="1", VERIF_SCRATCH=os.path.join(wt, "_scratch"))
        fired = {}
        for pid in props:
            r = subprocess.run([os.path.join(CHECKER, "check"), pid, "--tier", "quick", "--no-evidence"],
                               capture_output=True, text=True, cwd=CHECKER, env=env)
            if r.returncode != 0:
                lines = [l for l in r.stdout.splitlines() if l.startswith(("violation:", "ANALYSIS-BROKEN"))]
                fired[pid] = (r.returncode, lines[:4])
        return sid, fired
    finally:
        shutil.rmtree(wt, ignore_errors=True)


def main():
    args = sys.argv[1:]
    jobs = 8
    if args[:1] == ["-j"]:
        jobs = int(args[1]); args = args[2:]
    props = [c["property_id"] for c in json.load(open(os.path.join(HERE, "MANIFEST.json")))["checks"]]
    only_props = [a for a in args if len(a) == 3 and a[0] == "C"]
    seeds = [a for a in args if a not in only_props]
    allseeds = not seeds
    if allseeds:
        seeds = sorted("seeded/" + d for d in os.listdir(os.path.join(HERE, "seeded"))
                       if os.path.exists(os.path.join(HERE, "seeded", d, "patch.diff")))
    if only_props:
        props = only_props
    os.makedirs(ROOT, exist_ok=True)
    if allseeds:
        global CHECKER, SOURCE
        snap = os.path.join(ROOT, "_repo")
        os.makedirs(os.path.join(snap, "aldor"), exist_ok=True)
        subprocess.check_call(["rsync", "-a"] + EXCL + ["/repo/aldor/aldor", os.path.join(snap, "aldor") + "/"])
        tu = os.path.join(snap, "aldor", "aldor", "tools", "unix")
        os.makedirs(tu, exist_ok=True)
        for t in ("msgcat", "zacc"):
            if os.path.exists(os.path.join("/repo/aldor/aldor/tools/unix", t)):
                shutil.copy2(os.path.join("/repo/aldor/aldor/tools/unix", t), os.path.join(tu, t))
        SOURCE = snap
        CHECKER = os.path.join(ROOT, "_verif")
        subprocess.check_call(["rsync", "-a", "--exclude=/.git", "--exclude=/seeded", "--exclude=/benign", "--exclude=/replays",
                               "--exclude=/evidence", "--exclude=/out", "--exclude=__pycache__", HERE + "/", CHECKER + "/"])
        os.makedirs(os.path.join(CHECKER, "out"), exist_ok=True)
    out = {}
    with cf.ThreadPoolExecutor(jobs) as ex:
        for sid, fired in ex.map(lambda s: one(s, props), seeds):
            out[sid] = fired
            own = sid.split("-")[0]
            txt = " ".join("%s exit %d" % (p, rc) for p, (rc, _) in sorted(fired.items())) or "no check fired"
            print("%s: %s" % (sid, txt), flush=True)
            for p, (rc, lines) in sorted(fired.items()):
                for l in lines[:2]:
                    print("      %s %s" % (p, l[:220]), flush=True)
    shutil.rmtree(ROOT, ignore_errors=True)
    if allseeds and not only_props:
        with open(os.path.join(HERE, "seeded", "MATRIX.txt"), "w") as f:
            for sid in sorted(out):
                fired = out[sid]
                f.write("seeded/%s/: %s \n" % (sid, " ".join("%s exit %d" % (p, rc) for p, (rc, _) in sorted(fired.items()))
                                              or "no check fired"))
    return 0


if __name__ == "__main__":
    sys.exit(main())
