import subprocess, sys
REPO="/repo"
CASES=[
 # --- fifth batch: the round-6 rules (Q10, N5, O5, W11, T13, P7, Q11, V7, D6) ---
 ("C11","aldor/aldor/src/bigint.c","\telse if (bintLength(b) < bitsizeof(ULong)) {","\telse if (bitsizeof(ULong) > bintLength(b)) {"),
 ("C11","aldor/aldor/src/bigint.c","\telse if (bintLength(b) < bitsizeof(ULong)) {","\telse if (bintLength(b) <= bitsizeof(ULong) - 1) {"),
 ("C11","aldor/aldor/src/bigint.c","\tneg = bintIsNeg(a);\n\tif (neg)\n\t\ta = bintNegate(a);\n\n\tif (bintIsNeg(b))\n\t\tb = bintNegate(b);\n\t\n\tif (IsImmed(b)) {","\tneg = bintIsNeg(a);\n\tif (neg != 0)\n\t\ta = bintNegate(a);\n\n\tif (bintIsNeg(b))\n\t\tb = bintNegate(b);\n\t\n\tif (IsImmed(b)) {"),
 ("C18","aldor/aldor/src/emit.c","\tif (emitKeep[FTYPENO_C] && !emitInfoIsAXLmain(finfo))\n\t\t; /* Keep */\n\telse if (strEqual(fnameType(emitSrcFile(finfo)), FTYPE_C))\n\t\t; /* Keep */\n\telse if (emitDo[FTYPENO_AXLMAINC] && emitInfoIsAXLmain(finfo))\n\t\t; /* Keep */\n\telse {","\tif (!emitInfoIsAXLmain(finfo) && emitKeep[FTYPENO_C])\n\t\t; /* Keep */\n\telse if (emitDo[FTYPENO_AXLMAINC] && emitInfoIsAXLmain(finfo))\n\t\t; /* Keep */\n\telse if (strEqual(fnameType(emitSrcFile(finfo)), FTYPE_C))\n\t\t; /* Keep */\n\telse {"),
 ("C18","aldor/aldor/src/emit.c","\tif (emitKeep[FTYPENO_C] && !emitInfoIsAXLmain(finfo))\n\t\t; /* Keep */\n\telse if (strEqual(fnameType(emitSrcFile(finfo)), FTYPE_C))\n\t\t; /* Keep */\n\telse if (emitDo[FTYPENO_AXLMAINC] && emitInfoIsAXLmain(finfo))\n\t\t; /* Keep */\n\telse {","\tif (emitKeep[FTYPENO_C] && !emitInfoIsAXLmain(finfo))\n\t\treturn;\n\tif (strEqual(fnameType(emitSrcFile(finfo)), FTYPE_C))\n\t\treturn;\n\tif (emitDo[FTYPENO_AXLMAINC] && emitInfoIsAXLmain(finfo))\n\t\treturn;\n\t{"),
 ("C05","aldor/aldor/src/emit.c","\tif (emitFileIdName)\n\t\treturn emitFileIdName;\n\tif (finfo->idName)\n\t\treturn finfo->idName;","\tif (emitFileIdName != NULL)\n\t\treturn emitFileIdName;\n\tif (finfo->idName != NULL)\n\t\treturn finfo->idName;"),
 ("C05","aldor/aldor/src/emit.c","\tname = fnameName(emitSrcFile(finfo));\n\tif (emitFileIdPrefix)\n\t\tname = strConcat(emitFileIdPrefix, name);\n\n\treturn strCopy(name);","\tname = fnameName(emitSrcFile(finfo));\n\tif (!emitFileIdPrefix)\n\t\treturn strCopy(name);\n\n\treturn strCopy(strConcat(emitFileIdPrefix, name));"),
 ("C03","aldor/aldor/src/fint.c","\t\tip = stmtPos;\n\t\t(void)fintEval(&expr); /* we ignore the ret value */\n\t\tbreak;\n\tcase FOAM_Label:","\t\tip = stmtPos;\n\t\tfintEval(&expr);\n\t\tbreak;\n\tcase FOAM_Label:"),
 ("C02","aldor/aldor/src/of_cprop.c","\tif (foamTag(rhs) == FOAM_Cast)\n\t\trhs = rhs->foamCast.expr;\n\n\tif (cpIsTmpVar(rhs))\n\t\treturn rhs;\n\n\treturn NULL;","\tif (foamTag(rhs) == FOAM_Cast)\n\t\trhs = rhs->foamCast.expr;\n\n\treturn cpIsTmpVar(rhs) ? rhs : NULL;"),
 ("C15","aldor/aldor/src/srcpos.c","# define sposSet(l, c) (((l) << SPOS_LNO_SHIFT) | ((c) << SPOS_CNO_SHIFT))","# define sposSet(l, c) (((c) << SPOS_CNO_SHIFT) | ((l) << SPOS_LNO_SHIFT))"),
 # --- fourth batch: the round-5 rules (T8, W10, S8, P6, L5, D5, K10, Q7, B8, T-sweep, G6, M6, J9, U5, B6) ---
 ("C03","aldor/aldor/src/genc.c","\tif (foamProgUsesFluids(gcvProg)) {\n\t\treturn ccoNew(CCO_Compound, 1, ccoMany2(gc0PopFluid(), ret));\n\t}\n\telse return ret;","\tif (!foamProgUsesFluids(gcvProg))\n\t\treturn ret;\n\treturn ccoNew(CCO_Compound, 1, ccoMany2(gc0PopFluid(), ret));"),
 ("C03","aldor/aldor/src/genc.c","\tif (foamProgUsesFluids(gcvProg)) {\n\t\treturn ccoNew(CCO_Compound, 1, ccoMany2(gc0PopFluid(), ret));\n\t}\n\telse return ret;","\tif (foamProgUsesFluids(gcvProg)) {\n\t\tCCode pop = gc0PopFluid();\n\t\tret = ccoNew(CCO_Compound, 1, ccoMany2(pop, ret));\n\t}\n\treturn ret;"),
 ("C05","aldor/aldor/src/archive.c","\tif (!*endp || *endp == ' ') return;","\tif (*endp == '\\0' || *endp == ' ') return;"),
 ("C05","aldor/aldor/src/archive.c","\tif (!*endp || *endp == ' ') return;\n\tcomsgError(NULL, ALDOR_E_ArBadNumber, arToString(ar));\n\tarPosition(ar) = 0;\n\tarItem(ar) = 0;\n\t*plong = 0;","\tif (*endp && *endp != ' ') {\n\t\tcomsgError(NULL, ALDOR_E_ArBadNumber, arToString(ar));\n\t\tarPosition(ar) = 0;\n\t\tarItem(ar) = 0;\n\t\t*plong = 0;\n\t}"),
 ("C06","aldor/aldor/src/ti_tdn.c","\tTForm tf = tiGetTForm(stab, absyn->abRestrictTo.type);\n\n\tif (!tfSatReturn(tf, type)) {\n\t\tterrorNotUniqueType(ALDOR_E_TinExprMeans,\n\t\t\t            absyn, type, abTPoss(absyn));\n\t\treturn false;\n\t}\n\ttitdn(stab, absyn->abRestrictTo.expr, tf);\n\tabTUnique(absyn) = tf;\n\treturn true;","\tTForm tf = tiGetTForm(stab, absyn->abRestrictTo.type);\n\n\tif (tfSatReturn(tf, type)) {\n\t\ttitdn(stab, absyn->abRestrictTo.expr, tf);\n\t\tabTUnique(absyn) = tf;\n\t\treturn true;\n\t}\n\tterrorNotUniqueType(ALDOR_E_TinExprMeans,\n\t\t\t    absyn, type, abTPoss(absyn));\n\treturn false;"),
 ("C06","aldor/aldor/src/ti_tdn.c","\treturn titdn0Generic(stab, absyn, tfBoolean);\n}\n\n/***************************************************************************\n *\n * :: Hide:","\ttitdn0Generic(stab, absyn, tfBoolean);\n\treturn true;\n}\n\n/***************************************************************************\n *\n * :: Hide:"),
 ("C15","aldor/aldor/src/include.c","\t\t\tfileState = o_fileState;\n\t\t\tsll = inclError(ALDOR_E_InclInfinite, s);\n\t\t\tstrFree(s);","\t\t\tfileState = o_fileState;\n\t\t\t{ sll = inclError(ALDOR_E_InclInfinite, s); }\n\t\t\tstrFree(s);"),
 ("C19","aldor/aldor/src/xfloat.c","\t\t*psign     = (w0 & XDF_SignMask) != 0;","\t\t*psign     = (w0 & XDF_SignMask) ? true : false;"),
 ("C08","aldor/aldor/src/lib.c","\t\tlibIndexSect(lib, i).name    = LIB_INDEX_LIMIT;\n\t\tlibIndexSect(lib, i).offset  = 0;\n\t\tlibIndexSect(lib, i).length  = 0;","\t\tlibIndexSect(lib, i).length  = 0;\n\t\tlibIndexSect(lib, i).offset  = 0;\n\t\tlibIndexSect(lib, i).name    = LIB_INDEX_LIMIT;"),
 ("C07","aldor/aldor/src/macex.c","\t\tabActive = listCons(AbSyn) (ab, abActive);\n\t\tmacActive = listCons(AbSyn) (mac, macActive);","\t\tmacActive = listCons(AbSyn) (mac, macActive);\n\t\tabActive = listCons(AbSyn) (ab, abActive);"),
 ("C02","aldor/aldor/src/of_jflow.c","\t\t\tnlhs = foamArgc(lhs);\n\t\t\tlhsv = lhs->foamValues.argv;","\t\t\tlhsv = lhs->foamValues.argv;\n\t\t\tnlhs = foamArgc(lhs);"),
 ("C04","aldor/aldor/src/dword.c","\tr  = MODB(a + b);\n\tko = r < a;","\tr  = MODB(b + a);\n\tko = r < b;"),
 ("C10","aldor/aldor/src/store.c","\t\t\t\t\tif (QmInfoMark(nqmtag)) {\n\t\t\t\t\t\tint N = nqmno+nnq;","\t\t\t\t\tif (QmInfoMark(nqmtag) != 0) {\n\t\t\t\t\t\tint N = nqmno+nnq;"),
 ("C09","aldor/aldor/src/store.c","\t\tif (ptrEQ(pp, hi-1)) {","\t\tif (ptrEQ(hi-1, pp)) {"),
 ("C16","aldor/aldor/src/genc.c","\t  case FOAM_Byte:\n\t  case FOAM_SFlo:\n\t  case FOAM_DFlo:\n\t  case FOAM_HInt:\n\t  case FOAM_Char:\n\t  case FOAM_Arb:\n\t\treturn true;","\t  case FOAM_Char:\n\t  case FOAM_HInt:\n\t  case FOAM_DFlo:\n\t  case FOAM_SFlo:\n\t  case FOAM_Byte:\n\t  case FOAM_Arb:\n\t\treturn true;"),
 ("C12","aldor/aldor/src/java/genjava.c","\textraArg = listElt(JavaCode)(args, 2);\n\targs = listList(JavaCode)(2, car(args), car(cdr(args)));","\textraArg = car(cdr(cdr(args)));\n\targs = listList(JavaCode)(2, listElt(JavaCode)(args, 0), listElt(JavaCode)(args, 1));"),
 ("C13","aldor/aldor/src/scobind.c","\treturn ab && (!abSyme(ab) || isNewSyme(abSyme(ab)));","\treturn ab != NULL && (abSyme(ab) == NULL || isNewSyme(abSyme(ab)));"),
 ("C04","aldor/aldor/src/fint.c","(FiBool) (isdigit(expr1.fiChar) != 0);","(FiBool) !!isdigit(expr1.fiChar);"),
 # --- third batch: restructurings; exit 0 or exit 2 (analysis broken) are acceptable, exit 1 is a false alarm ---
 ("C18","aldor/aldor/src/file.c","\tint\tfailed = ferror(file);\n\n\tif (fclose(file) != 0) failed = 1;\n\tif (failed) (void) (*fileError)(fn, osIoWrMode);","\tint\tbad = ferror(file);\n\tint\tclosed = fclose(file);\n\n\tif (bad || closed != 0) (void) (*fileError)(fn, osIoWrMode);"),
 ("C07","aldor/aldor/src/include.c","\t\t\tif (ifState != NoIf) \n\t\t\t*psll = listNConcat(SrcLine)\n\t\t\t(inclError(ALDOR_E_InclIfEof), *psll);\n\t\t\treturn false;","\t\t\tif (ifState == NoIf) return false;\n\t\t\t*psll = listNConcat(SrcLine)\n\t\t\t(inclError(ALDOR_E_InclIfEof), *psll);\n\t\t\treturn false;"),
 ("C15","aldor/aldor/src/comsg.c","\t\tglno = sposGlobalLine(comsgv[i0]->pos);\n\t\tfor (n = 1; i0 + n < comsgc; n++)\n\t\t\tif (sposGlobalLine(comsgv[i0+n]->pos) != glno) break;","\t\tglno = sposGlobalLine(comsgv[i0]->pos);\n\t\tn = 1;\n\t\twhile (i0 + n < comsgc && sposGlobalLine(comsgv[i0+n]->pos) == glno) n++;"),
 ("C16","aldor/aldor/src/genc.c","\twhile (nStmts > gcvSMax && gcvSMax > 0) {","\tfor (; nStmts > gcvSMax && gcvSMax > 0; ) {"),
 ("C03","aldor/aldor/src/ccode.c","\t\tif (a && ccoIsExpr(a) && ccoInfo(ccoTag(a)).kind == CCOK_Prefix)\n\t\t\tcc += ccoPuts(\" \");\n\t\tcc += ccoPrExpr(a, iPrec);","\t\tcc += ccoPrExpr(a, iPrec + 1);"),
 ("C12","aldor/aldor/src/java/javacode.c","\tjc0PrintOperand(ctxt, thisClss, lhs, thisClss->assoc == JCO_RL);\n\tjcoPContextWrite(ctxt, thisClss->txt);\n\tjc0PrintOperand(ctxt, thisClss, rhs, thisClss->assoc == JCO_LR);","\tBool lp = (thisClss->assoc == JCO_RL), rp = (thisClss->assoc == JCO_LR);\n\tjc0PrintOperand(ctxt, thisClss, lhs, lp);\n\tjcoPContextWrite(ctxt, thisClss->txt);\n\tjc0PrintOperand(ctxt, thisClss, rhs, rp);"),
 ("C06","aldor/aldor/src/tfsat.c","\tSatMask\t\tmask0 = tfSatInner(mask);","\tSatMask\t\tmask0;\n\tmask0 = tfSatInner(mask);"),
 ("C10","aldor/aldor/src/store.c","\tnpages\t= 1;\n\tassert(nbytes <= npages*PgSize);\n\tnpcs  = (npages*PgSize)/nbytes;","\tnpages\t= 1;\n\tassert(nbytes <= npages*PgSize);\n\tnpcs  = PgSize/nbytes;"),
 ("C17","aldor/aldor/src/lib.c","\t/* Check initial section header. */\n\tif( libIndexSect(lib, LIB_INDEX_START).offset != libHdrSize ) {","\t/* Check initial section header. */\n\tif( !(libIndexSect(lib, LIB_INDEX_START).offset == libHdrSize) ) {"),
 ("C02","aldor/aldor/src/of_deadv.c","\tif (dvUsage(format, index) < val)\n\t\tdvSetUsage(format, index, val);","\tif (val > dvUsage(format, index))\n\t\tdvSetUsage(format, index, val);"),
 ("C09","aldor/aldor/src/fint.c","\twhile (p < headStack + STACK_SIZE) {\n\t\tp->fiWord = (FiWord) 0;\n\t\tp = (DataObj) (((FiWord *) p) + 1);\n\t}","\tfor (; p < headStack + STACK_SIZE; p = (DataObj) (((FiWord *) p) + 1))\n\t\tp->fiWord = (FiWord) 0;"),
 ("C05","aldor/aldor/src/foam.c","\t\tfor (i = 0; i < hunks; i++)\n\t\t\tparts[i] = number & 0x7fffffff, number >>= 31;","\t\tfor (i = 0; i < hunks; i++) {\n\t\t\tparts[i] = number & 0x7fffffff;\n\t\t\tnumber >>= 31;\n\t\t}"),
 ("C13","aldor/aldor/src/scan.c","      case '\"':\n\tif (! sawEscape) inStringLiteral = false;\n\tbreak;","      case '\"':\n\tinStringLiteral = false;\n\tbreak;"),
 ("C08","aldor/aldor/src/gf_imps.c","\tgen0GVectTable   = tblNew((TblHashFun)strHash, \n\t\t\t\t  (TblEqFun)strEqual);","\tgen0GVectTable   = tblNew((TblHashFun) strHash, (TblEqFun) strEqual);"),

 # --- second batch: the newer rules ---
 ("C07","aldor/aldor/src/linear.c","\t\ttl = cdr(tl);\n\t\tif (tl) tl = cdr(tl);","\t\tif (cdr(tl)) tl = cdr(cdr(tl)); else tl = cdr(tl);"),
 ("C07","aldor/aldor/src/syscmd.c","\t\t\tif (comsgErrorCount() != 0)\n\t\t\t\texitFailure();\n\t\t\texitSuccess();","\t\t\tif (comsgErrorCount())\n\t\t\t\texitFailure();\n\t\t\texitSuccess();"),
 ("C07","aldor/aldor/src/include.c","\tif (ifState == NoIf)\n\t\treturn addSysCmd(inclError(ALDOR_E_InclUnbalElse), sl);","\tif (NoIf == ifState)\n\t\treturn addSysCmd(inclError(ALDOR_E_InclUnbalElse), sl);"),
 ("C05","aldor/aldor/src/foam.c","\t\tcase FOAM_EElt:\t\tx1 = 2; x2 =  3; break;\n\t\tcase FOAM_IRElt:\tx1 = 2; x2 = -1; break;","\t\tcase FOAM_IRElt:\tx1 = 2; x2 = -1; break;\n\t\tcase FOAM_EElt:\t\tx1 = 2; x2 =  3; break;"),
 ("C05","aldor/aldor/src/sexpr.c","\t\t\tif (*str == '\"' || *str == '\\\\')","\t\t\tif (*str == '\\\\' || *str == '\"')"),
 ("C05","aldor/aldor/src/foam.c","\t\t\t\tbintToPlacevS(bint, &slen, &data);\n\t\t\t\tsi  = slen;","\t\t\t\tbintToPlacevS(bint, &slen, &data);\n\t\t\t\tsi  = (int) slen;"),
 ("C03","aldor/aldor/src/fint.c","\tfluidValues\t= state-> fluidValues;\n\tlexEnv\t\t= state-> lexEnv;","\tlexEnv\t\t= state-> lexEnv;\n\tfluidValues\t= state-> fluidValues;"),
 ("C06","aldor/aldor/src/tfsat.c","\t\tresult = tfSat(mask0, tfMapArg(T), tfMapArg(S));","\t\tTForm targ = tfMapArg(T), sarg = tfMapArg(S);\n\t\tresult = tfSat(mask0, targ, sarg);"),
 ("C06","aldor/aldor/src/ti_bup.c","\t\tablogAndPush(&abCondKnown, &saveCond, test, true);\n\t\tttf = tibup0Within(stab, thenAlt, listNil(Syme), true);\n\t\tablogAndPop (&abCondKnown, &saveCond);","\t\tablogAndPush(&abCondKnown, &saveCond, test, true);\n\t\t{ ttf = tibup0Within(stab, thenAlt, listNil(Syme), true); }\n\t\tablogAndPop (&abCondKnown, &saveCond);"),
 ("C13","aldor/aldor/src/axlcomp.c","\tcompPhaseScoBind(finfo, stab, ab);\n\tif (comsgErrorCount())\t{\n\t\tif (fintMode == FINT_LOOP) scoSetUndoState();\n\t\treturn ab;\n\t}","\tcompPhaseScoBind(finfo, stab, ab);\n\tif (comsgErrorCount() != 0)\t{\n\t\tif (FINT_LOOP == fintMode) scoSetUndoState();\n\t\treturn ab;\n\t}"),
 ("C15","aldor/aldor/src/include.c","\t\t  sposGrowGloLineTbl(fileState.curFname, fileState.lineNumber,\n\t\t\t\t     inclSerialLineNo);","\t\t  { sposGrowGloLineTbl(fileState.curFname, fileState.lineNumber,\n\t\t\t\t     inclSerialLineNo); }"),
 ("C16","aldor/aldor/src/genc.c","\tif (gc0OverSMax()) {\n\t\tFoam\tdecl = gcvConst->foamDDecl.argv[0];\n\t\tglobAName = gc0MultVarId(\"GA\", gcvNBInts, decl->foamDecl.id);\n\t\tglobBName = gc0MultVarId(\"GB\", gcvNBInts, decl->foamDecl.id);\n\t}\n\telse {\n\t\tglobAName = gc0VarId(\"GA\", gcvNBInts);\n\t\tglobBName = gc0VarId(\"GB\", gcvNBInts);\n\t}","\tif (!gc0OverSMax()) {\n\t\tglobAName = gc0VarId(\"GA\", gcvNBInts);\n\t\tglobBName = gc0VarId(\"GB\", gcvNBInts);\n\t}\n\telse {\n\t\tFoam\tdecl = gcvConst->foamDDecl.argv[0];\n\t\tglobAName = gc0MultVarId(\"GA\", gcvNBInts, decl->foamDecl.id);\n\t\tglobBName = gc0MultVarId(\"GB\", gcvNBInts, decl->foamDecl.id);\n\t}"),
 ("C17","aldor/aldor/src/lib.c","\t\tif( n < LIB_NAME_LIMIT )\n\t\t\tlibNameIndex(lib, n) = i;","\t\tif( n <= LIB_NAME_LIMIT - 1 )\n\t\t\tlibNameIndex(lib, n) = i;"),
 ("C18","aldor/aldor/src/axlcomp.c","\tcomsgFatal(NULL, ALDOR_F_CantOpenMode, name, mode);","\tcomsgFatal((AbSyn) NULL, ALDOR_F_CantOpenMode, name, mode);"),
 ("C12","aldor/aldor/src/java/javacode.c","\tjc0PrintOperand(ctxt, thisClss, lhs, thisClss->assoc == JCO_RL);","\tjc0PrintOperand(ctxt, thisClss, lhs, JCO_RL == thisClss->assoc);"),
 ("C08","aldor/aldor/src/genc.c","\tgcvNBInts = 0;\n\tgcvNRRFmt = 0;","\tgcvNRRFmt = 0;\n\tgcvNBInts = 0;"),
 ("C02","aldor/aldor/src/of_comex.c","\t\tcseGenExpDeeply(stmt, bb);\n\n\t\tif (cseIsDef(stmt))","\t\tcseGenExpDeeply(stmt, bb);\n\t\tif (cseIsDef(stmt) != 0)"),
 ("C09","aldor/aldor/src/store.c","\tnpcs  = (npages*PgSize)/nbytes;","\tnpcs  = (int) ((npages*PgSize)/nbytes);"),
 ("C10","aldor/aldor/src/btree.c","                        btreeDelete0(x->part[i+1].branch, ok, &oe, btfree);\n                        x->part[i].key   = ok;\n                        x->part[i].entry = oe;","                        btreeDelete0(x->part[i+1].branch, ok, &oe, btfree);\n                        x->part[i].entry = oe;\n                        x->part[i].key   = ok;"),
 ("C19","aldor/aldor/src/xfloat.c","\tif (expon == XDF_ExponMin && !hasFrac) {\n\t\tdfAssemble(pdf, sign, DF_ExponMin, pb);","\tif (!hasFrac && expon == XDF_ExponMin) {\n\t\tdfAssemble(pdf, sign, DF_ExponMin, pb);"),
 ("C04","aldor/aldor/src/of_cfold.c","\t\tfoam = foamNewBool((argv[0]->foamSInt.SIntData % 2) != 0);","\t\tfoam = foamNewBool(0 != (argv[0]->foamSInt.SIntData % 2));"),

 ("C07","aldor/aldor/src/util.c","\tslen = (ndigs <= radixBits) ? ndigs : radixBits;","\tslen = ndigs;\n\tif (slen > radixBits) slen = radixBits;"),
 ("C06","aldor/aldor/src/tinfer.c","\tconditionAbLog = ablogTrue();\n\tfor (tmpSefo = condition;","\tfor (conditionAbLog = ablogTrue(), tmpSefo = condition;"),
 ("C10","aldor/aldor/src/store.c","\t\t\tnb = SectionHeadSize +\n\t\t\t     nq * (sizeof(QmInfo) + MixedSizeQuantum);","\t\t\tnb = nq * (MixedSizeQuantum + sizeof(QmInfo)) + SectionHeadSize;"),
 ("C02","aldor/aldor/src/of_deadv.c","\t\tif (dvLocals[index].used != DV_Used &&\n\t\t    dvLocals[index].used != DV_DefinedSdEfx)","\t\tif (dvLocals[index].used < DV_DefinedSdEfx)"),
 ("C05","aldor/aldor/src/foam.c","\t\tix[0] = foamArgv(foam)[0].data;\n\t\tix[1] =\t\t\t    foamArgv(foam)[x1].data;","\t\tix[1] =\t\t\t    foamArgv(foam)[x1].data;\n\t\tix[0] = foamArgv(foam)[0].data;"),
 
 ("C07","aldor/aldor/src/abcheck.c","\tif (!abHasTag(dest, AB_Apply) || abApplyArgc(dest) < 1) {","\tif (abTag(dest) != AB_Apply || abApplyArgc(dest) == 0) {"),
 ("C03","aldor/aldor/src/ccode.c","\t\tcc += ccoPrExpr(ccoArgv(cco)[0], iPrec +!isLtoR);","\t\tcc += ccoPrExpr(ccoArgv(cco)[0], isLtoR ? iPrec : iPrec + 1);"),
 ("C18","aldor/aldor/src/lib.c","\tLIB_SEEK(lib, long0);\n\tFILE_PUT_CHARS(lib->file, bufChars(buf), bufPosition(buf));","\tLIB_SEEK(lib, (long) 0);\n\tFILE_PUT_CHARS(lib->file, bufChars(buf), bufPosition(buf));"),
 ("C17","aldor/aldor/src/archive.c","\tif (pos >= size) {","\tif (size <= pos) {"),

 ("C17","aldor/aldor/src/lib.c","\tfor( i = LIB_INDEX_START + 1; i < lib->hdr.numSect; i += 1 )","\tfor( i = LIB_INDEX_START + 1; i < lib->hdr.numSect; i++ )"),
 ("C17","aldor/aldor/src/lib.c","\tfor( i = LIB_INDEX_START + 1; i < lib->hdr.numSect; i += 1 )","\tfor( i = LIB_INDEX_START + 1; lib->hdr.numSect > i; i += 1 )"),
 ("C05","aldor/aldor/src/foam.c","\t\twhile (i >= 0) {\n\t\t\tfoam = foamNew(FOAM_BCall, 3, FOAM_BVal_SIntShiftUp,","\t\tfor (; i >= 0; ) {\n\t\t\tfoam = foamNew(FOAM_BCall, 3, FOAM_BVal_SIntShiftUp,"),
 ("C02","aldor/aldor/src/of_peep.c","\tif (peepBValOpInfo[op].arity == 0 && \n\t    !peepNoSideFx(arg0))\n\t\treturn NULL;","\tif (peepBValOpInfo[op].arity == 0) {\n\t\tif (!peepNoSideFx(arg0))\n\t\t\treturn NULL;\n\t}"),
 ("C07","aldor/aldor/src/include.c","\t\t\tif (ifState != NoIf) \n","\t\t\tif (!(ifState == NoIf)) \n"),
 ("C18","aldor/aldor/src/file.c","\tint\tfailed = ferror(file);\n\n\tif (fclose(file) != 0) failed = 1;","\tint\tfailed = ferror(file) != 0;\n\n\tif (fclose(file)) failed = 1;"),
 ("C13","aldor/aldor/src/axlcomp.c","\tif (!compIsMoreAfterSyntax(finfo))  return ab;\n\n\tcompPhaseScoBind(finfo, stab, ab);","\tif (compIsMoreAfterSyntax(finfo) == false)  return ab;\n\n\tcompPhaseScoBind(finfo, stab, ab);"),
 ("C10","aldor/aldor/src/store.c","\tnpcs  = (npages*PgSize)/nbytes;","\tnpcs  = (PgSize*npages)/nbytes;"),
 ("C16","aldor/aldor/src/genc.c","\twhile (nStmts > gcvSMax && gcvSMax > 0) {","\twhile (gcvSMax > 0 && gcvSMax < nStmts) {"),
 ("C15","aldor/aldor/src/comsg.c","\t\t\tif (sposGlobalLine(comsgv[i0+n]->pos) != glno) break;","\t\t\tif (!(sposGlobalLine(comsgv[i0+n]->pos) == glno)) break;"),
 ("C06","aldor/aldor/src/tinfer.c","\tconditionAbLog = ablogTrue();\n\tfor (tmpSefo = condition;","\tconditionAbLog = ablogTrue();\n\ttmpSefo = condition;\n\tfor (;"),
 ("C09","aldor/aldor/src/fint.c","\tfintChainedStackFree(headStack[STACK_SIZE].ptr);\n\theadStack[STACK_SIZE].ptr = 0;   /* unchain added stacks */","\t{ DataObj chain = headStack[STACK_SIZE].ptr;\n\theadStack[STACK_SIZE].ptr = 0;   /* unchain added stacks */\n\tfintChainedStackFree(chain); }"),
 ("C03","aldor/aldor/src/fint.c","\tstate->lexEnv\t\t= lexEnv;\n\tstate->lev0\t\t= lev0;","\tstate->lev0\t\t= lev0;\n\tstate->lexEnv\t\t= lexEnv;"),
 ("C12","aldor/aldor/src/java/javacode.c","\tif (c2->prec == 0)\n\t\treturn false;\n\treturn c1->prec > c2->prec;","\treturn c2->prec != 0 && c1->prec > c2->prec;"),
 ("C19","aldor/aldor/src/util.c","(1.0 / d < 0.0) ? \"-0.0000000000000000\"","(1.0 / d < 0) ? \"-0.0000000000000000\""),
 ("C08","aldor/aldor/src/comsg.c","\t\tnRemarks\t= 0;\n\t\tnNotes\t\t= 0;","\t\tnNotes\t\t= 0;\n\t\tnRemarks\t= 0;"),
 ("C04","aldor/aldor/src/genc.c","\tcc0 = gccExpr(foam->foamBCall.argv[0]);\n\tcc1 = gccExpr(foam->foamBCall.argv[1]);\n\tcc = ccoNew(ctag, 2, cc0, cc1);\n\n\treturn ccoMod(cc, gccExpr(foam->foamBCall.argv[2]));","\tCCode cc2;\n\tcc0 = gccExpr(foam->foamBCall.argv[0]);\n\tcc1 = gccExpr(foam->foamBCall.argv[1]);\n\tcc = ccoNew(ctag, 2, cc0, cc1);\n\tcc2 = gccExpr(foam->foamBCall.argv[2]);\n\n\treturn ccoMod(cc, cc2);"),
]
N=int(sys.argv[1]) if len(sys.argv)>1 else len(CASES)
for pid,f,old,new in CASES[:N]:
    p=REPO+"/"+f
    s=open(p).read()
    if s.count(old)!=1:
        print(pid,f,"ANCHOR x%d"%s.count(old)); continue
    open(p,"w").write(s.replace(old,new))
    try:
        r=subprocess.run(["/verif/check",pid,"--tier","quick","--no-evidence"],capture_output=True,text=True,cwd="/verif")
        lines=[l for l in r.stdout.splitlines() if l.startswith(("violation:","ANALYSIS-BROKEN"))]
        print(pid, f.split("/")[-1], "exit", r.returncode, (lines[0][:200] if lines else ""))
    finally:
        subprocess.run(["git","-C",REPO,"checkout","--","."])
