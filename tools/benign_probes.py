import subprocess, sys
REPO="/repo"
CASES=[
 ("C07","aldor/aldor/src/util.c","\tslen = (ndigs <= radixBits) ? ndigs : radixBits;","\tslen = ndigs;\n\tif (slen > radixBits) slen = radixBits;"),
 ("C06","aldor/aldor/src/tinfer.c","\tconditionAbLog = ablogTrue();\n\tfor (tmpSefo = condition;","\tfor (conditionAbLog = ablogTrue(), tmpSefo = condition;"),
 ("C10","aldor/aldor/src/store.c","\t\t\tnb = SectionHeadSize +\n\t\t\t     nq * (sizeof(QmInfo) + MixedSizeQuantum);","\t\t\tnb = nq * (MixedSizeQuantum + sizeof(QmInfo)) + SectionHeadSize;"),
 ("C02","aldor/aldor/src/of_deadv.c","\t\tif (dvLocals[index].used != DV_Used &&\n\t\t    dvLocals[index].used != DV_DefinedSdEfx)","\t\tif (dvLocals[index].used < DV_DefinedSdEfx)"),
 ("C05","aldor/aldor/src/foam.c","\t\tix[0] = foamArgv(foam)[0].data;\n\t\tix[1] =\t\t\t    foamArgv(foam)[x1].data;","\t\tix[1] =\t\t\t    foamArgv(foam)[x1].data;\n\t\tix[0] = foamArgv(foam)[0].data;"),
 ("C13","aldor/aldor/src/scan.c","      case '_':\n\tsawEscape = true;\n\tbreak;\n      case '\"':\n\tif (! sawEscape) inStringLiteral = false;","      case ESC_CHAR:\n\tsawEscape = true;\n\tbreak;\n      case '\"':\n\tinStringLiteral = false;"),
 ("C07","aldor/aldor/src/abcheck.c","\tif (!abHasTag(dest, AB_Apply) || abApplyArgc(dest) < 1) {","\tif (abTag(dest) != AB_Apply || abApplyArgc(dest) == 0) {"),
 ("C03","aldor/aldor/src/ccode.c","\t\tcc += ccoPrExpr(ccoArgv(cco)[0], iPrec +!isLtoR);","\t\tcc += ccoPrExpr(ccoArgv(cco)[0], isLtoR ? iPrec : iPrec + 1);"),
 ("C18","aldor/aldor/src/lib.c","\tLIB_SEEK(lib, long0);\n\tFILE_PUT_CHARS(lib->file, bufChars(buf), bufPosition(buf));","\tLIB_SEEK(lib, (long) 0);\n\tFILE_PUT_CHARS(lib->file, bufChars(buf), bufPosition(buf));"),
 ("C17","aldor/aldor/src/archive.c","\tif (pos >= size) {","\tif (size <= pos) {"),

 ("C17","aldor/aldor/src/lib.c","\tfor( i = LIB_INDEX_START + 1; i < lib->hdr.numSect; i += 1 )","\tfor( i = LIB_INDEX_START + 1; i < lib->hdr.numSect; i++ )"),
 ("C17","aldor/aldor/src/lib.c","\tfor( i = LIB_INDEX_START + 1; i < lib->hdr.numSect; i += 1 )","\tfor( i = LIB_INDEX_START + 1; lib->hdr.numSect > i; i += 1 )"),
 ("C05","aldor/aldor/src/foam.c","\t\twhile (i >= 0) {\n\t\t\tfoam = foamNew(FOAM_BCall, 3, FOAM_BVal_SIntShiftUp,","\t\tfor (; i >= 0; ) {\n\t\t\tfoam = foamNew(FOAM_BCall, 3, FOAM_BVal_SIntShiftUp,"),
 ("C02","aldor/aldor/src/of_peep.c","\tif (peepBValOpInfo[op].arity == 0 && \n\t    !peepNoSideFx(arg0))\n\t\treturn NULL;","\tif (peepBValOpInfo[op].arity == 0) {\n\t\tif (!peepNoSideFx(arg0))\n\t\t\treturn NULL;\n\t}"),
 ("C07","aldor/aldor/src/include.c","\t\t\tif (ifState != NoIf) \n","\t\t\tif (!(ifState == NoIf)) \n"),
 ("C18","aldor/aldor/src/file.c","\tint\tfailed = ferror(file);\n\n\tif (fclose(file) != 0) failed = 1;","\tint\tfailed = ferror(file) != 0;\n\n\tif (fclose(file)) failed = 1;"),
 ("C13","aldor/aldor/src/axlcomp.c","\tif (!compIsMoreAfterSyntax(finfo))  return ab;\n\n\tcompPhaseScoBind(finfo, stab, ab);","\tif (compIsMoreAfterSyntax(finfo) == false)  return ab;\n\n\tcompPhaseScoBind(finfo, stab, ab);"),
 ("C10","aldor/aldor/src/store.c","\tnpcs  = (npages*PgSize)/nbytes;","\tnpcs  = (PgSize*npages)/nbytes;"),
 ("C16","aldor/aldor/src/genc.c","\twhile (nStmts > gcvSMax && gcvSMax > 0) {","\twhile (gcvSMax > 0 && gcvSMax < nStmts) {"),
 ("C15","aldor/aldor/src/comsg.c","\t\t\tif (sposGlobalLine(comsgv[i0+n]->pos) != glno) break;","\t\t\tif (!(sposGlobalLine(comsgv[i0+n]->pos) == glno)) break;"),
 ("C06","aldor/aldor/src/tinfer.c","\tconditionAbLog = ablogTrue();\n\tfor (tmpSefo = condition;","\tconditionAbLog = ablogTrue();\n\ttmpSefo = condition;\n\tfor (;"),
 ("C09","aldor/aldor/src/fint.c","\tfintChainedStackFree(headStack[STACK_SIZE].ptr);\n\theadStack[STACK_SIZE].ptr = 0;   /* unchain added stacks */","\t{ DataObj chain = headStack[STACK_SIZE].ptr;\n\theadStack[STACK_SIZE].ptr = 0;   /* unchain added stacks */\n\tfintChainedStackFree(chain); }"),
 ("C03","aldor/aldor/src/fint.c","\tstate->lexEnv\t\t= lexEnv;\n\tstate->lev0\t\t= lev0;","\tstate->lev0\t\t= lev0;\n\tstate->lexEnv\t\t= lexEnv;"),
 ("C12","aldor/aldor/src/java/javacode.c","\tif (c2->prec == 0)\n\t\treturn false;\n\treturn c1->prec > c2->prec;","\treturn c2->prec != 0 && c1->prec > c2->prec;"),
 ("C19","aldor/aldor/src/util.c","(1.0 / d < 0.0) ? \"-0.0000000000000000\"","(1.0 / d < 0) ? \"-0.0000000000000000\""),
 ("C08","aldor/aldor/src/comsg.c","\t\tnRemarks\t= 0;\n\t\tnNotes\t\t= 0;","\t\tnNotes\t\t= 0;\n\t\tnRemarks\t= 0;"),
 ("C04","aldor/aldor/src/genc.c","\tcc0 = gccExpr(foam->foamBCall.argv[0]);\n\tcc1 = gccExpr(foam->foamBCall.argv[1]);\n\tcc = ccoNew(ctag, 2, cc0, cc1);\n\n\treturn ccoMod(cc, gccExpr(foam->foamBCall.argv[2]));","\tCCode cc2;\n\tcc0 = gccExpr(foam->foamBCall.argv[0]);\n\tcc1 = gccExpr(foam->foamBCall.argv[1]);\n\tcc = ccoNew(ctag, 2, cc0, cc1);\n\tcc2 = gccExpr(foam->foamBCall.argv[2]);\n\n\treturn ccoMod(cc, cc2);"),
]
for pid,f,old,new in CASES:
    p=REPO+"/"+f
    s=open(p).read()
    if s.count(old)!=1:
        print(pid,f,"ANCHOR x%d"%s.count(old)); continue
    open(p,"w").write(s.replace(old,new))
    try:
        r=subprocess.run(["/verif/check",pid,"--tier","quick","--no-evidence"],capture_output=True,text=True,cwd="/verif")
        lines=[l for l in r.stdout.splitlines() if l.startswith(("violation:","ANALYSIS-BROKEN"))]
        print(pid, f.split("/")[-1], "exit", r.returncode, (lines[0][:200] if lines else ""))
    finally:
        subprocess.run(["git","-C",REPO,"checkout","--","."])
