#!/usr/bin/env python3
"""Apply a seeded change to /repo, run every check (quick tier, no evidence
written), report which checks fire, and undo the change again.

usage: run_seeded.py seeded/<id> | path/to/patch.diff  [property ...]
"""
import json
import os
import subprocess
import sys

HERE = os.path.dirname(os.path.dirname(os.path.abspath(__file__)))
REPO = "/repo"


def main():
    d = sys.argv[1]
    props = sys.argv[2:]
    if d.endswith(".diff"):
        patch = d if os.path.isabs(d) else os.path.join(HERE, d)     # a bare patch file (benign refactorings)
    else:
        patch = os.path.join(HERE, d, "patch.diff") if not os.path.isabs(d) else os.path.join(d, "patch.diff")
    m = json.load(open(os.path.join(HERE, "MANIFEST.json")))
    if not props:
        props = [c["property_id"] for c in m["checks"]]
    st = subprocess.run(["git", "-C", REPO, "status", "--porcelain", "--untracked-files=no"], capture_output=True, text=True)
    if st.stdout.strip():
        print("refusing: /repo has uncommitted changes to tracked files")
        return 2
    subprocess.check_call(["git", "-C", REPO, "apply", patch])
    fired = {}
    try:
        for pid in props:
            p = subprocess.run([os.path.join(HERE, "check"), pid, "--tier", "quick", "--no-evidence"], capture_output=True, text=True, cwd=HERE)
            lines = [l for l in p.stdout.splitlines() if l.startswith(("violation:", "ANALYSIS-BROKEN"))]
            if p.returncode != 0:
                fired[pid] = (p.returncode, lines[:6])
    finally:
        subprocess.check_call(["git", "-C", REPO, "checkout", "--", "."])
    for pid, (rc, lines) in sorted(fired.items()):
        print("%s exit %d" % (pid, rc))
        for l in lines:
            print("   ", l[:300])
    if not fired:
        print("no check fired")
    return 0


if __name__ == "__main__":
    sys.exit(main())
