#!/bin/bash
# usage: validate_seed.sh <seed-dir> <name>
seed=$1; n=$2; wt=/tmp/wt-$n
git -C /repo worktree add --detach $wt HEAD >/dev/null 2>&1
rsync -a --exclude=.git /tmp/wt-probe/ $wt/
cd $wt/aldor && sed -i "s#/tmp/wt-probe#$wt#g" config.status libtool && ./config.status >/dev/null 2>&1
git -C $wt apply $seed/patch.diff || { echo "$n: patch does not apply"; exit 1; }
make -j2 > /tmp/$n.build.log 2>&1; b=$?
make -j2 -k check > /tmp/$n.check.log 2>&1; c=$?
echo "$seed: build=$b check=$c PASS=$(grep -c '^PASS' /tmp/$n.check.log) FAIL=$(grep -cE '^(FAIL|ERROR|XPASS)' /tmp/$n.check.log) probe-refs=$(grep -c wt-probe /tmp/$n.check.log)"
grep -E '^(FAIL|ERROR)' /tmp/$n.check.log | head -5
cd /; git -C /repo worktree remove --force $wt
