#!/bin/bash
# usage: mkwt.sh name...   creates /tmp/wt-<name> as a built worktree whose Makefiles point at itself (sequential)
for n in "$@"; do
  git -C /repo worktree add --detach /tmp/wt-$n HEAD >/dev/null 2>&1
  rsync -a --exclude=.git /tmp/wt-probe/ /tmp/wt-$n/
  (cd /tmp/wt-$n/aldor && sed -i "s#/tmp/wt-probe#/tmp/wt-$n#g" config.status libtool && ./config.status >/dev/null 2>&1 && make -j12 >/tmp/wt-$n.build.log 2>&1; echo "$n: make exit $? probe-refs $(grep -c wt-probe aldor/src/Makefile) modified $(git -C /tmp/wt-$n status --short | grep -v '^??' | wc -l)")
done
