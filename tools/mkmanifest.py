#!/usr/bin/env python3
"""Regenerate /verif/MANIFEST.json from the table below (kept in one place so
that the manifest is always valid and `not_applicable` is always current)."""
import json
import os

HERE = os.path.dirname(os.path.dirname(os.path.abspath(__file__)))

NA = {
    "C01": "Quantifies over generated programs compared with an independent reference evaluator; no table, sibling or "
           "path-shape clause exists whose breakage the existing tests would not already expose. No sound static argument "
           "bounds overload resolution or FOAM generation.",
    "C14": "Compares parse trees of two renderings; its truth lives in the 2-D layout rules applied to run-time token "
           "positions. The single structural clause (comments/newlines dropped before parsing) fails the existing tests at once.",
}

# id -> dict(text, note, technique, design)
CLAIMED = {}


def claim(pid, text, note, technique, design):
    CLAIMED[pid] = dict(text=text, note=note, technique=technique, design=design)


claim("C20",
      "Thin, structural: decides only clauses visible in the shape of the container code, each a necessary condition of the model "
      "behaviour: bit-vector set operations are the word-wise C operator of their name over exactly the class's words (V1); hash-table "
      "look-up, store and removal compute hash, bucket index and bucket head by identical statements, and the entry count changes by "
      "exactly one on insert and on removal (V2); the heap's parent/child index macros are mutually inverse and the sift loops use "
      "them (V3); a B-tree node found by a search is not dereferenced after a restructuring call (V4, shared with C10); the And/Or "
      "duals of the condition logic are the same code (V5); the B-tree rotations move, with the key at an end of a node, the branch at "
      "the same end (n keys, n+1 branches: V6); the three merge loops over sorted literal vectors in dnf.c advance only the first "
      "index in their less-than branch (V7); the cancelling rewrite of dnfOrMerge is restricted to single-literal disjuncts (V8 - a "
      "known finding on the unchanged tree: the pinned unit test asserts the unsound result). It does not decide that any container behaves as its model over "
      "sequences of operations, nor the logical equivalence of normal forms: those are run-time quantities.",
      "Trusted: clang 14 front end; the macro bodies of priq.c are evaluated as integer arithmetic for i in 0..200.",
      "structural lints over the clang AST (custom LibTooling extractor + Python rules): expression-shape match, sibling token "
      "isomorphism, macro evaluation",
      "DESIGN.md section 3, C20")

claim("C11",
      "Thin, structural: exactness over operand values is NOT decided (digit-level addition, multiplication, division, "
      "normalisation and conversions are numerical and out of reach of a static argument here). Decided, as necessary conditions "
      "read off the code: (N1) the word add/multiply steps every multi-word operation is built from take the carry of each "
      "two-term sum; (N2) no int-width shift by a variable count inside 64-bit arithmetic in bigint.c/dword.c; (N3) the three "
      "negative-operand cases of bintPlus, bintMinus, bintTimes and bintDivide, executed by the checker over a sign algebra on the "
      "operands' magnitudes, yield the operation's definition (quotient toward zero, remainder with the dividend's sign), hand "
      "non-negative operands to the inner call, restore the caller's operands and guard the double negation of aliased operands; "
      "(N4) bintMod gives the result the sign the dividend had on entry.",
      "Trusted: clang 14 front end. Assumes (induction) that the inner call on non-negative operands returns its mathematical "
      "result, and the macro body of BINT_NEGATE.",
      "abstract execution of straight-line sign-case code over a finite sign algebra (custom LibTooling extractor + Python rule); "
      "statement-shape lints shared with C04 (carry idiom, shift width)",
      "DESIGN.md section 3, C11")

claim("C10",
      "Thin, structural: decides only the size-class table clause (monotone, aligned, shift/lookup encoding consistent, lookup "
      "arrays long and wide enough) from constant-evaluated initialisers in both build configurations. It does not decide "
      "anything about allocation histories; that part of C10 is out of reach of static analysis here.",
      "Trusted: clang 14 constant evaluation; the probe unit witness/store_probe.c. Assumes the LP64 target the tests run on.",
      "constant-evaluated table lint over the clang AST (custom LibTooling extractor + Python rule)",
      "DESIGN.md section 3, C10")

claim("C04",
      "Sibling agreement by static tree comparison: for each of the 263 builtins the constant folder, the interpreter, the C "
      "expression form, the C statement-macro form (both obtained from foam_c.h through a clang-parsed probe unit, runtime "
      "wrappers inlined) and a reference table are normalised to operator trees and must be equal; plus table order/"
      "exhaustiveness (B1), operand/result typing (B2) and use of every operand (B3). Strong for the Bool/Char/SInt/Ptr/"
      "conversion/constant builtins (reference = mathematical definition); BInt builtins are compared at the level of the "
      "bigint.c primitive reached; float builtins operator-for-operator, library calls by name. Decides the shape of the "
      "definitions, not bit-level results of libm/bigint.c.",
      "Trusted: clang 14 front end; the rewrite list in rules/trees.py and c04_builtins.py (each an identity of C on the "
      "operand class); frozen tables under rules/frozen/ (vocabulary, no-value builtins, fingerprint of the four genc.c "
      "functions that interpret ccBValInfoTable.special). Assumes Bool values are 0/1 and ISO C ctype/atof are one primitive.",
      "sibling cross-check of switch cases and tables over the clang AST, normalised expression-tree equality",
      "DESIGN.md section 3, C04 and appendix A")

claim("C12",
      "Table part only, by static tree comparison: row order/indexing of gjBValInfoTable (J1), the operator tree each row "
      "generates against the C04 reference or against the constant the interpreter/C runtime use (J2), existence and arity "
      "of every foamj.* method/constant named (J3), and that the Java generator's FOAM-tag dispatch keeps every case it had "
      "when confirmed (J4). Behaviour of generated classes and bodies of the Java runtime methods are not decided.",
      "Trusted: clang 14 front end; the Java declaration scanner (regex over method/field declarations of foamj/*.java); "
      "values of java.lang constants and meanings of java.math.BigInteger methods as documented (tables in c12_java.py).",
      "table lint + normalised expression-tree equality against the reference table; declaration scan of the Java runtime",
      "DESIGN.md section 3, C12")

claim("C18",
      "Typestate over the clang CFG of every function of every compiler unit: a stream opened for writing (mode strings "
      "read from the osIo*Mode definitions) reaches the checked close fileCloseOut on every path to the function's exit and "
      "is never closed by a bare fclose; the checked close tests ferror and fclose's result and calls the file error handler, "
      "which is installed and fatal; libWrite/libClose keep header-then-checked-close for libraries. This is the whole "
      "mechanism by which a failed write can reach the exit status, so the claim is strong for the outputs the property "
      "names; the C++ stub writer gencpp.c (raw fopen, not in the property's list) is reported as a note only.",
      "Trusted: clang 14 CFG; ISO C sticky stream error indicator; the frozen reading that fileMustOpen is the only "
      "open-or-die helper. Path search is path-insensitive except for null tests of the stream variable and the "
      "lib->rdOnly/wrMode mode tests.",
      "typestate / must-pass-through analysis on the clang CFG plus who-may-close rule",
      "DESIGN.md section 3, C18")

claim("C07",
      "Structural part only: (K1) whole-compiler rule that no bounded array is indexed by a plain-char value without a "
      "range proof; (K2) single-writer discipline and increment-before-message for the error counter; (K3) data dependence "
      "of the exit status on the error counter along the return chain, monotone per-invocation total, and a who-may-call "
      "rule for success exits; (K4) the status returned by main cannot wrap to 0. These are necessary conditions of 'no "
      "fault on any byte sequence' and 'status non-zero exactly when an error was printed'; termination, parser recovery "
      "and every other kind of memory fault are not decided.",
      "Trusted: clang 14 AST/CFG; the guard idioms recognised by K1 (||/&&/if conditions, assert and early-exit guards); "
      "frozen lists of allowed success exits and constant returns (rules/frozen/c07_*.json), one reason each.",
      "taint-style index-origin lint with structural range-proof, single-writer and return-value provenance rules over the "
      "clang AST/CFG",
      "DESIGN.md section 3, C07")

claim("C15",
      "Structural part: the packed position layout is self-consistent (constants evaluated by clang), every value packed "
      "into the column field is bounded before the shift so a long line cannot corrupt the line number, the two decoders of "
      "file and line use the same interval test and rows, and a #line directive's values reach the fields all positions of "
      "include.c are built from and the global line table. These are necessary for 'inserting k lines moves every reported "
      "line by exactly k' and for #line/#include naming the right file; which token a message is attached to is not decided.",
      "Trusted: clang 14 constant evaluation and AST; the clamp/mask/modulus idioms recognised as bounds.",
      "compile-time layout witnesses + bounded-field (sanitiser) rule + sibling comparison of the two table look-ups",
      "DESIGN.md section 3, C15")

claim("C06",
      "Error discipline and gating, structurally: (S1) every diagnostic of catalogue class error/fatal, at each of its ~250 "
      "call sites in the whole compiler (wrappers inferred through the call graph), is raised through an entry point that "
      "increments the error counter, except four frozen deliberate downgrades; (S2) on the CFG of the compile drivers no "
      "middle/back-end, link or run step is reachable except across an 'error count is zero' edge, the gating predicates "
      "test the count first, and scope binding / type inference are separated from earlier phases by an error test; (S3) "
      "partial outputs are cleaned up whenever the total is positive. This is the 'rejected means non-zero exit and no "
      "output' half of C06; completeness/soundness of the type checker itself is not decided.",
      "Trusted: clang 14 AST/CFG; message class = macro name ALDOR_<class>_ as generated from comsgdb.msg; the frozen list "
      "rules/frozen/c06_downgrades.json (one reason per site).",
      "error-discipline rule over resolved call sites (call-graph wrapper inference) + must-pass-through gate analysis on "
      "the clang CFG",
      "DESIGN.md section 3, C06")

claim("C13",
      "Thin: two path clauses on the CFG of the interactive drivers that are necessary for 'a rejected form leaves the "
      "session as if it had not been entered': the binder's undo is called on every error exit after scope binding in loop "
      "mode, and each loop iteration closes and re-opens the message system and re-arms the recovery jump. Equality of "
      "interactive and batch output is a run-time property and is not decided.",
      "Trusted: clang 14 CFG; path search is path-insensitive apart from the stated fintMode == FINT_LOOP assumption.",
      "must-pass-through path rules on the clang CFG",
      "DESIGN.md section 3, C13")

claim("C09",
      "Shape of the collector in both build configurations: registers flushed before marking, all three root classes "
      "requested and each marked on every path, mark strictly before sweep, mark/sweep entered only through the guarded "
      "driver. Each is a necessary condition of 'collection never changes what a program computes' (dropping any of them "
      "frees live objects on some schedule); that conservative marking is complete for every heap shape is not decided.",
      "Trusted: clang 14 CFG; the setjmp register-flush idiom; OSMEM_* bit values read from the case labels.",
      "must-pass-through rules on the clang CFG, constant evaluation of the root-class request, who-may-call",
      "DESIGN.md section 3, C09")

claim("C16",
      "Thin: the special-character mangling table is injective and uniquely decodable (so distinct printable identifiers "
      "get distinct C names before truncation/hashing), and the identifier-character tables are initialised and indexed "
      "within bounds. Collision freedom under identifier-length limits and hashing, and validity of the emitted C under "
      "every option combination, are not decided.",
      "Trusted: clang 14 constant evaluation of the table initialiser; the decodability argument in the rule text.",
      "table lint (injectivity / unique decodability) + index-origin range-proof rule",
      "DESIGN.md section 3, C16")

claim("C03",
      "The two execution routes implement the same instruction set: FOAM tag coverage of the interpreter's dispatch chain "
      "versus the C generator's (frozen justified difference), every builtin's C-table row names a declared runtime entry "
      "/ statement macro with the right arity, and the interpreter's foreign-call bridge has one row and one case per "
      "enumerator. A tag or foreign entry handled by one route only makes some program work on one route and abort on the "
      "other, so each clause is necessary for C03; per-builtin semantic agreement is C04's; equality of outputs on programs "
      "is not decided. Ten instances are recorded known findings (raw records, mainArgc/mainArgv, export tables).",
      "Trusted: clang 14 AST; clang -E -dM for macro arities; frozen/c03_tag_difference.json (one reason per tag).",
      "exhaustiveness / sibling-coverage comparison of switch dispatch chains and tables over the clang AST",
      "DESIGN.md section 3, C03")

claim("C02",
      "Partial: the optimiser's tables of belief about builtins and instructions. Peephole tables (builtin -> abstract op "
      "rows have the builtin's type and the meaning of its C04 reference tree; every algebra cell that can materialise is "
      "an identity of the commutative ring for integer types and IEEE-754-safe for float types), purity flags against an "
      "effect summary of the runtime implementation over the -DFOAM_RTS call graph, and the tag sets of the two side-effect/"
      "control-flow classifiers. A wrong cell/flag/tag makes some program's output depend on -Q, so each is a necessary "
      "condition of C02; that the passes themselves preserve meaning on every program is not decided. Thirty float cells "
      "of the deliberate fast-math table are recorded known findings (replayed).",
      "Trusted: clang 14 AST; the hand-derived valid-result sets RING and IEEE in c02_opt_tables.py (derivations in "
      "comments); the effect graph is cut at the allocator, assertion/bug reporting and program-ending routines, and I/O "
      "under a DEBUG flag is discounted; one frozen diagnostic print.",
      "table lint against a reference algebra + interprocedural effect summary (call-graph fixpoint) + switch tag-set check",
      "DESIGN.md section 3, C02")

claim("C17",
      "Read discipline: every read from a library or archive file is checked against the requested count (R1), the header "
      "validator's verdict is consumed (R2), the section buffer is exactly as large as what was read and every tag that was "
      "read from a file buffer is range-reduced or range-tested before it indexes a global table (R3). These make "
      "'truncation at any byte is refused with a diagnostic' hold for the header and section layer (replayed over every "
      "truncation length after the repair); corruption inside a complete section cannot be detected by a format without "
      "checksums and is not decided.",
      "Trusted: clang 14 AST; the three frozen foreign-archive-format exceptions; liveness of file.c helpers by reference "
      "closure.",
      "unchecked-result (error discipline) rule over resolved call sites + intra-procedural taint from file buffers to "
      "table indexes with sanitiser recognition",
      "DESIGN.md section 3, C17")

claim("C05",
      "Partial, codec symmetry: for the FOAM byte code (per format letter: encoder, two decoders, skipper), the float and "
      "integer buffer primitives, the library header, and the sefo/syme/tqual/list families of sefo.c, the writer and every "
      "reader/skipper perform mirror-image buffer operations (same widths, same length selectors, same case partition, "
      "inverse offsets, same flag-bit masks); wide SInt constants are reduced and range-asserted before being written; "
      "letter coverage of the structural walkers. A mismatch for one rarely used letter or tag corrupts everything stored "
      "after it, which no test that only loads the standard libraries sees. Equality of whole round-tripped programs, "
      "symbol renumbering and split/whole behaviour are not decided; the data-dependent tform codec is reported uncompared "
      "except for its flag bits.",
      "Trusted: clang 14 AST; primitive widths derived from buffer.c; the abstraction of case bodies to buffer events "
      "(rules/c05_codec.py); '!' marks forms that are never stored.",
      "sibling comparison of writer/reader/skipper switch cases abstracted to buffer-event sequences over the clang AST",
      "DESIGN.md section 3, C05")

claim("C19",
      "Thin: compile-time and run-time literal conversion reach the same primitive through the same cast chain (the C04 "
      "comparison restricted to the four literal-conversion builtins), floats printed into generated C / S-expressions use "
      "round-trip precision on the default path, and the portable float codec of object files pairs its converters and "
      "byte counts. Bit identity of the xfloat.c transforms and of dissemble/assemble over all 2^32 patterns is a run-time "
      "property and is not decided.",
      "Trusted: clang 14 constant evaluation of the precision argument; ISO C atof/strtod equivalence; 17 significant "
      "digits identify a binary64.",
      "sibling tree comparison (C04 rows) + constant-evaluated printf precision lint + codec pairing",
      "DESIGN.md section 3, C19")

claim("C08",
      "Partial: no address- or environment-derived value reaches an order or an output. (D1) every iteration over a hash "
      "table either uses a content-based hash - decided from the hash function's body: no pointer-to-integer conversion in "
      "it or its callees - or is a confirmed order-insensitive site; (D2) sort comparators never order by address; (D3) "
      "clock/random/pid/environment sources are called directly only from a frozen justified set. These are necessary for "
      "byte-identical outputs across runs, ASLR and collector modes (the Java back end violated D1 and produced two different "
      ".java files for one input; repaired). Byte equality itself and uninitialised-memory leakage are not decided.",
      "Trusted: clang 14 AST; frozen/c08_table_iterations.json and c08_ambient_callers.json (one reason per entry); "
      "function pointers are not followed in D3.",
      "who-may-call / who-may-iterate rules with hash-function classification over the whole-program call graph",
      "DESIGN.md section 3, C08")

PENDING_REASON = "check designed in DESIGN.md but not yet built in this tree; not claimed until it runs"



# rules added after the seeded rounds (DESIGN.md section 8)
ADDED = {
 "C02": "Also (Q4) purity guards of the peephole rewrites decided by three-valued partial evaluation of the guard with the op fixed; "
        "(Q5) the dead-variable usage state is monotone over the states its family can take. (Q6) available expressions: generation before kill; (Q7) the targets of a multiple assignment are walked with exactly foamArgc of the Values node (10 vector/count pairs in the optimizer). (Q8) variadic node constructors in the optimizer are given exactly the number of children they are told (rules/variadic.py). (Q9) no comparison predicate is applied to two identical operands in the optimizer (rules/selfcompare.py, with a generated positive control). (Q10) the copy recogniser and the copied-variable extractor of copy propagation look through the same number of casts; (Q11) every integer division in the constant folder whose divisor is an operand declines when that operand is zero.",
 "C03": "Also (T4) per builtin, interpreter case == C form computed from gc0Builtin's source (abstract walk of the generator for the fixed "
        "tag); (T5) no CCode fragment built by the generator is dropped; (T6) the state saved at a try block covers every interpreter "
        "register a normal return restores. (T7) the C printer parenthesises as the C grammar requires and separates a prefix operator from a prefix operand; (T8) in gccReturn no exit avoids the foamProgUsesFluids test and the fluid side carries gc0PopFluid (CFG). (T9) the same count agreement for ccoNew/foamNew in the C generator and printer; (T10) the C printer writes a non-printable byte of a string constant as a three-digit octal escape of the unsigned byte. (T11) the same variant/tag agreement for the single-tag handlers of gccExpr, gccCmd and gccRef. (T12) a foreign runtime entry that the interpreter emulates through a separate copy of the routine (fiStrHash: strHash / localStrHash) has isomorphic copies, local types included. (T13) every case of the interpreter's statement dispatch either reads from the tape or belongs to a node kind without operands.",
 "C04": "The C form is computed from the generator's source (rules/ccoeval.py), not read off by hand. Also (B5) the ring-algebra cells of "
        "the peephole table, forwarded from C02-Q1. (B6) every Bool-returning builtin yields a canonical 0/1 in all copies; (B7) no int-width shift by a variable count inside 64-bit arithmetic; (B8) the word add/multiply steps take the carry of every two-term sum.",
 "C05": "Also (W4 reduce) shape of foamSIntReduce (mask/width, one ShiftUp+Or per chunk, sign; other loop shapes are refused as analysis "
        "broken); (W7) the compact index form is decided on every index field of the node; (W8) the length that selects a node's format is "
        "the length the encoder writes. (W9) s-expression string escapes; (W10) arReadNumber accepts a header number ended by NUL or blank and nothing else (partial evaluation over the CFG). (W11) a unit id that is set (restored from a saved unit, or -Wname) is returned unchanged by emitGetFileIdName: the -Wprefix text is not applied to it.",
 "C06": "Also (S4) condition folds start from the neutral element of their operator; (S5) known-condition context push/pop pairing and "
        "then/else polarity. (S6) tfSatMap0 compares components with the inner mask; (S7) And/Or sibling handlers are isomorphic; (S8) a top-down handler whose node carries its own type assigns it only after comparing it with the context type (CFG must-pass-through; the Boolean family is read from ti_bup.c). (S9) no comparison predicate is applied to two identical operands in the type checker and symbol table. (S10) every type-inference / scope-binding / form-checking handler named after its node kind reads only that kind's variant of the AbSyn union (180 handlers).",
 "C07": "Also (K3) a success exit reachable while compiling is guarded by the error count; (K5) unbalanced or unterminated conditional "
        "directives are diagnosed for every IfState (guard coverage by partial evaluation); (K6) cdr(cdr(x)) only under a condition "
        "establishing cdr(x); (K7) in the form checker a variant member of an AbSyn node is read only where its tag is established. (K8) length-controlled copies into fixed arrays are clamped; (K9) radix-literal digits are compared with the radix; (K10) the macro-expansion cycle test and the push on the active stack use the same object, expansion only on the not-circular side, pushed implies popped. (K11) count agreement (and NULL termination) of every variadic node constructor call in the front end, FOAM generator and support units (about 2000 calls). (K12) a loop of the form checker that reports bad components is not left early without a report; (K13) the source line reader does not store a NUL byte in the line's C string. (K14) the same for the normaliser and macro expander handlers.",
 "C08": "Also (D4) integer counters that are only ever incremented and never reset (state carried across the files of one invocation) "
        "are either frozen with the reason they cannot reach an output, or a violation. (D5) every header field and index libPutHeader writes is assigned by libNewHeader. D1 also re-confirms, for iteration sites accepted because the table's keys are integers, that every tblSetElt on that table stores an integer-class key; (D6) the invocation-wide unit id is set only by the command-line parser.",
 "C09": "Also (G4) the cells holding the sweep's free-piece index lie inside their pages (= C10 T-carve). (G5) storage freed through a global reference is not left referenced; (G6) the marker's tail-iteration test is not a comparison with the byte-granular scan bound. (G7) the Linux osMemMap bounds its entry cursor by the table's capacity and guards the look-back at the previous entry.",
 "C10": "Also (T-section) the page request for a new mixed section dominates the capacity formula of sectQmCount; (T-carve) bookkeeping "
        "cells cut from a page by stoAllocInner number floor(bytes/size). (T-btree) a searched B-tree node is not used after a restructuring call; (T-sweep) mark bits of the quanta starting at S are cleared under a test of the tag loaded from sect->info[S]. (T-width) a value asserted below a constant and kept in an integer field fits the field's type.",
 "C12": "Also (J7) no JavaCode fragment built by the generator is dropped. (J5b) single-return runtime methods stay single-return; (J8) operator precedence/associativity table against the Java grammar; (J9) the gj0BCall handlers hand the operands to the Java constructors in order (symbolic evaluation of their list manipulation, rules/listeval.py). (J10) count agreement of the variadic constructors in the Java generator; (J11) character constants that Java's grammar forbids between quotes (backslash, quote, CR, LF) are written as escapes. (J12) each single-tag handler of the Java generator's dispatcher reads only its own tag's variant member of the FOAM node.",
 "C13": "Also (U3) every step that passes the syntax gate reaches the binder, whose entry applies the pending roll-back. (U4) line continuation inside string literals; (U5) the undo predicate selects uses whose node has no meaning.",
 "C15": "Also (P5) messages grouped under one source excerpt are grouped by a key that identifies a physical line. (P4) every #line renumbering reaches the line table on every path; (P6) in inclFile no path from the state switch reaches inclError without restoring the includer's state. (P7) the line-number packing shift is evaluated in 64 bits.",
 "C16": "Also (M4) every comparison of the unit's statement total with -Csmax has the strictness of gc0OverSMax. (M5) names declared without static are unit-qualified in split mode; (M6) gc0TypeRequiresDecl answers true for every FOAM type whose C type the default argument promotions change (types read through a probe unit). (M7) file names of additional split files are built from the output file's directory and type.",
 "C17": "Also (R4) libChkHeader constrains name and offset of every entry in [start, numSect) (interval cover of its loops); (R5) no "
        "file-derived header field steers a loop or an unguarded index before libChkHeader. (R6) arSeek treats only position == size as end.",
 "C18": "Also (O3) the checked close evaluated as straight-line code for 'error indicator set' and 'only fclose fails' reaches the "
        "handler; (O4) rewind/clearerr/freopen only on streams all of whose values are read-mode opens. (O5) with -Fc in force no C file (main, header, split parts) is removed by emitTheObject; (O6) a user-supplied output name is neither renamed nor pre-removed nor given to the generated aldormain unit (partial evaluation over the CFG).",
 "C19": "Also (L2) the zero shortcut of DFloatSprint keeps the sign; (L4) single/double-precision sibling functions of xfloat.c and "
        "foam_c.c are isomorphic under the family renaming (22 pairs). (L5) the float decomposition reads the sign with the mask the assembler writes, never by comparison with 0.0.",
}
for _pid, _t in ADDED.items():
    CLAIMED[_pid]["text"] += " " + _t
    CLAIMED[_pid]["technique"] += "; partial evaluation of guards, sibling isomorphism, CFG must-pass-through and who-may-call rules over the same extractor"

# rules added in round 7 (2026-10-04 evening)
ADDED7 = {
 "C02": "(Q12) every pass built on the iteration-limited dataflow engine drops the sets when the engine stopped at its limit (CFG, 7 callers); "
        "(Q13) the inliner never substitutes, at its use, an argument that reads updatable storage or is a call (inlUseParam evaluated per argument form by rules/tageval.py).",
 "C03": "(T14) every way of entering a chunk of the interpreter's value stack stores the old stack pointer in the chunk (CFG of stackChain).",
 "C04": "(B9) the value of bintSmall(b) is used only where b is proved immediate (all 9 uses in the compiler; rules/immed.py).",
 "C05": "(W12) the text form (.fm) writes every operand from the node, the only placeholder allowed being a Decl's symbol-meaning number; "
        "(W13) the reader of the portable float form recognises exactly the two reserved exponents the writer uses (NaN/infinity with the fraction kept, zero by equality); "
        "(W14) integers of the text form are converted with a proof of immediacy or in full.",
 "C06": "(S11) the assign-and-define / assign-and-reference diagnostics are decided per name, after the walk over the name's signatures, from the per-name accumulators.",
 "C07": "(K15) the format argument of all 2406 printf-style calls is program text (literal, catalogue message, or a local/global/table holding one; wrappers by fixpoint); "
        "(K16) the parser's stack limit, the only bound on the nesting depth handed to the recursive passes, is not above the confirmed value; "
        "K3's guarded success exit must read an error count that no function resets.",
 "C08": "D3 also covers the working directory, links, host and user (getcwd, realpath, readlink, gethostname, getuid, ...).",
 "C09": "(G8, written, armed once its report on the unchanged tree is triaged) a piece is not flagged free before a call that may collect unless it is linked.",
 "C10": "(T-stale) no local copy of allocator state that the sweep rebuilds (free-list heads, page map, heap bounds) is used across a call that may start a collection (call graph of store.c + CFG; 80 copies).",
 "C11": "(N6) in step D3 of iintDivide no path from a carry step into the partial remainder reaches the quotient-digit comparison without reading the carry; a D3 without carry steps is refused (exit 2).",
 "C12": "(J13) a big-integer constant is written as an integer literal (printed with %d) only when its bit length is at most 31.",
 "C13": "(U6) adding a meaning to a symbol-table entry is preceded on every path by the cache invalidation; the undo of a rejected step removes its meanings from every slot and the pending list with one predicate and resets every cached answer.",
 "C16": "(M8) the declaration text buffer of the C printer is used by its opener only while no callee can have closed it.",
 "C19": "(L6) = C05-W13: reserved exponents of the portable float form.",
 "C20": "(V9) a low-bits mask whose count is a remainder modulo the word size is never built for a zero remainder (tail of the last bit-vector word).",
}
for _pid, _t in ADDED7.items():
    CLAIMED[_pid]["text"] += " Round 7: " + _t

# rules added in round 8 (2026-10-04 night)
ADDED8 = {
 "C02": "(Q14) the folder-side reports of C04's evaluator comparison are repeated under C02 (constant folding is an optimisation setting).",
 "C03": "(T15) the three level walks of the interpreter (Lex read, Env, Lex reference) reach link number `lev`: case k follows k links, a default starting from m links counts from m.",
 "C04": "(B10) the hand-written rewrites of peepBCall are a frozen, justified set; a new one is refused until confirmed. The immediate-parity idiom (bintSmall(x) % 2 == 0 / != 0) is part of the tree vocabulary; `== 1` is reported.",
 "C05": "(W15) = C19-L7.",
 "C06": "(S12) the arity verdict after the parameter loop of tfSatAsMulti depends on a quantity the loop counts.",
 "C07": "(K17) the scanner's cursor variables are written only by expansions of scAdvance0 and by the line-start routines (112 writes).",
 "C08": "(D7) no function-static is set once from a value that depends on the function's arguments (one frozen, invocation-wide); (D8) no set-once flag in the per-file generators (three command-line latches frozen).",
 "C09": "(G9) stores into the per-kind tables are indexed by an unreduced kind; (G10) the run-time layout of raw records aligns every field offset before storing it.",
 "C10": "(T-quantum) every size handed to mxmemSplit is a multiple of the quantum by construction (ROUND_UP in the function or in every caller).",
 "C11": "(N7) the negative branch of bintLT/bintGT is the positive one with the operand comparisons exchanged, and bintGT is bintLT with the branches exchanged; a restructured comparison is refused.",
 "C13": "(U7) between the type-inference phases of two steps the file level's isChecked flag is cleared on every path (driver loop, or compFileFront before the phase, or after it on every exit).",
 "C15": "(P9) every increment of the file's line counter in include.c is matched by one of the serial line number; (P10) osFnameDirEqual skips a leading dot only when it is a whole path component.",
 "C16": "(M9) every `#line` written by the C printer follows a newline written by the same call or on every path before it.",
 "C17": "(R7) in lib.c the branch taken after a short read or a rejected header ends in a non-returning call or a return.",
 "C18": "(O7) no call receives two results of the same static-storage function (rules/staticbuf.py, functions found by their static locals, wrappers by fixpoint); (O8) a failed osFileRename reaches the file-error handler.",
 "C19": "(L7) every %g/%e conversion of the artefact writers prints 17 digits for a double-typed and 9 for a single-typed value.",
}
for _pid, _t in ADDED8.items():
    CLAIMED[_pid]["text"] += " Round 8: " + _t

ADDED9 = {
 "C02": "(Q15) peepPositive negates a machine integer only when it has a positive counterpart; (Q16) a low-bits mask built from a remainder (~(~0 << (n % W))) is reached only where the remainder has been tested against zero (rules/lowmask.py).",
 "C04": "(B11) the folder narrows the result of a conversion builtin to the class of its FOAM result (CharNum to a character).",
 "C05": "(W16) foam.c never stores or returns an S-expression's own object (sxiToThe...: no copy): the tree read from a .fm keeps copies.",
 "C06": "(S13) the sixteen type-error reporters of terror.c confirmed on today's tree send their message on every path (a message or a call of another of them).",
 "C07": "(K18) inclGetLine terminates a last line cut short by the end of the file; (K19) every path through yyerrorfn passes a message and an increment of yyerrcount.",
 "C08": "(D2) qsort call sites are sort sites too: the comparator closure must not order by address.",
 "C09": "(G11) = C20-V11 on btree.c, the store's index of free pieces.",
 "C10": "(T-roots) every scan of foreign pages in stoGcMark hands [page, page + PgSize) of each foreign page to stoGcMarkRange, index stepped by one; another shape is refused.",
 "C11": "(N7) bintLT/bintGT evaluated over the finite domain of orderings (two signs, order of the lengths, order of the first differing digit: 36 abstract inputs each, rules/ordereval.py) against the order of the integers described; (N8) a chained carry step (kout == kin) inside a digit loop lies under blocks only and no earlier statement of the round can leave the round.",
 "C12": "(J14) nothing in foamj wraps System.out in another stream, and FoamContext.startFoam flushes System.out in a finally around the program's run.",
 "C13": "(U8) every container-typed field of struct stabLevel is filtered by scoUndoStabLevel (also through helpers) or listed with its reason; the two views of tformsUsed use one predicate.",
 "C15": "(P11) every path of sposNew to the creation of the position compares the file names or starts a new run of the line table.",
 "C16": "(M10) no printf-style format of genc.c prints a string under a precision.",
 "C17": "(R8) in the reader units the result of strchr/strrchr/strstr/strpbrk/memchr is not dereferenced directly, and a local holding it is tested before it is dereferenced (rules/nullsearch.py).",
 "C18": "(O6) now reads static predicates of the unit; (O9) the eight single-file writers of emit.c pass fileCloseOut on every path.",
 "C20": "(V10) no function of table.c, btree.c, priq.c, bitv.c, intset.c, dnf.c keeps unit-level state; an answer remembered by operand address is a violation, any other unit-level write is refused; (V11) in btree.c the branch run moved with a key run reaches one source index further.",
}
for _pid, _t in ADDED9.items():
    CLAIMED[_pid]["text"] += " Round 9: " + _t

ADDED10 = {
 "C03": "(T16) fiHalt reaches its exit only through exit(); every backtrace of the interpreter outside bug paths goes to stderr. (T10) hex escapes are read (and reported: no length limit).",
 "C04": "(B12) cast rows of ccBValInfoTable name a run-time type (Fi...), not a bare C type.",
 "C05": "(W17) every local passed to bintFree in foam.c holds a value made by a copying or creating call; (W18) the float writer of the text form puts a digit after a trailing point before the exponent marker.",
 "C06": "(S14) a message buffer made with bufNew has been written (or looked at) on every path to the message call that uses it; (S15) the list-implication helpers of ablogic.c are handed the caller's whole list parameter.",
 "C07": "(K20) no self-recursive function of the compiler keeps an automatic array of more than 512 elements; (K8) an exact-size memcpy fits.",
 "C08": "(D3) osDirSwap counts as a way to read the working directory (three legitimate callers frozen); (D9) #line texts written by emit.c name the source file.",
 "C11": "(N9) no word computed by a plain assignment is overwritten before it is read, in dword.c, bigint.c, foam_i.c (rules/deadstore.py); (N10) loops bounding a power of the text radix by BINT_RADIX use <, or <= with a constant radix that is not a power of two.",
 "C12": "(J15) gj0ArrChar emits <literal>.toCharArray(); a helper that looks the array up in a table is a violation.",
 "C13": "(U9) every store into an intStepNo field (and symeSetIntStepNo) stores the current step or the constant 0.",
 "C15": "(P12) the condition under which sposNew starts a new run looks at the local line and the run's flno; (P13) after a restore of the reader's state no call is given both line counters before the serial counter has been stepped.",
 "C16": "(M11) the string handed to fiImportGlobal/fiExportGlobal is not the .symbol of an identifier cut by -Cidlen (two known findings); (M12) every value reaching the base-36 digit loop of gc0IdHashInBuf is computed in the call from strHash of its parameter.",
 "C18": "(O10) no setvbuf/setbuf in the compiler supplies storage.",
 "C19": "(L8) every mem*/strn* call with a constant length on a byte array of constant size, in the units that read and write float constants, uses the array's size.",
 "C20": "(V9) shares rules/lowmask.py with C02-Q16; (V13) no difference of floating or 64-bit key operands is converted to a 32-bit integer; (V14) no stepped pointer is handed to a freeing call.",
}
for _pid, _t in ADDED10.items():
    CLAIMED[_pid]["text"] += " Round 10: " + _t

ADDED11 = {
 "C05": "(W19) every function drawing from the hash-twist generator re-seeds it first on every path; (W20) for every n-ary tag with an integer field the branch of foamTagFormat it takes reads the fields' data and yields no immediate format.",
 "C06": "(S16) stabGetDomainExportMod walks the level's own bindings and consults no table entry.",
 "C09": "(G12) every mark-clearing loop of stoGcSweepMixed runs from S to S + L with S and L derived from the same piece.",
 "C10": "(T-slide) = C20-V16 and (T-branch-run) = C20-V11 on the free-piece index.",
 "C12": "(J16) the double-word methods of foamj.Math mask every widened word and use unsigned quotient and shifts.",
 "C13": "(U10) no read of scoUndoState is reachable from a call that clears it without a new assignment in between.",
 "C16": "(M13) gcvNStmts, the total gc0OverSMax() compares with -Csmax, is written only by gc0ExternDecls and (frozen, dormant) gc0SeqStmt.",
 "C17": "(R9) the name/offset/length fields of the section table are written only by libNewHeader, libGetHeader, libAddSection, libPutSection.",
 "C19": "(L9) fiInitialiseFpu and what it calls contain no inline assembly and no call of a floating-point environment setter.",
 "C20": "(V15) an atom is stored into a conjunction only by the four order-preserving routines or at index 0 of a one-literal conjunction; (V16) no store into N->part[..].F precedes, in its block, a loop sliding N->part[..].F within node N.",
}
for _pid, _t in ADDED11.items():
    CLAIMED[_pid]["text"] += " Round 11: " + _t

ADDED12 = {
 "C02": "(Q17) either retRearrangeSet redirects writes of a retyped parameter like retRearrangeVar redirects reads, or the selection of parameters in rtcRearrangeProg stays switched off (its symeIndex test compares with -1).",
 "C03": "(T17) every function outside bigint.c that uses the place vector bintToPlacevS returns (beyond releasing it) also consults the sign.",
 "C04": "(B13) the FOAM_BInt case of the interpreter's evaluator produces the constant with bintFrPlacevS and nothing else.",
 "C08": "(D10) includeFile assigns the per-file assert list the result of a copying call of the invocation's list.",
 "C11": "(N11) INT_MIN_IMMED + INT_MAX_IMMED == 0 as the front end evaluates them (immediates are negated without a range check).",
 "C15": "(P14) the TAB branch of scAdvance0, evaluated for every column 0..63, moves the column forward to the cell before a tab stop.",
 "C17": "(R10) the result of every strtol in archive.c is tested against zero before it is accepted.",
}
for _pid, _t in ADDED12.items():
    CLAIMED[_pid]["text"] += " Round 12: " + _t

ADDED13 = {
 "C06": "(S17) ALDOR_E_TinReturnNoVal is raised under `no value given` and `far type not None`; no other predicate takes part.",
 "C11": "(N12) every low-bits mask of bigint.c with a variable count is built where the count is bounded below the operand's width (enclosing test or earlier clamp).",
 "C13": "(U11) every tfNew* result in tformFrBuffer has its step stamp set to 0 in the same block; (U12) every getchar() result in fint.c goes into an int compared with EOF and every loop whose condition reads stdin tests EOF.",
 "C16": "(M14) every formatted escape of ccoPrToken is a three-digit octal escape, in both C dialects.",
 "C17": "(R11) the candidate tests of fileRdFind call, directly or through helpers of path.c, only predicates that do not look at size or content.",
 "C20": "(V17) inside a counted loop of table.c a bucket array is indexed only up to its own table's bucket count (T->buckc, or the count T was made with); (V18) a branch of a parameter node is read only under a not-a-leaf test or the parameter requires an inner node, every call supplies one, and no non-static function requires one; (V19) no query operation of table.c stores into a chain link or bucket head (tblElt does: known finding).",
}
for _pid, _t in ADDED13.items():
    CLAIMED[_pid]["text"] += " Round 13: " + _t

def main():
    checks = []
    for pid in sorted(CLAIMED):
        c = CLAIMED[pid]
        checks.append({
            "property_id": pid,
            "quick_cmd": "./check %s --tier quick" % pid,
            "thorough_cmd": "./check %s --tier thorough" % pid,
            "evidence_file": "evidence/%s.json" % pid,
            "replay_cmd_template": "./check %s --tier quick --replay {path}" % pid,
            "engine": "aldorfacts+rules",
            "level_claimed": {"category": "other", "text": c["text"], "design_ref": c["design"]},
            "level_note": c["note"],
            "technique": c["technique"],
        })
    na = []
    for i in range(1, 21):
        pid = "C%02d" % i
        if pid in CLAIMED:
            continue
        na.append({"property_id": pid, "reason": NA.get(pid, PENDING_REASON)})
    m = {
        "version": 1,
        "setup_cmd": "./setup.sh",
        "hooks": {
            "guard": "ALDOR_VERIF",
            "enable": "none needed: static analysis reads /repo's working tree as it is; no guarded source was added",
            "baseline_off_cmd": "cd /repo/aldor && make check",
            "source_commits": [],
            "add_only": True,
        },
        "engines": [{
            "name": "aldorfacts+rules",
            "path": "tools/aldorfacts.cc, rules/*.py, check",
            "serves_properties": sorted(CLAIMED),
            "kind_free_text": "custom static analysis: a clang-14 LibTooling fact extractor (type-checked AST, constant "
                              "evaluation, CFG) re-run on /repo's working tree at every check, plus repository-specific "
                              "rules in Python; compile-time probe/witness units evaluated by clang -fsyntax-only",
        }],
        "checks": checks,
        "not_applicable": na,
        "notes": "Exit codes: 0 held / 1 VIOLATION / 2 analysis broken (anchor vanished, unknown idiom, instance floor not "
                 "met). Known findings: known_findings.txt. Every check re-extracts facts from /repo; nothing is cached.",
    }
    with open(os.path.join(HERE, "MANIFEST.json"), "w") as f:
        json.dump(m, f, indent=1)
        f.write("\n")


if __name__ == "__main__":
    main()
