#!/bin/sh
# Build the fact extractor from files on disk (offline, ~15 s).
set -e
cd "$(dirname "$0")"
mkdir -p .build out evidence
clang++ $(llvm-config-14 --cxxflags) -fno-rtti -O1 tools/aldorfacts.cc -o .build/aldorfacts.tmp \
    /usr/lib/llvm-14/lib/libclang-cpp.so.14 /usr/lib/llvm-14/lib/libLLVM-14.so
mv .build/aldorfacts.tmp .build/aldorfacts
echo "aldorfacts built"
