/* Probe unit for C17-R3: constants of the FOAM byte-code tag encoding, evaluated by clang from foam.c. */
#include "foam.c"

enum verif_foam_probe {
	VP_FOAM_START = FOAM_START,
	VP_FOAM_LIMIT = FOAM_LIMIT,
	VP_FFO_ORIGIN = FFO_ORIGIN,
	VP_FFO_SPAN   = FFO_SPAN,
	VP_TABLE_LEN  = sizeof(foamInfoTable)/sizeof(foamInfoTable[0])
};
