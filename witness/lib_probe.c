/* Probe unit for C05-W2: size of the library header as lib.c defines it. */
#include "lib.c"

enum verif_lib_probe {
	VP_libHdrSize = libHdrSize
};
