/* Probe unit for C15-P1: constants of the packed source position, evaluated by
 * clang against the current srcpos.c.  Nothing is executed. */
#include "srcpos.c"

enum verif_srcpos_probe {
	VP_WORD_BITS   = bitsizeof(ULong),
	VP_SRCPOS_BITS = bitsizeof(SrcPos),
	VP_STK_NBITS   = SPOS_STK_NBITS,
	VP_MAC_NBITS   = SPOS_MAC_NBITS,
	VP_CNO_NBITS   = SPOS_CNO_NBITS,
	VP_LNO_NBITS   = SPOS_LNO_NBITS,
	VP_MAC_SHIFT   = SPOS_MAC_SHIFT,
	VP_CNO_SHIFT   = SPOS_CNO_SHIFT,
	VP_LNO_SHIFT   = SPOS_LNO_SHIFT
};
/* masks can exceed the range of int: expose them as unsigned long constants */
static const unsigned long verif_MAC_MASK = SPOS_MAC_MASK;
static const unsigned long verif_CNO_MASK = SPOS_CNO_MASK;
static const unsigned long verif_LNO_MASK = SPOS_LNO_MASK;
static const unsigned long verif_STK_MASK = SPOS_STK_MASK;
static const unsigned long verif_END_LINE = END_LINE_NO;
static const unsigned long verif_CNO_MAX  = SPOS_CNO_MAX;
