/* Probe unit for C10: evaluated by clang against the current store.c.
 * Only constant expressions; nothing is executed. */
#include "store.c"

enum verif_store_probe {
	VP_sizeofPointer    = sizeof(Pointer),
	VP_alignofMost      = alignof(MostAlignedType),
	VP_PgSize           = PgSize,
	VP_FixedSizeMax     = FixedSizeMax,
	VP_FixedSizeCount   = FixedSizeCount,
	VP_MixedSizeQuantum = MixedSizeQuantum,
	VP_fixedSizeLogLen  = sizeof(fixedSizeLog)/sizeof(fixedSizeLog[0]),
	VP_fixedSizeForLen  = sizeof(fixedSizeFor)/sizeof(fixedSizeFor[0]),
	VP_fixedSizeIndexForLen = sizeof(fixedSizeIndexFor)/sizeof(fixedSizeIndexFor[0]),
	VP_fixedSizeForEltMax = (1L << (8*sizeof(fixedSizeFor[0]))) - 1,
	VP_fixedSizeIndexForEltMax = (1L << (8*sizeof(fixedSizeIndexFor[0]))) - 1,
	VP_stoDivTableRows  = sizeof(stoDivTable)/sizeof(stoDivTable[0]),
	VP_stoDivTableCols  = sizeof(stoDivTable[0])/sizeof(stoDivTable[0][0]),
	VP_stoDivTableEltMax = (1L << (8*sizeof(stoDivTable[0][0]) - 1)) - 1
};
