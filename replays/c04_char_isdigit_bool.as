#include "foamlib"
import from Machine;
import { CharIsDigit: Char -> Bool; CharIsLetter: Char -> Bool; CharNum: SInt -> Char; BoolEQ: (Bool, Bool) -> Bool; BoolTrue: () -> Bool } from Builtin;
import from SingleInteger, Boolean;
s(x: SingleInteger): SInt == x pretend SInt;
f(n: SInt): Bool == BoolEQ(CharIsDigit(CharNum n), BoolTrue());
g(n: SInt): Bool == BoolEQ(CharIsLetter(CharNum n), BoolTrue());
print << (f(s 53) pretend Boolean) << " " << (g(s 97) pretend Boolean) << newline;
