#include "foamlib"
import from SingleInteger;
Foo: Category == with { foo: % -> % };
f(n: SingleInteger): SingleInteger == { n > 0 => return (SingleInteger has Foo); n }
print << f(1) << newline;
