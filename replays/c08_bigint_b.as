#include "aldor"
#include "aldorio"
import from Integer;
x: Integer := 987654321098745678901234567890;
stdout << x + 1 << newline;
