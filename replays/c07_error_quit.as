#error hello
#quit
