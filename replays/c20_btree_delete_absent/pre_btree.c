/* UNCHANGED btree.c: btreeDelete of a key that is not in the tree follows
 * part[i].branch of a LEAF (uninitialised) instead of returning. */
#include "axlgen.h"
#include "btree.h"
#include "opsys.h"
#include "debug.h"
#include <stdio.h>
int main(void) {
	BTree t; BTreeElt e = 0; osInit(); dbInit();
	t = btreeNew(2);
	btreeInsert(&t, 10, (BTreeElt) 1);
	btreeInsert(&t, 20, (BTreeElt) 2);
	printf("deleting absent key 15\n"); fflush(stdout);
	btreeDelete(&t, 15, &e);
	printf("returned, check=%d\n", btreeCheck(t));
	return 0;
}
