#include "axlgen.h"
#include "btree.h"
#include "opsys.h"
#include "debug.h"
#include <stdio.h>
int main(void) {
	BTree t, n; BTreeElt e; int i, ix, bad = 0; osInit(); dbInit();
	t = btreeNew(2);
	for (i = 1; i <= 200; i++) btreeInsert(&t, (BTreeKey)(2*((i*37)%211)), (BTreeElt)(long) i);
	for (i = 1; i <= 211; i += 3) { e = 0; btreeDelete(&t, (BTreeKey)(2*i+1), &e); if (e) bad++; }  /* odd keys: absent */
	for (i = 1; i <= 200; i++) { n = btreeSearchEQ(t, (BTreeKey)(2*((i*37)%211)), &ix); if (!n) bad++; }
	for (i = 1; i <= 200; i += 2) { e = 0; btreeDelete(&t, (BTreeKey)(2*((i*37)%211)), &e); if ((long) e != i) bad++; }
	for (i = 1; i <= 200; i++) { n = btreeSearchEQ(t, (BTreeKey)(2*((i*37)%211)), &ix); if ((n != 0) != (i % 2 == 0)) bad++; }
	printf("bad=%d check=%d\n", bad, btreeCheck(t));
	return bad != 0;
}
