#include "foamlib"
import from Machine;
import from Boolean;
import { SIntNot: SInt -> SInt; BoolTrue: () -> Bool; BoolFalse: () -> Bool; SIntMin: () -> SInt; BIntLength: BInt -> SInt; DFlo1: () -> DFlo; DFloEpsilon: () -> DFlo; DFloMin: () -> DFlo;} from Builtin;
P(b: Bool): () == print << (b pretend Boolean) << newline;
PI(n: SInt): () == print << (n::SingleInteger) << newline;
main(a: SInt, b: BInt): () == {
	PI SIntNot(a);
	P BoolTrue();
	P BoolFalse();
	P (SIntMin() < a);
	PI BIntLength(b);
	P (DFlo1() < DFlo1() + DFlo1());
	P (DFlo1() < DFlo1() + DFloEpsilon());
	P ((0@DFlo) < DFloMin());
}
import from SingleInteger;
main(5::SInt, convert(5::SInt)@BInt);
