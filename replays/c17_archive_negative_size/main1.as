#include "foamlib"
#library LIB1 "lib1.ao"
import from LIB1;
import from Foo, SingleInteger;
print << foo 4 << newline;
print << bar() << newline;
