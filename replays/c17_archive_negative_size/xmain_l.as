#include "foamlib"
import from MyLib;
import from SingleInteger, Foo;
print << val(foo 4) << newline;
if Foo has Markable then print << "Foo is Markable" << newline;
else print << "Foo is not Markable" << newline;
