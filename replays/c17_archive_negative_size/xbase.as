#include "foamlib"
Markable: Category == with { mark: % -> SingleInteger };
Foo: with { foo: SingleInteger -> %; val: % -> SingleInteger } == add {
	Rep ==> SingleInteger;
	import from Rep;
	foo(n: SingleInteger): % == per(n * 3 + 1);
	val(x: %): SingleInteger == rep x;
}
