#!/bin/sh
# Reproduces, on an UNCHANGED tree (default /tmp/wt-probe), the behaviours
# listed in ../NOTES.md under "Observed on the unchanged tree".
# Everything is built in a temporary directory; nothing is written to the tree.
TREE=${ALDOR_TREE:-/tmp/wt-probe}
HERE=$(cd "$(dirname "$0")" && pwd)
S=$TREE/aldor/aldor/src
L=$TREE/aldor/aldor/lib
C17_PRE_TMP=$(mktemp -d /tmp/c17-pre-XXXXXXXX) || exit 2
case "$C17_PRE_TMP" in /tmp/c17-pre-????????) ;; *) exit 2 ;; esac
trap 'case "$C17_PRE_TMP" in /tmp/c17-pre-????????) rm -rf "$C17_PRE_TMP" ;; esac' EXIT
aldor() {
	timeout 20 "$S/aldor" -Nfile="$S/aldor.conf" -I"$TREE/aldor/lib/aldor/include" \
		-Y"$TREE/aldor/lib/aldor/src" -Y"$L/libfoam/al" \
		-Y"$L/libfoamlib/al" -I"$L/libfoamlib/al" "$@"
}
cd "$C17_PRE_TMP" || exit 2
cp "$HERE"/*.as . || exit 2
aldor -Fao xbase.as && aldor -Fao xext.as && aldor -Fao lib1.as && aldor -Fao lib2.as || exit 2
ar rc libx.al xbase.ao xext.ao
ar rc libmy.al lib1.ao lib2.ao
python3 -c "open('note.txt','w').write('x'*159+'\n')"
ar rc libnote.al note.txt lib1.ao lib2.ao
H2=$(python3 -c "print(open('libx.al','rb').read().index(b'xext.ao/'))")
SZ=$(wc -c < libx.al)
echo "libx.al: $SZ bytes, header of the second member (xext.ao) at offset $H2"

run() {	# run <label> <dir> <aldor args...>
	label=$1; d=$2; shift 2
	out=$( cd "$d" && aldor "$@" 2>&1 ); rc=$?
	echo "--- $label: exit status $rc"; echo "$out" | head -6 | sed 's/^/    /'
}
mk() { rm -rf "$1"; mkdir "$1"; cp xmain.as xmain_l.as main1.as main2.as "$1/"; }

mk intact; cp libx.al intact/
run "O0 intact libx.al (reference: 'Foo is Markable')" intact -Ginterp xmain.as

mk o1; head -c $((H2 + 60)) libx.al > o1/libx.al
run "O1 libx.al cut exactly at the end of the last member header" o1 -Ginterp xmain.as

mk o2; python3 - "$H2" <<'PY'
import sys
d=bytearray(open('libx.al','rb').read()); d[int(sys.argv[1])+5]=ord('x'); open('o2/libx.al','wb').write(d)
PY
run "O2 one byte of the member name changed (xext.ao -> xext.xo)" o2 -Ginterp xmain.as

mk o3; head -c $((H2 + 58)) libx.al > o3/libx.al
run "O3 libx.al cut 58 bytes into the last header, archive given with -l" o3 -Y. -lMyLib=x -Ginterp xmain_l.as
run "O3' same file through #library (for comparison)" o3 -Ginterp xmain.as

mk o4; python3 - <<'PY'
d=bytearray(open('libnote.al','rb').read()); i=d.index(b'160 '); d[i]=ord('-'); open('o4/libmy.al','wb').write(d)
PY
run "O4 size field '160' -> '-60' in libmy.al (20 s timeout => status 124 = hang)" o4 -Ginterp main2.as

mk o5; cp lib1.ao o5/; python3 - <<'PY'
d=bytearray(open('lib1.ao','rb').read()); d[143]=0; open('o5/lib1.ao','wb').write(d)
PY
run "O5 lib1.ao byte 143 (low byte of the last section's length) 9 -> 0" o5 -Ginterp main1.as

mk o6; python3 - <<'PY'
d=bytearray(open('lib1.ao','rb').read()); d[12]=4; open('o6/lib1.ao','wb').write(d)
PY
run "O6 lib1.ao byte 12 (name of the first section) 5 -> 4" o6 -Ginterp main1.as

mk o7; python3 - <<'PY'
d=bytearray(open('libmy.al','rb').read()); assert d[11]==ord('1'); d[11]=ord('2'); open('o7/libmy.al','wb').write(d)
PY
cp lib1.ao o7/
run "O7 libmy.al byte 11: member name lib1.ao -> lib2.ao (two members of one name), loose lib1.ao next to it" o7 -Ginterp main2.as

mk o8; python3 - <<'PY'
d=bytearray(open('lib1.ao','rb').read()); d[138]=ord('\x0e'); open('o8/lib1.ao','wb').write(d)
PY
run "O8 lib1.ao byte 138 (name of the last section) 15 -> 14: 'Compiler bug' + abort" o8 -Ginterp main1.as

cp lib1.as verylongmembername1.as; cp lib2.as verylongmembername2.as
aldor -Fao verylongmembername1.as && aldor -Fao verylongmembername2.as || exit 2
ar rc liblong.al verylongmembername1.ao verylongmembername2.ao
mk o9; head -c 68 liblong.al > o9/libmy.al
run "O9 long-name archive cut right after the header of its name-table member (68 bytes), with -M no-emax" o9 -M no-emax -Ginterp main2.as
( cd o9 && aldor -M no-emax -Ginterp main2.as 2>&1 | tail -2 | sed 's/^/    (tail) /' )
exit 0
