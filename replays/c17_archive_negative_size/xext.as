#include "foamlib"
#library XBASE "xbase.ao"
import from XBASE;
extend Foo: Markable == add {
	import from SingleInteger;
	mark(x: %): SingleInteger == val x + 1000;
}
