#include "foamlib"
Foo: with { foo: SingleInteger -> SingleInteger; bar: () -> String } == add {
	foo(n: SingleInteger): SingleInteger == n * 3 + 1;
	bar(): String == "hello from bar";
}
