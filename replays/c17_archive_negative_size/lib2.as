#include "foamlib"
Baz: with { baz: SingleInteger -> SingleInteger } == add {
	baz(n: SingleInteger): SingleInteger == n - 7;
}
