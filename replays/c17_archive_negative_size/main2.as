#include "foamlib"
#library MYLIB "libmy.al"
import from MYLIB;
import from Foo, Baz, SingleInteger;
print << foo 4 << newline;
print << baz 4 << newline;
print << bar() << newline;
