#include "foamlib"
import from SingleInteger;
print << "start" << newline;
z: SingleInteger := 0;
print << (7 rem 0) << newline;
print << "end" << newline;
