#include "foamlib"
import from SingleInteger;
x: SingleInteger := 1;
f(): SingleInteger == { free x; x == 2; x }
