#!/bin/bash
# Unchanged tree: with a stale cross.o in the output directory, -Fc -Fx -Zdb -Clines
# writes the C file under a temporary name derived from the process id, and that
# name ends up in the kept cross.c as  #line 1 "cr<pid>00.as"  -> differs from run to run.
TREE=${ALDOR_TREE:-/tmp/wt-probe}
HERE=$(cd "$(dirname "$0")" && pwd)
S=$TREE/aldor/aldor/src; L=$TREE/aldor/aldor/lib
T=$(mktemp -d /tmp/c08pre.XXXXXX); trap 'rm -rf "$T"' EXIT
for i in 1 2; do
  mkdir $T/r$i; touch $T/r$i/cross.o
  (cd $T/r$i && $S/aldor -Nfile=$S/aldor.conf -Y$L/libfoamlib/al -I$L/libfoamlib/al -lAxlLib=foamlib \
     -Y$L/libfoam -Y$L/libfoamlib -Ccc=$TREE/aldor/aldor/subcmd/unitools/unicl \
     -Cargs="-Wconfig=$S/aldor.conf -I$S" -Fc -Fx -Zdb -Clines $HERE/cross.as >/dev/null 2>&1)
  grep -n '^#line 1 ' $T/r$i/cross.c
done
cmp -s $T/r1/cross.c $T/r2/cross.c && { echo identical; exit 0; }
echo "cross.c differs between two runs of the same command"; exit 1
