#include "foamlib"
#pile

Foo: with
    new: String -> %
    foo: % -> String
    bar: % -> String
== add
    Rep == Cross(String, String)
    new(n: String): % == (n, n)@Rep pretend %
    foo(c: %): String ==
        (a, b) := rep c
	a

    bar(c: %): String == bar(rep c)

    bar(c: Rep): String ==
        (a, b) := c
	a

test(): () ==
    import from Foo, String
    print << foo(new("xx")) << newline
    print << bar(new "xx") << newline

test()