#include "foamlib"
import from SingleInteger;
x: SingleInteger := 4611686018427387904;
y: SingleInteger := 9223372036854775807;
print << x << " " << y << newline;
