#include "axlgen.h"
#include "dnf.h"
#include <stdio.h>
#include <stdlib.h>
static unsigned tt(DNF x, int n){ unsigned m=0; int a,i,j; for(a=0;a<(1<<n);a++){ int v=0; for(i=0;i<x->argc&&!v;i++){ int c=1; for(j=0;j<x->argv[i]->argc;j++){ int l=x->argv[i]->argv[j]; int at=l<0?-l:l; int b=(a>>(at-1))&1; if(l<0)b=!b; if(!b){c=0;break;} } if(c)v=1;} if(v)m|=1u<<a;} return m;}
int main(void){
  int n=3; unsigned full=(1u<<(1<<n))-1;
  DNF a=dnfAtom(1),b=dnfAtom(2),c=dnfAtom(3);
  DNF na=dnfNotAtom(1),nb=dnfNotAtom(2),nc=dnfNotAtom(3);
  /* 1: (a&b) | (~a&~b) */
  DNF x=dnfOr(dnfAnd(a,b),dnfAnd(na,nb));
  printf("1. (a&b)|(~a&~b) -> "); dnfPrint(stdout,x); printf("  table %02x expected %02x isTrue=%d\n", tt(x,n), (tt(dnfAnd(a,b),n)|tt(dnfAnd(na,nb),n)), dnfIsTrue(x));
  /* 2: (c&~a&~b) | (a&b) */
  DNF y1=dnfAnd(c,dnfAnd(na,nb)), y2=dnfAnd(a,b);
  DNF y=dnfOr(y1,y2);
  printf("2. (~a&~b&c)|(a&b) -> "); dnfPrint(stdout,y); printf("  table %02x expected %02x\n", tt(y,n), tt(y1,n)|tt(y2,n));
  /* 3: implication a => (a&b)|(a&~b) */
  DNF z=dnfOr(dnfAnd(a,b),dnfAnd(a,nb));
  printf("3. (a&b)|(a&~b) -> "); dnfPrint(stdout,z); printf("  table %02x; dnfImplies(a, it)=%d truth-table implication=%d; dnfEqual(a,it)=%d tables equal=%d\n", tt(z,n), dnfImplies(a,z), (tt(a,n)&~tt(z,n)&full)==0, dnfEqual(a,z), tt(a,n)==tt(z,n));
  /* 4: not of xor */
  DNF xr=dnfOr(dnfAnd(a,nb),dnfAnd(na,b));
  DNF nx=dnfNot(xr);
  printf("4. a xor b -> "); dnfPrint(stdout,xr); printf(" table %02x; not -> ",tt(xr,n)); dnfPrint(stdout,nx); printf(" table %02x expected %02x\n", tt(nx,n), (~tt(xr,n))&full);
  /* 5: a | (b & ~b ...) implies with false */
  DNF w=dnfOr(dnfAnd(a,b),dnfOr(dnfAnd(a,nb),dnfOr(dnfAnd(na,b),dnfAnd(na,nb))));
  printf("5. all four minterms of a,b -> "); dnfPrint(stdout,w); printf(" table %02x isTrue=%d dnfImplies(true,it)=%d\n", tt(w,n), dnfIsTrue(w), dnfImplies(dnfTrue(),w));
  return 0; }
