#include "foamlib"
I ==> SingleInteger;
x: I == 1;
export x: I to Foreign;
