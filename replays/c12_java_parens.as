#include "foamlib"
import from Machine;
import { SIntMinus: (SInt,SInt) -> SInt; SIntAnd: (SInt,SInt) -> SInt; SIntOr: (SInt,SInt) -> SInt; SIntQuo: (SInt,SInt) -> SInt; SIntTimes: (SInt,SInt) -> SInt } from Builtin;
import from SingleInteger;
f(a: SInt, b: SInt, c: SInt): SInt == SIntMinus(a, SIntMinus(b, c));
g(a: SInt, b: SInt, c: SInt): SInt == SIntAnd(a, SIntOr(b, c));
h(a: SInt, b: SInt, c: SInt): SInt == SIntQuo(a, SIntTimes(b, c));
p(x: SInt): () == print << (x pretend SingleInteger) << newline;
s(x: SingleInteger): SInt == x pretend SInt;
p f(s 10, s 4, s 2);
p g(s 4, s 2, s 1);
p h(s 40, s 2, s 2);
