-- Copyright (c) 1990-2007 Aldor Software Organization Ltd (Aldor.org).
--> testcomp
--> testrun -Q3 -l axllib

#include "axllib"
 
main():() ==
{
   local rec:RawRecord(x:SingleInteger, y:DoubleFloat);

   rec := [42, 0.135];
   print << "rec.x = " << (rec.x) << newline;
   print << "rec.y = " << (rec.y) << newline;
   dispose! rec;
}

main();
