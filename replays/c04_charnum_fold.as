#include "foamlib"
import from SingleInteger, Character;
import from Machine;
print << ord(char 300) << " " << ord(char 200) << newline;
