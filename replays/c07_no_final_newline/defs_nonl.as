x: SingleInteger == 1;
-- trailing comment without newline