#include "foamlib"
#include "defs_nonl.as"
)))) junk (((
import from SingleInteger;
print << x << newline;
