#include "foamlib"
import from SingleInteger;
f(x: SingleInteger): SingleInteger == x + (-9223372036854775807 - 1);
print << f(5) << newline;
