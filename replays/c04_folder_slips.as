#include "foamlib"
import from Machine;
import from Boolean;
P(b: Bool): () == print << (b pretend Boolean) << newline;
and2(a: Bool, b: Bool): Bool == (a /\ b)@Bool;
or2(a: Bool, b: Bool): Bool == (a \/ b)@Bool;
ne2(a: Bool, b: Bool): Bool == (a ~= b)@Bool;
ceq(a: Char, b: Char): Bool == (a = b)@Bool;
cne(a: Char, b: Char): Bool == (a ~= b)@Bool;
clt(a: Char, b: Char): Bool == (a < b)@Bool;
cle(a: Char, b: Char): Bool == (a <= b)@Bool;
odd(a: SInt): Bool == odd?(a);
main(): () == {
P and2(true, false);
P or2(false, true);
P ne2(true, false);
P ceq(space, newline);
P cne(space, newline);
P clt(newline, space);
P cle(space, newline);
m3: SInt := (0@SInt) - (1@SInt) - (1@SInt) - (1@SInt);
P odd(m3);
}
main();
