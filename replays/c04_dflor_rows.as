#include "foamlib"
import from Machine;
import from Boolean;
import { DFloRPlus: (DFlo,DFlo,SInt) -> DFlo; DFloRMinus: (DFlo,DFlo,SInt) -> DFlo; DFloRTimes: (DFlo,DFlo,SInt) -> DFlo;} from Builtin;
P(b: Bool): () == print << (b pretend Boolean) << newline;
main(a: DFlo, b: DFlo, c: DFlo, m: SInt): () == {
	local x: DFlo;
	local y: DFlo;
	x := DFloRPlus(DFloRMinus(a, b, m), c, m);
	y := DFloRMinus(a, b, m);
	y := DFloRPlus(y, c, m);
	P (x = y);
	x := DFloRTimes(DFloRPlus(a, b, m), c, m);
	y := DFloRPlus(a, b, m);
	y := DFloRTimes(y, c, m);
	P (x = y);
}
one: DFlo == 1;
eps: DFlo == epsilon;
three: DFlo == one + one + one;
zero: DFlo == 0;
main(one + eps, zero, zero, Bnearest());
