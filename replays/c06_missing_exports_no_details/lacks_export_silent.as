-- Well-typed member of the family: a category with two exports, a domain
-- providing both, a functor over the category and a use of it.
#include "aldor"

Shape: Category == with {
	grow:   % -> %;
	shrink: % -> %;
	unit:   () -> %;
}

Box: Shape == add {
	Rep == Integer;
	import from Rep;
	unit(): %        == per 1;
	grow(x: %): %    == per(rep x + 1);

}

Twice(S: Shape): with { again: S -> S } == add {
	again(s: S): S == grow grow s;
}

import from Box, Twice Box;
b: Box := again unit();
