#include "aldor"
A: Category == with { f: % -> %; g: % -> % }
D: A == add { f(x: %): % == x }
