#!/bin/sh
# Shows the behaviour of the UNCHANGED compiler described in NOTES.md
# ("Observed on the unchanged tree").  Writes only into a temporary directory.
TREE=${ALDOR_TREE:-/tmp/wt-probe}
HERE=$(cd "$(dirname "$0")" && pwd)
S=$TREE/aldor/aldor/src; L=$TREE/aldor/aldor/lib
T=$(mktemp -d /tmp/c06pre.XXXXXX) || exit 2
trap 'rm -rf "$T"' EXIT
cp "$HERE"/*.as "$T"; cd "$T" || exit 2
for f in lacks_export_silent lacks_export_garbage; do
	for m in -Mno-details -M1 -M0; do
		echo "=== $f.as $m"
		"$S/aldor" -Nfile="$S/aldor.conf" -I"$TREE/aldor/lib/aldor/include" \
			-Y"$TREE/aldor/lib/aldor/src" -Y"$L/libfoam/al" -Y"$L/libfoamlib/al" \
			$m -Fao $f.as > out.txt 2>&1
		rc=$?; cat -v out.txt; rm -f out.txt
		echo "exit status $rc; files: $(ls | grep -v '\.as$' | tr '\n' ' ')"
	done
done
