#!/bin/sh
# Replay: a collection in the middle of pieceGetMixed's split.
#
# split_gc.c builds a heap in which (a) every free-list carrier (MxMemDLL) of
# the first carrier page is in use (256 distinct free sizes), (b) the best fit
# for the last request is a free piece X whose right-hand neighbour P is
# garbage, (c) the remainder of the split has a size the index does not have.
# The number n of 256-byte fillers decides whether a page is free when the
# allocator asks for the 257th carrier.  n is swept around the point where the
# heap is exactly full: for n in C-14..C the collector runs INSIDE the split.
#
# exit 0: no fault at any n; exit 1: fault reproduced; exit 2: cannot run.

TREE=${ALDOR_TREE:-/tmp/wt-g8}
HERE=$(cd "$(dirname "$0")" && pwd)
LIB=$TREE/aldor/aldor/lib/libfoam/libfoam.a

[ -f "$LIB" ] || { echo "replay: no runtime library at $LIB"; exit 2; }

W=$(mktemp -d /tmp/splitgc.XXXXXX) || exit 2
trap 'rm -rf "$W"' EXIT INT TERM
cd "$W" || exit 2

gcc -g -O1 -w -o split_gc "$HERE/c09_split_gc.c" "$LIB" -lm > build.out 2>&1
[ -x ./split_gc ] || { echo "replay: could not build the driver:"; cat build.out; exit 2; }

C=$(timeout 120 ./split_gc cal 2>/dev/null)
case "$C" in
  ''|*[!0-9]*) echo "replay: calibration failed (got '$C')"; exit 2;;
esac
echo "tree: $TREE"
echo "the heap is exactly full with $C fillers (15 to a page)"

bad=0
n=$((C - 18)); [ $n -lt 0 ] && n=0
while [ $n -le $((C + 3)) ]; do
	out=$( (timeout 120 ./split_gc run $n) 2>run.err ); rc=$?
	if [ $n -le $((C - 15)) ]; then where="a page is free: no collection"
	elif [ $n -le $C ];         then where="collector runs INSIDE the split"
	else                             where="collector ran just before"
	fi
	case "$rc:$out" in
	  0:"ok K "*" n $n sum "*) verdict=ok;;
	  *) verdict=FAULT; bad=1;;
	esac
	printf 'n=%-4s %-34s rc=%-3s out=%-34s %s\n' "$n" "$where" "$rc" "'$out'" "$verdict"
	n=$((n + 1))
done

if [ $bad = 0 ]; then
	echo "RESULT: no fault wherever the collector ran"
	exit 0
else
	echo "RESULT: fault when the collector runs inside the split (rc 139 = SIGSEGV)"
	exit 1
fi
