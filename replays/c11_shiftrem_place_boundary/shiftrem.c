#include "axlgen.h"
#include "bigint.h"
#include "store.h"
#include <stdio.h>
int main(int argc, char **argv)
{
	BInt a, r;
	int n;
	osInit();
	/* store initialises lazily */
	a = bintFrString(argv[1]);
	n = atoi(argv[2]);
	r = bintShiftRem(a, n);
	printf("shiftrem(%s,%d) = %s\n", bintToString(a), n, bintToString(r));
	return 0;
}
