#include "foamlib"
import from Machine;
import from Boolean;
P(b: Bool): () == print << (b pretend Boolean) << newline;
PI(n: SInt): () == print << (n::SingleInteger) << newline;
main(a: SInt, b: SInt, c: SInt): () == {
	PI mod_*(a, b, c);
}
import from SingleInteger;
main(3::SInt, 4::SInt, 5::SInt);
