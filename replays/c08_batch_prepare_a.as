#include "foamlib"
macro Int == SingleInteger;
Foo: with { f: Int -> Int } == add {
  export { dbl: Int -> Int } to Foreign C;
  dbl(x: Int): Int == x + x;
  f(x: Int): Int == dbl x;
}
