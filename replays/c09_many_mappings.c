#include <stdio.h>
#include <sys/mman.h>
#include "opsys.h"
int main(int argc, char **argv)
{
	int i, n = argc > 1 ? atoi(argv[1]) : 40, cnt = 0;
	struct osMemMap **mm;
	for (i = 0; i < n; i++) {
		/* writable page followed by an inaccessible one: the mappings cannot be merged */
		char *p = mmap(0, 2 * 4096, PROT_NONE, MAP_PRIVATE | MAP_ANONYMOUS, -1, 0);
		mprotect(p, 4096, PROT_READ | PROT_WRITE);
	}
	for (mm = osMemMap(OSMEM_STACK | OSMEM_DDATA); (*mm)->use != OSMEM_END; mm++) cnt++;
	printf("%d segments returned from arrays of 30\n", cnt);
	return 0;
}
