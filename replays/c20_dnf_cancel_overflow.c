/* replay: dnf.c of the repository compiled with the allocator mapped to malloc so that AddressSanitizer sees the block bounds */
#include <stdlib.h>
#include "axlgen.h"
#include "dnf.h"
#include "store.h"
static void *verif_alloc(unsigned long n) { return malloc(n); }
static void verif_free(void *p) { free(p); }
#define stoAlloc(k,n) verif_alloc(n)
#define stoFree(p)    verif_free(p)
#include "dnf.c"
int main(void)
{
	DNF r = dnfOr(dnfAnd(dnfAtom(1), dnfNotAtom(2)), dnfAtom(2));   /* (a & ~b) | b */
	printf("disjuncts=%d\n", (int) r->argc);
	return 0;
}
