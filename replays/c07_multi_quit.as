#quit
