#include "foamlib"
import from Machine;
import from Boolean;
import { ListNil: () -> Ptr; ListEmptyP: Ptr -> Bool; } from Builtin;
P(b: Bool): () == print << (b pretend Boolean) << newline;
main(p: Ptr): () == {
	local b: Bool;
	b := ListEmptyP(p);
	P b;
	P ListEmptyP(p);
}
main(ListNil());
