#include "axlgen.h"
#include "bigint.h"
#include <stdio.h>
int main(void)
{
	ULong qh, ql, r;
	/* (5*2^64 + 7) / 3 : exact quotient = 0x1_AAAAAAAAAAAAAAAC rem 3?  */
	xxDivideDouble(&qh, &ql, &r, 5UL, 7UL, 3UL);
	printf("xxDivideDouble(5,7,3): qh=%lu ql=%lu r=%lu\n", qh, ql, r);
	xxDivideDouble(&qh, &ql, &r, 5UL, 7UL, (1UL<<32)+1);
	printf("xxDivideDouble(5,7,2^32+1): qh=%lu ql=%lu r=%lu\n", qh, ql, r);
	return 0;
}
