#!/bin/bash
# usage: run.sh <tree>   compares -Ginterp and the Java route on modtimes.as
TREE=${1:-/repo}
S=$TREE/aldor/aldor/src; L=$TREE/aldor/aldor/lib; ALIB=$TREE/aldor/lib/aldor
CP=$L/java/src/foamj.jar:$L/libfoam/al/foam.jar:$ALIB/src/aldor.jar
ALDOR="$S/aldor -Nfile=$S/aldor.conf -I$ALIB/include -Y$ALIB/src -Y$L/libfoam/al -Y$L/libfoamlib/al"
T=$(mktemp -d); trap 'rm -rf $T' EXIT
cp "$(dirname "$0")/modtimes.as" $T/; cd $T
$ALDOR -Q1 -Ginterp modtimes.as > interp.out 2>interp.err; echo "interp status $?"
$ALDOR -Q1 -Jmain -Fjava modtimes.as > gen.log 2>&1 || { cat gen.log; exit 2; }
javac -cp "$CP" aldorcode/modtimes.java > javac.log 2>&1 || { tail javac.log; exit 2; }
java -cp ".:$CP" aldorcode.modtimes > java.out 2>java.err; echo "java status $?"
echo "--- interpreter:"; od -c interp.out | head -5; echo "--- java:"; od -c java.out | head -5
cmp -s interp.out java.out && { echo SAME; exit 0; } || { echo DIFFERENT; exit 1; }
