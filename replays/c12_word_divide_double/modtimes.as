#include "aldor"
#include "aldorio"
#pile

test(): () ==
    import from String, MachineInteger, Character
    stdout << mod_*(90000, 90000, 1000003) << newline

test()
