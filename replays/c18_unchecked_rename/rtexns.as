#include "foamlib"
