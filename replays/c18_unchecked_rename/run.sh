#!/bin/bash
# Behaviour of the UNCHANGED compiler that itself looks like a C18 violation.
# Usage: ALDOR_TREE=/tmp/wt-probe ./run.sh      (works in a mktemp dir)
TREE=${ALDOR_TREE:-/tmp/wt-probe}
HERE=$(cd "$(dirname "$0")" && pwd)
S=$TREE/aldor/aldor/src; L=$TREE/aldor/aldor/lib
W=$(mktemp -d) || exit 2
trap 'rm -rf "$W"' EXIT
cp "$HERE/fact.as" "$HERE/rtexns.as" "$W/"; cd "$W" || exit 2
aldor() {
	"$S/aldor" -Nfile="$S/aldor.conf" -I"$TREE/aldor/lib/aldor/include" \
		-Y"$L/libfoam/al" -Y"$L/libfoamlib/al" -Y"$L/libfoam" -Y"$L/libfoamlib" \
		-Ccc="$TREE/aldor/aldor/subcmd/unitools/unicl" \
		-Cargs="-Wconfig=$S/aldor.conf -I$S" \
		-lAxlLib=foamlib -I"$L/libfoamlib/al" "$@" 2>&1 | grep -v "Redefinition of library"
	return ${PIPESTATUS[0]}
}
aldor -Fo rtexns.as >/dev/null; rm -f rtexns.c

echo "== P1: stale fact.o, and fact.c is a non-empty directory; aldor -Fc -Fx fact.as"
echo stale > fact.o; mkdir fact.c; touch fact.c/keep
aldor -Fc -Fx fact.as rtexns.o; echo "exit=$?"; ls -F
rm -rf fact fact.c fact.o ./*.c

echo "== P2: output that cannot be made from the input: aldor -Fap fact.ao"
aldor -Fao fact.as >/dev/null
aldor -Fap fact.ao; echo "exit=$?"; ls -F

echo "== P3: -Fmain=NAME: the name is ignored"
aldor -Fmain=mymain.c fact.as; echo "exit=$?"; ls -F
rm -f ./*main*.c

echo "== P4: a failing -Fai=<elsewhere> removes ./fact.ai, which it never wrote"
echo "precious, hand-made" > fact.ai
mkdir blockdir
aldor -Fai=blockdir fact.as; echo "exit=$?"; ls -F
