#include "foamlib"
f(n: SingleInteger): SingleInteger == if n < 2 then 1 else n * f(n-1);
import from SingleInteger;
print << f(5) << newline;
