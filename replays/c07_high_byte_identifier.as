#include "foamlib"
import from SingleInteger;
f_é(x: SingleInteger): SingleInteger == x + 1;
print << f_é(2) << newline;
