#include "foamlib"
import from Machine;
import { DFloNegate: DFlo -> DFlo; DFlo0: () -> DFlo; DFlo1: () -> DFlo; DFloDivide: (DFlo, DFlo) -> DFlo; DFloIsNeg: DFlo -> Bool } from Builtin;
import from Boolean;
negz(): DFlo == DFloNegate(DFlo0());
print << ((DFloIsNeg(DFloDivide(DFlo1(), negz()))) pretend Boolean) << newline;
