#include "aldor"
#include "aldorio"
import from DoubleFloat;
x: DoubleFloat := 12345678901234568.0;
y: DoubleFloat := 1.5e16;
stdout << x << " " << y << newline;
