#include "foamlib"
import from Machine;
import from Boolean;
P(b: Bool): () == print << (b pretend Boolean) << newline;
divs(a: DFlo): DFlo == a / a;               -- DFloDivide l=r
zdiv(a: DFlo): DFlo == (0@DFlo) / a;        -- DFloDivide l=0
ztim(a: DFlo): DFlo == (0@DFlo) * a;        -- DFloTimes l=0
timz(a: DFlo): DFlo == a * (0@DFlo);        -- DFloTimes r=0
eqs(a: DFlo): Bool == (a = a)@Bool;         -- DFloEQ l=r
nes(a: DFlo): Bool == (a ~= a)@Bool;        -- DFloNE l=r
les(a: DFlo): Bool == (a <= a)@Bool;        -- DFloLE l=r
subs(a: DFlo): DFlo == a - a;               -- DFloMinus l=r
zle(a: DFlo): Bool == ((0@DFlo) <= a)@Bool; -- DFloLE l=0
lez(a: DFlo): Bool == (a <= (0@DFlo))@Bool; -- DFloLE r=0
zsub(a: DFlo): DFlo == (0@DFlo) - a;        -- DFloMinus l=0
zadd(a: DFlo): DFlo == (0@DFlo) + a;        -- DFloPlus l=0
addz(a: DFlo): DFlo == a + (0@DFlo);        -- DFloPlus r=0
main(z: DFlo): () == {
	one: DFlo := 1;
	inf: DFlo := one / z;
	nan: DFlo := z / z;
	mz:  DFlo := -z;
	P (divs(z) = one);
	P (zdiv(z) = z);
	P (ztim(inf) = z);
	P (timz(inf) = z);
	P eqs(nan);
	P nes(nan);
	P les(nan);
	P (subs(inf) = z);
	P zle(nan);
	P lez(nan);
	P (one / zsub(z) < z);     -- 0-0 = +0 : 1/+0 = +inf, not < 0 ; -(0) = -0 : 1/-0 = -inf < 0
	P (one / zadd(mz) < z);    -- 0+(-0) = +0 ; rewritten to -0
	P (one / addz(mz) < z);
}
main(0);
