/* bitvResize to a class with more words copies with `*b++` and then calls
 * bitvFree(b) on the ADVANCED pointer (b + old nwords), not on the block. */
#include <stdio.h>
#include "axlgen.h"
#include "opsys.h"
#include "bitv.h"
int main(void)
{
	BitvClass c1, c2; Bitv v, w; int i;
	osInit();
	c1 = bitvClassCreate(64); c2 = bitvClassCreate(200);
	v = bitvNew(c1); bitvClearAll(c1, v); bitvSet(c1, v, 3);
	printf("resizing 64 -> 200 bits\n"); fflush(stdout);
	w = bitvResize(c2, c1, v);
	printf("bit 3 after resize: %d\n", bitvTest(c2, w, 3));
	for (i = 0; i < 1000; i++) bitvFree(bitvNew(c2));
	printf("survived\n");
	return 0;
}
