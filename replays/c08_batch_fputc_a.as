#include "foamlib"
import { fputc: (SingleInteger, SingleInteger) -> SingleInteger } from Foreign C;
import from SingleInteger;
fputc(65, 0);
