#include "foamlib"
#include "../foo.as"
bad2(x: SingleInteger): SingleInteger == x + "b";
