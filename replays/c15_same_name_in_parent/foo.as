-- parent foo.as line 1
-- line 2
-- line 3
-- line 4
-- line 5
bad1(x: SingleInteger): SingleInteger == x + "a";
