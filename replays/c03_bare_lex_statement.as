#include "foamlib"
import from SingleInteger;
x: SingleInteger := 1;
g(): SingleInteger == { free x; x := x + 10; x }
print << g() << newline;
