/* UNCHANGED table.c: a lookup (tblElt) during an iteration moves the found
 * slot to the front of its chain, so the iteration skips or revisits entries. */
#include "axlgen.h"
#include "table.h"
#include "opsys.h"
#include "debug.h"
#include <stdio.h>

int main(void) {
	Table t; TableIterator it; long k; int visits[8] = {0}, n = 0, bad = 0;
	osInit(); dbInit();
	t = tblNew((TblHashFun) 0, (TblEqFun) 0);
	/* keys 7,14,21,28 all fall into bucket 0 of the initial 7 buckets */
	for (k = 1; k <= 4; k++) tblSetElt(t, (TblKey) (7*k), (TblElt) k);
	for (tblITER(it, t); tblMORE(it); tblSTEP(it)) {
		long e = (long) tblELT(it);
		visits[e]++; n++;
		if (n == 1) tblElt(t, (TblKey) 7L, (TblElt) 0);	/* read-only lookup of key 7 */
		if (n > 10) break;
	}
	for (k = 1; k <= 4; k++) {
		printf("entry %ld visited %d time(s)\n", k, visits[k]);
		if (visits[k] != 1) bad = 1;
	}
	printf("size %d, %d visits\n", (int) tblSize(t), n);
	return bad;
}
