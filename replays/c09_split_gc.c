/*
 * split_gc.c -- driver for the runtime store (libfoam.a: store.c, -DFOAM_RTS).
 *
 * Question: may the collector run while pieceGetMixed() is half way through
 * splitting a free piece?  In pieceGetMixed the remainder `mt' of the split
 * is flagged isFree *before* piecePutMixed(mt) has linked it into the
 * free-piece index.  mxmemLink(mt) may need a fresh page for a free-list
 * carrier (MxMemDLL); if no page is free, pagesGet() runs the collector.  If
 * the piece physically after `mt' is garbage, the sweep frees it with
 * piecePutMixed(), sees a "free" left neighbour, and unlinks `mt' from an
 * index it is not in.
 *
 * The program is legal: it only calls stoAlloc/stoFree and drops references.
 *
 * Layout (Q = 256 bytes, the mixed-size quantum; all inside one section,
 * carved front to back out of one big block that was allocated and freed):
 *
 *   [A0][S] [A1][S] ... [A(K-1)][S] [X1][P1][S] [X2][P2][S] [rest R]
 *
 *   A_k  (k+4)Q   freed by hand  -> K distinct free sizes in the index
 *   S    2Q       live separators (so that nothing merges)
 *   X1,2 (K+14)Q  freed by hand  -> one more size, two pieces on its list
 *   P1,2 4Q       live until just before the last step, then garbage
 *   R             what is left of the big block -> one more size
 *
 * With K = 254 that is 256 distinct sizes = every MxMemDLL of the first (and
 * only) carrier page is in use (4096 / sizeof(MxMemDLL) = 256).
 *
 * Then 256-byte objects (fixed-size, 15 to a page) are allocated until the
 * heap has no free page left ("exactly full"; the count comes from `cal').
 *
 * Last step: P1 and P2 become garbage and (K+11)Q bytes are requested.  The
 * best fit is X1 or X2: it is split, the remainder is 3Q -- a size the index
 * does not have -- so mxmemLink wants a 257th carrier -> a new page -> none
 * free -> stoGc() in the middle of the split.
 *
 *   split_gc cal  [K]       print the number of fillers that fill the heap
 *   split_gc run  n [K]     run with n fillers; prints "ok ..." and exits 0
 *   split_gc show n [K]     same, and show the free index before and after
 *                           the last step
 *   split_gc drain n [K]    extra: after the last step everything in the arena
 *                           becomes garbage, is collected, and work goes on
 *                           (see NOTES.md, "Left alone")
 *
 * SPLIT_GC_FREEPATH=1|2 in the environment selects the comparison scenarios
 * described above setup().
 */
#include <stdio.h>
#include <stdlib.h>
#include <string.h>

extern void *stoAlloc(unsigned code, unsigned long nbytes);
extern void  stoFree (void *p);
extern unsigned long stoSize(void *p);
extern int   stoIsPointer(void *p);
extern void  stoShowDetail(int);
extern int   stoAudit(void);
extern void  stoGc(void);
extern void  osInit  (void);

#define Q	256UL		/* MixedSizeQuantum */
#define HEAD	32UL		/* MxMemHeadSize */
#define U(q)	((q) * Q - HEAD)	/* user bytes for a piece of q quanta */

#define KMAX	600
#define MAXFILL	100000
#define SMALL	256

static char * volatile A[KMAX];
static char * volatile S[KMAX + 4];
static char * volatile X[2];
static char * volatile P[2];
static char * volatile keep[MAXFILL];
static volatile unsigned long hidden;	/* ~address: invisible to the marker */
static volatile int sink;

static void __attribute__((noinline))
scrub(void)
{
	volatile char pad[4096];
	int i;
	for (i = 0; i < (int) sizeof pad; i++) pad[i] = 0;
	sink += pad[17];
}

static void *
mx(unsigned long q, int fill)
{
	char *p = stoAlloc(0, U(q));
	if (!p || stoSize(p) != U(q)) {
		fprintf(stderr, "split_gc: piece of %lu quanta came out as %lu bytes\n",
			q, p ? stoSize(p) : 0UL);
		exit(2);
	}
	memset(p, fill, U(q));
	return p;
}

/*
 * SPLIT_GC_FREEPATH=1 in the environment selects a second scenario, for
 * comparison: X1 and X2 stay live (K = 255 to have 256 sizes) and the last
 * step is stoFree(X1) instead of a request that splits X1.
 *
 * SPLIT_GC_FREEPATH=2: as 1, and X1 is preceded by [G][A'] where A' (4Q) is
 * free and G (4Q) becomes garbage together with P1, P2.  stoFree(X1) merges
 * X1 into A'; A' still carries its isFree flag while it is out of the index.
 */
static int freePath;
static char * volatile G;	/* SPLIT_GC_FREEPATH=2: garbage piece before that one */
static char * volatile Ap;	/* SPLIT_GC_FREEPATH=2: a free piece right before X1 */

static void __attribute__((noinline))
setup(int K)
{
	unsigned long total, qX = K + 14;
	char *b;
	int k;

	/* One big block, given straight back: the arena everything is cut from. */
	total = 0;
	for (k = 0; k < K; k++) total += (k + 4) + 2;
	total += 2 * (qX + 4 + 2);
	total += 2000 + 8;			/* R */
	b = stoAlloc(0, U(total));
	memset(b, 0x42, U(total));
	stoFree(b);
	b = 0;

	for (k = 0; k < K; k++) {
		A[k] = mx(k + 4, 0x41);
		S[k] = mx(2, 0x53);
	}
	for (k = 0; k < 2; k++) {
		if (freePath == 2 && k == 0) { G = mx(4, 0x47); Ap = mx(4, 0x41); }
		X[k] = mx(qX, 0x58);
		P[k] = mx(4, 0x50);
		S[K + k] = mx(2, 0x53);
	}
	/* Everything must be where the comment at the top says it is. */
	for (k = 0; k < 2; k++)
		if ((char *) P[k] != (char *) X[k] + qX * Q) {
			fprintf(stderr, "split_gc: P%d is not right after X%d\n", k, k);
			exit(2);
		}

	for (k = 0; k < K; k++) { char *p = A[k]; A[k] = 0; stoFree(p); }
	if (Ap) { char *p = Ap; Ap = 0; stoFree(p); }
	if (!freePath)
		for (k = 0; k < 2; k++) { char *p = X[k]; X[k] = 0; stoFree(p); }
}

static char * volatile anchor;	/* keeps the canaries' page in use */

static void __attribute__((noinline))
makeCanary(void)
{
	char *c;
	/*
	 * The first free slot of the page may still be pointed to by the
	 * store's own (stale) list head after a sweep: do not use it.
	 */
	anchor = stoAlloc(0, 64);
	c = stoAlloc(0, 64);
	memset(c, 7, 64);
	hidden = ~(unsigned long) c;
}

static int __attribute__((noinline))
gone(void)
{
	return !stoIsPointer((void *) ~hidden);
}

static void __attribute__((noinline))
dropP(void)
{
	P[0] = 0;
	P[1] = 0;
	G = 0;
}

static char * volatile Y;
static char * volatile W;

static void __attribute__((noinline))
trigger(unsigned long qX)
{
	char *y;
	if (freePath) {
		y = (char *) X[0];
		X[0] = 0;
		stoFree(y);
		return;
	}
	y = stoAlloc(0, U(qX - 3));
	memset(y, 3, U(qX - 3));
	Y = y;
}

int
main(int argc, char **argv)
{
	int	i, k, n, K = 254, show = 0, drain = 0;
	unsigned long sum = 0, qX;
	char	*y;

	osInit();
	if (argc < 2) return 2;
	if (getenv("SPLIT_GC_FREEPATH")) { freePath = atoi(getenv("SPLIT_GC_FREEPATH")); K = 255; }

	if (!strcmp(argv[1], "cal")) {
		if (argc > 2) K = atoi(argv[2]);
		if (K < 1 || K > KMAX) return 2;
		setup(K);
		scrub();
		/*
		 * Filler i is the first one that does not fit: it runs the
		 * collector (the canary goes), then the heap grows.
		 */
		n = -1;
		makeCanary();
		scrub();
		for (i = 0; i < MAXFILL; i++) {
			scrub();	/* gone() leaves the address on the stack */
			keep[i] = stoAlloc(0, SMALL);
			if (gone()) {
				n = i;
				break;
			}
		}
		if (n < 0) return 2;
		printf("%d\n", n);
		return 0;
	}

	if (!strcmp(argv[1], "show")) show = 1;
	else if (!strcmp(argv[1], "drain")) drain = 1;
	else if (strcmp(argv[1], "run")) return 2;
	if (argc < 3) return 2;
	n = atoi(argv[2]);
	if (argc > 3) K = atoi(argv[3]);
	if (K < 1 || K > KMAX || n < 0 || n > MAXFILL) return 2;
	qX = K + 14;

	setup(K);
	scrub();
	makeCanary();		/* same sequence of requests as `cal' */
	scrub();
	for (i = 0; i < n; i++) {
		scrub();
		keep[i] = stoAlloc(0, SMALL);
		memset((char *) keep[i], 4, SMALL);
	}

	if (show) stoShowDetail(0x01 | 0x20);

	dropP();		/* P1 and P2 are garbage from here on */
	scrub();

	trigger(qX);		/* splits X1 or X2; remainder 3Q */
	if (show) stoShowDetail(0x01 | 0x20);

	if (drain) {
		/*
		 * Extra: everything in the arena becomes garbage and is
		 * collected; then the program carries on allocating.
		 */
		char *z, *f[64];
		int bad = 0;
		/* Move the allocation frontier out of the arena's section. */
		W = stoAlloc(0, U(3000));
		memset((char *) W, 0x77, U(3000));
		for (k = 0; k < K + 2; k++) S[k] = 0;
		Y = 0;
		X[0] = X[1] = 0;
		scrub();
		stoGc();
		stoShowDetail(0x01 | 0x20);
		z = stoAlloc(0, U(40));
		memset(z, 0x7a, U(40));
		for (i = 0; i < 64; i++) {
			f[i] = stoAlloc(0, U(16));
			memset(f[i], 0x66, U(16));
		}
		for (i = 0; i < (int) U(40); i++) if (z[i] != 0x7a) bad++;
		stoShowDetail(0x01 | 0x20);
		printf("drain: z=%p, %d bytes of z overwritten\n", z, bad);
		return bad ? 3 : 0;
	}

	/* Carry on working: the store must still be in good order. */
	if (freePath) Y = stoAlloc(0, U(qX - 3));
	y = (char *) Y;
	memset(y, 3, U(qX - 3));
	for (k = 0; k < K; k++) {
		A[k] = stoAlloc(0, U(k + 4));
		memset((char *) A[k], 0x61, U(k + 4));
	}
	for (k = 0; k < K + 2; k++)
		for (i = 0; i < (int) U(2); i++) sum += S[k][i];
	for (i = 0; i < (int) U(qX - 3); i++) sum += y[i];
	for (i = 0; i < n; i++) sum += keep[i][SMALL - 1];
	stoAudit();
	printf("ok K %d n %d sum %lu\n", K, n, sum);
	return 0;
}
