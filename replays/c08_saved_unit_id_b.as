#include "foamlib"
import from SingleInteger;
print << 2 << newline;
