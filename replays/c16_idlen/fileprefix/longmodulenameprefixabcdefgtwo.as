#include "aldor"
#include "aldorio"
#library L "longmodulenameprefixabcdefgone.ao"
import from L;
import from MachineInteger;
stdout << foo 41 << newline;
