#include "aldor"
import from MachineInteger;
foo(n: MachineInteger): MachineInteger == n + 1;
