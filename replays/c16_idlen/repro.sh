#!/bin/sh
# Reproduces, on an UNCHANGED tree, behaviours that contradict property C16.
# usage: ALDOR_TREE=/tmp/wt-probe sh repro.sh
TREE=${ALDOR_TREE:-/tmp/wt-probe}
HERE=$(cd "$(dirname "$0")" && pwd)
S=$TREE/aldor/aldor/src; L=$TREE/aldor/aldor/lib
TMP=$(mktemp -d /tmp/c16pre.XXXXXX) || exit 2
trap 'rm -rf "$TMP"' EXIT INT TERM
A() { "$S/aldor" -Nfile="$S/aldor.conf" -I"$TREE/aldor/lib/aldor/include" -Y"$TREE/aldor/lib/aldor/src" \
	-Y"$L/libfoam/al" -Y"$L/libfoam" -laldor -Ccc="$TREE/aldor/aldor/subcmd/unitools/unicl" \
	-Cargs="-Wconfig=$S/aldor.conf -I$S" "$@" 2>&1 | grep -v '^$' | grep -v Warning | head -4; }

echo "=== 1. hash collision: two exported functions get the same C name (default options)"
mkdir "$TMP/1" && cd "$TMP/1" && cp "$HERE"/hashcoll/collib.as "$HERE"/hashcoll/colluser.as .
A -Fao -Fo -Fc collib.as
grep -n "^FiClos G_" collib.c
A -Fx colluser.as collib.o
echo "compiled:";    ./colluser
echo "interpreted:"; A -Ginterp colluser.as

echo "=== 2. -Cidlen above the default: links, crashes at start-up (hello.as, libaldor)"
mkdir "$TMP/2" && cd "$TMP/2" && cp "$HERE"/idlen/hello.as .
for o in -Cidlen=30 -Cidlen=31 -Cidlen=40 -Cidlen=64 -Cidlen=0; do
	rm -f hello; A -Fx $o hello.as; echo "$o: $(./hello 2>&1; echo "status $?")"
done

echo "=== 3. two units whose file names share 22 characters: INIT__0_ name clash at link (default options)"
mkdir "$TMP/3" && cd "$TMP/3" && cp "$HERE"/fileprefix/*.as .
A -Fao -Fo longmodulenameprefixabcdefgone.as
A -Fx longmodulenameprefixabcdefgtwo.as longmodulenameprefixabcdefgone.o

echo "=== 4. -Csmax: two units whose file names share 5 characters write the same split0NN.c/.o"
mkdir "$TMP/4" && cd "$TMP/4" && cp "$HERE"/splitnames/*.as .
A -Fao -Fo -Csmax=2 splitone.as
objs=$(ls split0*.o)
A -Fx -Csmax=2 splittwo.as splitone.o $objs
[ -x splittwo ] && ./splittwo || echo "no executable"
