import sys, itertools
VH=0x39AA3F9
def strhash(s, h=0):
    for ch in s:
        c=ord(ch)
        h ^= (h<<8)
        h += c+200041
        h &= 0x3FFFFFFF
    return h
def enc(h):
    h%=VH
    d=[]
    while h:
        d.append(h%36); h//=36
    return ''.join(chr(48+x) if x<10 else chr(55+x) for x in reversed(d))
if __name__=='__main__':
    print(enc(strhash("longfn_accumulateTheSquaresOfAllNumbersBelowTheLimitInclusive_218754658")))
    print(enc(strhash("hello_f_218754658")), enc(strhash("runtime")))
