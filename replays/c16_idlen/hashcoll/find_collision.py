# finds two 4-letter suffixes X,Y such that the global ids
#   collib_computeTheValueOfItem<X>_218754658 and ...<Y>_218754658
# get the same gc0IdHashInBuf value (strHash % 0x39AA3F9)
from hs import *
import itertools, string
pre="collib_computeTheValueOfItem"; suf="_218754658"
hp=strhash(pre); seen={}
for t in itertools.product(string.ascii_lowercase, repeat=4):
    w=''.join(t); h=strhash(w+suf, hp)%VH
    if h in seen: print(seen[h], w, enc(h)); break
    seen[h]=w
