#include "aldor"
#include "aldorio"
import from MachineInteger;

-- Two distinct exported functions.  Their global ids
--   coll_computeTheValueOfItemafag_218754658
--   coll_computeTheValueOfItematuo_218754658
-- hash (strHash % VAR_HASH, genc.c gc0IdHashInBuf) to the same value CMKLI and
-- agree in the first 22 mangled characters, so both become
--   G_CMKLI_coll__computeTheValueO
computeTheValueOfItemafag(n: MachineInteger): MachineInteger == n + 1;
computeTheValueOfItematuo(n: MachineInteger): MachineInteger == n + 2;

stdout << computeTheValueOfItemafag 10 << newline;
stdout << computeTheValueOfItematuo 10 << newline;
