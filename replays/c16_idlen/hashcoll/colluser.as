#include "aldor"
#include "aldorio"
#library CL "collib.ao"
import from CL;
import from MachineInteger;
stdout << computeTheValueOfItemagin 10 << newline;
stdout << computeTheValueOfItemamym 10 << newline;
