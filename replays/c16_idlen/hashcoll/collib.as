#include "aldor"
import from MachineInteger;
-- global ids collib_computeTheValueOfItem????_218754658: see find_collision.py
computeTheValueOfItemagin(n: MachineInteger): MachineInteger == n + 1;
computeTheValueOfItemamym(n: MachineInteger): MachineInteger == n + 2;
