#include "aldor"
#include "aldorio"
#library SO "splitone.ao"
import from SO;
import from MachineInteger;
baz(n: MachineInteger): MachineInteger == foo n + bar n;
stdout << baz 10 << newline;
