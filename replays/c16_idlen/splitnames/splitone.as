#include "aldor"
import from MachineInteger;
foo(n: MachineInteger): MachineInteger == n + 1;
bar(n: MachineInteger): MachineInteger == n + 2;
