#include "aldor"
#include "aldorio"
import from MachineInteger;
f(n: MachineInteger): MachineInteger == if n < 2 then 1 else n * f(n-1);
stdout << "hello " << f 5 << newline;
