#include "aldor"
#include "aldorio"
import from MachineInteger, Character;
c: Character := char 233;
stdout << (c pretend MachineInteger) << newline;
stdout << ord c << newline;
