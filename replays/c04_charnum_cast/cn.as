#include "aldor"
#include "aldorio"
import from MachineInteger, Character;
f(n: MachineInteger): MachineInteger == { c: Character := char n; c pretend MachineInteger }
stdout << f 233 << newline;
stdout << f (233 + #"a" - 1) << newline;
