#include "aldor"
#include "aldorio"
import from Machine, MachineInteger;
stdout << "start" << newline;
g(n: MachineInteger): MachineInteger == { n > 3 => never; n }
stdout << g 1 << newline;
stdout << g 5 << newline;
stdout << "end" << newline;
