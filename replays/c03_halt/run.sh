#!/bin/sh
# usage: run.sh TREE file.as Qlevel
TREE=$1; F=$2; Q=${3:-2}
S=$TREE/aldor/aldor/src; L=$TREE/aldor/aldor/lib
B=$(basename $F .as)
D=$(mktemp -d /tmp/u03run.XXXXXX)
cp $F $D/; cd $D
COMMON="-Nfile=$S/aldor.conf -I$TREE/aldor/lib/aldor/include -Y$TREE/aldor/lib/aldor/src -Y$L/libfoam/al -Y$L/libfoamlib/al -Y$L/libfoam -Y$L/libfoamlib -I$L/libfoamlib/al"
$S/aldor $COMMON -Q$Q -Ginterp $B.as > interp.out 2> interp.err; echo "interp status $?"
$S/aldor $COMMON -Q$Q -Ccc=$TREE/aldor/aldor/subcmd/unitools/unicl -Cargs="-Wconfig=$S/aldor.conf -I$S" -Fx -laldor $EXTRA $B.as > comp.out 2> comp.err; echo "compile status $?"
./$B > c.out 2> c.err; echo "c status $?"
echo "--- interp.out"; cat interp.out; echo "--- c.out"; cat c.out
echo "--- interp.err"; head -5 interp.err; echo "--- c.err"; head -5 c.err; echo "--- comp"; head -5 comp.out comp.err
cmp interp.out c.out && echo SAME
echo $D
