#include "foamlib"
import { labs: SingleInteger -> SingleInteger } from Foreign C;
import from SingleInteger;
x: SingleInteger := 0 - 5;
print << labs(x) << newline;
