#include "foamlib"
import from SingleInteger, List SingleInteger;
Buf ==> PrimitiveArray SingleInteger;
import from Buf;
import { StoForceGC: () -> () } from Builtin;
collect(): () == {
#if DOGC
	StoForceGC();
#endif
}
mk(n: SingleInteger): List List SingleInteger == {
	ll: List List SingleInteger := [];
	for i in 1..n repeat ll := cons([i, i+1, i+2], ll);
	ll
}
tot(ll: List List SingleInteger): SingleInteger == {
	s: SingleInteger := 0;
	for l in ll repeat for x in l repeat s := s + x;
	s
}
main(): () == {
	b: Buf := new(17000000, 7);
	a := mk 20000;
	collect();
	c := mk 20000;
	collect();
	d := mk 20000;
	collect();
	e := mk 20000;
	print << b.1 + b.17000000 << " " << tot a << " " << tot c << " " << tot d << " " << tot e << newline;
}
main();
