#include "aldor"
#include "aldorio"
import from Integer;
x: Integer := 123456789012345678901234567890;
stdout << x + 1 << newline;
