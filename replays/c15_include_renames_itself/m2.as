#include "foamlib"
#include "inc2.as"

f(x: SingleInteger): SingleInteger == x + "a";
