#line 100 "m2.as"
h(x: SingleInteger): SingleInteger == x;
