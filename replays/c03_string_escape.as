#include "foamlib"
print << "x7y|café 7up" << newline;
