x: Integer := foo;
