#include "foamlib"
import from SingleInteger, List SingleInteger;
g(l: List SingleInteger): SingleInteger == { s := 0; for x in l repeat s := s + x; s }
D: with { h: SingleInteger -> SingleInteger } == add { h(n: SingleInteger): SingleInteger == n * 2 }
import from D;
print << g [1,2,3] + h 4 << newline;
