#include "foamlib"
import from SingleInteger, Character;
bs: Character := char 92;
q: Character := char 39;
cr: Character := char 13;
print << bs << q << cr << newline;
