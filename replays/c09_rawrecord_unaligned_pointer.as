#include "axllib"

SI ==> SingleInteger;
PA ==> PrimitiveArray SI;
RR ==> RawRecord(tag: Character, body: PA);

import from SI, Character, PA, RR, List SI, List RR;

mk(n: SI, k: SI): RR == {
	a: PA := new(n, 0);
	for i in 1..n repeat a.i := i + k;
	r: RR := [char "x", a];
	r
}

build(m: SI): List RR == {
	l: List RR := nil;
	for k in 1..m repeat l := cons(mk(10, k), l);
	l
}

total(l: List RR): SI == {
	t: SI := 0;
	for r in l repeat {
		b := r.body;
		for i in 1..10 repeat t := t + b.i;
	}
	t
}

churn(n: SI): SI == {
	t: SI := 0;
	for i in 1..n repeat {
		l: List SI := [j for j in 1..50];
		t := t + #l;
	}
	t
}

main(): () == {
	l := build 2000;
	print << "before: " << total l << newline;
	print << churn 40000 << newline;
	print << "after:  " << total l << newline;
}

main();
