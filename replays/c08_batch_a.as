#include "foamlib"
import from SingleInteger;
f(x: SingleInteger): SingleInteger == x + 1;
print << f 2 << newline;
