#include "aldor"
Foo(T: Type): with { f: T -> T } == add {
	if T has PrimitiveType then { %s%s%s%s%s%s(t: T): T == t; }
	f(t: T): T == %s%s%s%s%s%s t;
}
