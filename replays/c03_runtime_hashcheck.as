#include "foamlib"
D: with { f: SingleInteger -> SingleInteger } == add { f(x: SingleInteger): SingleInteger == x + 1 }
import from D, SingleInteger;
print << f 2 << newline;
