#include "aldor"
#include "aldorio"
#pile

test(): () ==
    import from String, MachineInteger, Character
    stdout << "line one" << newline
    stdout << "partial"

test()
