#include "foamlib"
import from Machine;
import { SIntNegate: SInt -> SInt } from Builtin;
import from SingleInteger;
f(a: SInt): SInt == SIntNegate(SIntNegate(a));
p(x: SInt): () == print << (x pretend SingleInteger) << newline;
s(x: SingleInteger): SInt == x pretend SInt;
p f(s 12);
