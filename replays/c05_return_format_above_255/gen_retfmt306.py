# generator of retfmt306.as: 150 small domains (each adds formats) followed by a
# domain whose function returns three values, so that the Prog's return-format
# index is above 255.
lines = ['#include "aldor"', '#include "aldorio"', 'import from MachineInteger;']
for i in range(150):
    lines.append(f"D{i}: with {{ f{i}: MachineInteger -> MachineInteger }} == add {{ f{i}(x: MachineInteger): MachineInteger == {{ h(y: MachineInteger): MachineInteger == x + y + {i}; h(x) }} }}")
lines.append("Z: with { g: (MachineInteger, MachineInteger) -> (MachineInteger, MachineInteger, MachineInteger) } == add { g(x: MachineInteger, y: MachineInteger): (MachineInteger, MachineInteger, MachineInteger) == (y, x, x+y) }")
lines.append("import from Z;")
lines.append("(a1, b1, c1) := g(1, 2);")
lines.append("stdout << a1 << b1 << c1 << newline;")
open("retfmt306.as","w").write("\n".join(lines)+"\n")
