#!/bin/sh
# Shows the two observations on an unchanged tree (default /tmp/wt-probe).
TREE=${ALDOR_TREE:-/tmp/wt-probe}
HERE=$(cd "$(dirname "$0")" && pwd)
S=$TREE/aldor/aldor/src; L=$TREE/aldor/aldor/lib
W=$(mktemp -d /tmp/c05pre-x05.XXXXXX) || exit 2
case "$W" in /tmp/c05pre-x05.*) ;; *) exit 2;; esac
trap 'case "$W" in /tmp/c05pre-x05.*) rm -rf "$W";; esac' EXIT
al() { "$S/aldor" -Nfile="$S/aldor.conf" -I"$TREE/aldor/lib/aldor/include" -Y"$TREE/aldor/lib/aldor/src" -Y"$L/libfoam/al" -Y"$L/libfoamlib/al" "$@"; }
echo "== 1. Prog return format above 255 is stored modulo 256 in the .ao"
mkdir "$W/a" "$W/b"; cp "$HERE/retfmt306.as" "$W/a/"
( cd "$W/a" && al -Q0 -Fao -Ffm -Fc retfmt306.as )
( cd "$W/b" && al -Q0 -Ffm -Fc ../a/retfmt306.ao )
diff "$W/a/retfmt306.fm" "$W/b/retfmt306.fm"
diff "$W/a/retfmt306.c" "$W/b/retfmt306.c" | grep CF603_g
echo "== 2. a unit whose file name contains '_' cannot be found again by the interpreter"
mkdir "$W/c"; cp "$HERE/under_lib.as" "$HERE/under_client.as" "$W/c/"
( cd "$W/c" && al -Q0 -Fao under_lib.as && al -Q0 -Ginterp -laldor under_client.as ); echo "rc=$?"
