#include "foamlib"
import from Machine;
import { BIntShiftRem: (BInt, SInt) -> BInt; SIntToBInt: SInt -> BInt; BIntToSInt: BInt -> SInt } from Builtin;
import from SingleInteger;
s(x: SingleInteger): SInt == x pretend SInt;
p(x: SInt): () == print << (x pretend SingleInteger) << newline;
f(a: SInt, n: SInt): SInt == BIntToSInt(BIntShiftRem(SIntToBInt a, n));
p f(s 1099511627775, s 36);
p f(s 1099511627775, s 32);
p f(s 1099511627775, s 8);
