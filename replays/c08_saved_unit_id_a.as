#include "foamlib"
fa(n: SingleInteger): SingleInteger == n + 1;
