#include "foamlib"
macro Int == SingleInteger;
Bar: with { g: Int -> Int } == add {
  export { trp: Int -> Int } to Foreign C;
  trp(x: Int): Int == x + x;
  g(x: Int): Int == trp x;
}
