#include "aldor"
#include "aldorio"
import from MachineInteger;

counter: MachineInteger := 0;

bump(n: MachineInteger): MachineInteger == {
	free counter;
	counter := counter + 1;
	n
}

R ==> Record(x: MachineInteger);
setget(v: MachineInteger, r: R): MachineInteger == {
	r.x := 10;
	v
}

main(): () == {
	free counter;
	stdout << bump(counter) << newline;
	stdout << counter << newline;
	r: R := [3];
	stdout << setget(r.x, r) << newline;
}
main();
