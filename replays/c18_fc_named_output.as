#include "foamlib"
import from SingleInteger;
print << 1+2 << newline;
