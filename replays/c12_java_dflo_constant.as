#include "foamlib"
import from Machine;
import { DFloPlus: (DFlo, DFlo) -> DFlo; DFlo1: () -> DFlo; DFloTimes: (DFlo,DFlo)->DFlo; DFloEQ: (DFlo,DFlo) -> Bool; DFlo0: () -> DFlo } from Builtin;
y: DFlo := DFloPlus(DFloPlus(DFlo1(),DFlo1()),DFlo1());
three(): DFlo == y;
b: Boolean := DFloEQ(three(), DFlo0()) pretend Boolean;
print << "three = zero: " << b << newline;
