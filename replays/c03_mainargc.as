#include "aldor"
#include "aldorio"
import from CommandLine, MachineInteger, Array String;
stdout << #(arguments) << newline;
