"""C11  Big-integer arithmetic is exact -- thin, structural.

Exactness over operand values is a run-time quantity and is not decided here.
What the shape of bigint.c / dword.c does show, and what these rules decide:

N1  the word add/multiply steps that every multi-word operation is built from
    take the carry of each two-term sum (shared with C04-B8);
N2  no `1 << n` evaluated in int with a variable count inside 64-bit
    arithmetic in bigint.c and dword.c (shared with C04-B7);
N3  sign reduction: bintPlus, bintMinus, bintTimes and bintDivide handle a
    negative operand by negating it in place, calling an operation on the
    magnitudes and negating results.  For each of the three sign cases the
    statements are executed over a sign algebra (values are +-A, +-B and
    linear / product / quotient / remainder forms over the magnitudes A, B);
    the result must equal the operation's definition (quotient truncated
    toward zero, remainder with the sign of the dividend), the operands must
    be handed on non-negative (the recursion terminates), be back at their
    original sign afterwards (they belong to the caller), and where both are
    negated the second negation must be skipped when both are one object;
N4  bintMod gives its result the sign of the dividend, taken before the
    dividend is replaced by its magnitude;
N5  the single-word fast path of bintMod (bintModi, signed temporary) is
    entered only for divisors below the sign bit of a word.
"""
from . import common, c04_builtins
from .common import AnalysisBroken, walk, strip, render, calls, const_value

EXPLANATION = (
    "C11, thin structural part only. N1: in dword.c (runtime configuration) every word sum of xxPlusStep/xxTimesStep has two terms "
    "and is followed by the carry test against one of them. N2: width lint (int-typed `literal << variable` flowing into 64-bit "
    "arithmetic) over bigint.c and dword.c. N3: the three negative-operand cases of bintPlus/bintMinus/bintTimes/bintDivide are "
    "executed by the checker over a sign algebra on the magnitudes (in-place negation flips a coefficient; a call of "
    "bintPlus/Minus/Times/Divide on the current values is taken to return its mathematical result); result = definition, operands "
    "non-negative at the inner call, operands restored, aliased double negation guarded by !Beq(a,b). N4: bintMod negates its "
    "result exactly when the dividend was negative on entry. Nothing is decided about digit-level arithmetic (iintPlus, iintTimes, "
    "iintDivide), conversions or normalisation: those are numerical and out of reach of a static argument here.")

OPS = {"bintPlus": "+", "bintMinus": "-", "bintTimes": "*", "bintDivide": "/"}


def _neg(v):
    return {k: -c for k, c in v.items()}


def _add(x, y, sign=1):
    out = dict(x)
    for k, c in y.items():
        out[k] = out.get(k, 0) + sign * c
    return {k: c for k, c in out.items() if c}


def _negated_var(st):
    """variable of a BINT_NEGATE(x) statement, or None"""
    if st["k"] == "CompoundStmt" and st.get("mac") == "BINT_NEGATE":
        vs = [y["n"] for y in walk(st) if y["k"] == "DeclRefExpr" and y.get("dk") in ("var", "parm")]
        return vs[0] if vs else None
    return None


def sign_cases(rep):
    f = common.extract("bigint.c", "runtime", trees=list(OPS))
    n = 0
    for name, op in OPS.items():
        fn = f.func(name)
        ps = [p["n"] for p in fn["params"]]
        if ps[-2:] != ["a", "b"]:
            raise AnalysisBroken("%s: operand parameters are no longer (a, b)" % name)
        flags = {}
        for x in walk(fn["body"]):
            if x["k"] == "BinaryOperator" and x["op"] == "=":
                l, r = strip(x["c"][0]), strip(x["c"][1])
                if l is not None and r is not None and l["k"] == "DeclRefExpr" and r["k"] == "CallExpr" and r.get("callee") == "bintIsNeg":
                    a0 = strip(r["c"][1])
                    if a0 is not None and a0["k"] == "DeclRefExpr":
                        flags[l["n"]] = a0["n"]
        fa = [k for k, v in flags.items() if v == "a"]
        fb = [k for k, v in flags.items() if v == "b"]
        if len(fa) != 1 or len(fb) != 1:
            raise AnalysisBroken("%s: sign flags (x = bintIsNeg(a), y = bintIsNeg(b)) not found" % name)
        fa, fb = fa[0], fb[0]
        top = None
        for x in walk(fn["body"]):
            if x["k"] == "IfStmt":
                c = strip(x["c"][0])
                if c is not None and c["k"] == "BinaryOperator" and c["op"] == "&&" and \
                        {(strip(c["c"][0]) or {}).get("n"), (strip(c["c"][1]) or {}).get("n")} == {fa, fb}:
                    top = x
        if top is None:
            raise AnalysisBroken("%s: `if (aNeg && bNeg)` chain not found" % name)
        second = top["c"][2] if len(top["c"]) > 2 else None
        third = second["c"][2] if second is not None and second["k"] == "IfStmt" and len(second["c"]) > 2 else None
        if second is None or third is None or third["k"] != "IfStmt" or (strip(second["c"][0]) or {}).get("n") != fa \
                or (strip(third["c"][0]) or {}).get("n") != fb:
            raise AnalysisBroken("%s: the chain is not (both negative) / (a negative) / (b negative) / general" % name)
        for label, branch, sa, sb in (("both-negative", top["c"][1], -1, -1), ("a-negative", second["c"][1], -1, 1),
                                      ("b-negative", third["c"][1], 1, -1)):
            n += 1
            key = "sign-case:%s:%s" % (name, label)
            where = "bigint.c:%d (%s)" % (branch["l"], name)
            val = {"a": {"A": sa}, "b": {"B": sb}}
            problems = []
            stmts = [st for st in (branch["c"] if branch["k"] == "CompoundStmt" else [branch]) if st is not None and st["k"] != "NullStmt"]
            called = False
            for st in stmts:
                v = _negated_var(st)
                if v is not None:
                    if v not in val:
                        raise AnalysisBroken("%s: %s negated before it has a value" % (name, v))
                    if label == "both-negative" and v == "b":
                        problems.append("the second operand is negated without the `!Beq(a,b)` guard: when both operands are the "
                                        "same object (x*x, x+x) it is negated twice")
                    val[v] = _neg(val[v])
                    continue
                if st["k"] == "IfStmt" and any(y.get("mac") == "Beq" for y in walk(st["c"][0])):
                    v = _negated_var(st["c"][1]) if st["c"][1] is not None else None
                    if v is None:
                        raise AnalysisBroken("%s: `if (!Beq(a,b))` does not guard a negation" % name)
                    val[v] = _neg(val[v])
                    continue
                if st["k"] == "BinaryOperator" and st["op"] == "=":
                    l, r = strip(st["c"][0]), strip(st["c"][1])
                    if l is None or r is None or l["k"] != "DeclRefExpr" or r["k"] != "CallExpr" or r.get("callee") not in OPS:
                        raise AnalysisBroken("%s: statement `%s` in the %s case not understood" % (name, render(st)[:50], label))
                    args = [strip(a) for a in r["c"][1:]]
                    out_r = None
                    if r["callee"] == "bintDivide":
                        o = args[0]
                        if o is None or o["k"] != "UnaryOperator" or o.get("op") != "&":
                            raise AnalysisBroken("%s: remainder argument of bintDivide is not `&var`" % name)
                        out_r = strip(o["c"][0])["n"]
                        args = args[1:]
                    if len(args) != 2 or any(a is None or a["k"] != "DeclRefExpr" or a["n"] not in val for a in args):
                        raise AnalysisBroken("%s: operands of the inner %s are not the operand variables" % (name, r["callee"]))
                    x, y = val[args[0]["n"]], val[args[1]["n"]]
                    called = True
                    if any(c < 0 for c in list(x.values()) + list(y.values())):
                        problems.append("the inner %s is called with an operand that is still negative: the same case is entered "
                                        "again and the recursion does not end" % r["callee"])
                    o2 = OPS[r["callee"]]
                    if o2 == "+":
                        val[l["n"]] = _add(x, y)
                    elif o2 == "-":
                        val[l["n"]] = _add(x, y, -1)
                    elif o2 == "*":
                        if set(x) | set(y) != {"A", "B"} or len(x) != 1 or len(y) != 1:
                            raise AnalysisBroken("%s: product of something other than the two operands" % name)
                        val[l["n"]] = {"A*B": list(x.values())[0] * list(y.values())[0]}
                    else:
                        if list(x) != ["A"] or list(y) != ["B"]:
                            problems.append("the inner division is not (dividend, divisor) in that order")
                            val[l["n"]], val[out_r] = {"?": 1}, {"?": 1}
                        else:
                            val[l["n"]] = {"A/B": x["A"] * y["B"]}
                            val[out_r] = {"A%B": x["A"]}
                    continue
                raise AnalysisBroken("%s: statement kind %s in the %s case" % (name, st["k"], label))
            if not called:
                raise AnalysisBroken("%s: no inner operation in the %s case" % (name, label))
            want = {"+": {"r": {"A": sa, "B": sb}}, "-": {"r": _add({"A": sa}, {"B": sb}, -1)},
                    "*": {"r": {"A*B": sa * sb}}, "/": {"q": {"A/B": sa * sb}, "r": {"A%B": sa}}}[op]
            for var, w in want.items():
                got = val.get(var)
                if got != w:
                    problems.append("result '%s' is %s, the definition gives %s" % (var, _show(got), _show(w)))
            if val["a"] != {"A": sa} or val["b"] != {"B": sb}:
                problems.append("the caller's operands are left negated (a = %s, b = %s on exit)" % (_show(val["a"]), _show(val["b"])))
            if problems:
                rep.violation("N3", key, where, "%s, %s: %s" % (name, label.replace("-", " "), "; ".join(problems)))
            else:
                rep.ok("N3", key, sample={"result": {k: _show(v) for k, v in val.items() if k not in ("a", "b")}} if n <= 3 else None)
    rep.floor("sign cases of the four operations", n, 12)


def _show(v):
    if v is None:
        return "unset"
    if not v:
        return "0"
    return " ".join(("+" if c > 0 else "-") + ("" if abs(c) == 1 else str(abs(c))) + k for k, c in sorted(v.items()))


def mod_sign(rep):
    f = common.extract("bigint.c", "runtime", trees=["bintMod"], cfg=["bintMod"])
    fn = f.func("bintMod")
    cfg = common.CFG(fn)
    flag = None
    for bid, j, x in cfg.events(lambda n: n["k"] == "BinaryOperator" and n["op"] == "="):
        l, r = strip(x["c"][0]), strip(x["c"][1])
        if l is not None and r is not None and l["k"] == "DeclRefExpr" and r["k"] == "CallExpr" and r.get("callee") == "bintIsNeg" \
                and (strip(r["c"][1]) or {}).get("n") == "a":
            flag = (l["n"], bid, j)
    if flag is None:
        raise AnalysisBroken("bintMod: `neg = bintIsNeg(a)` not found")
    where = "bigint.c:%d (bintMod)" % fn["l"]
    # the flag is taken before a is reassigned
    reassign = lambda n: n["k"] == "BinaryOperator" and n["op"] == "=" and (strip(n["c"][0]) or {}).get("n") == "a"
    early = cfg.path_avoiding(cfg.entry, reassign, lambda n: n["k"] == "BinaryOperator" and n["op"] == "=" and
                              (strip(n["c"][0]) or {}).get("n") == flag[0])
    if early is None:
        rep.ok("N4", "mod:sign-flag-from-original-dividend")
    else:
        rep.violation("N4", "mod:sign-flag-from-original-dividend", where, "the dividend is replaced before its sign is recorded")
    # the result is negated exactly under that flag
    negs = cfg.events(lambda n: n["k"] == "BinaryOperator" and n["op"] == "=" and (strip(n["c"][0]) or {}).get("n") == "r" and
                      any(c.get("callee") in ("xintNegate", "bintNegate") for c in calls(n["c"][1])))
    if len(negs) != 1:
        raise AnalysisBroken("bintMod: expected one negation of the result (found %d)" % len(negs))
    par = common.parents(fn["body"])
    cur, guard = negs[0][2], None
    while cur["id"] in par and guard is None:
        p_ = par[cur["id"]]
        if p_["k"] == "IfStmt" and any(y is cur for y in walk(p_["c"][1])):
            guard = strip(p_["c"][0])
        cur = p_
    if guard is not None and guard["k"] == "DeclRefExpr" and guard["n"] == flag[0]:
        rep.ok("N4", "mod:result-negated-iff-dividend-negative")
    else:
        rep.violation("N4", "mod:result-negated-iff-dividend-negative", where,
                      "the remainder is negated under `%s`, not under the dividend's sign flag '%s': the remainder must carry the "
                      "sign of the dividend" % (render(guard)[:40] if guard else "no condition", flag[0]))


def modi_precondition(rep):
    """bintModi does its Horner step in `long tmp` and decides `if (tmp < 0) tmp += b`: that is modular arithmetic only while the
    divisor is below 2^(W-1) for a W-bit long.  bintMod may therefore send to it only divisors of at most W-1 bits: the guard on
    bintLength(b) must be strict against the word width."""
    f = common.extract("bigint.c", "runtime", trees=["bintMod", "bintModi"])
    callee = f.func("bintModi")
    signed_use = [x for x in walk(callee["body"]) if x["k"] == "BinaryOperator" and x["op"] == "<" and
                  (x["c"][0].get("tc") or "").startswith("i") and common.const_value(x["c"][1]) == 0]
    if not signed_use:
        raise AnalysisBroken("bintModi no longer tests a signed temporary against 0: its divisor range has to be re-derived")
    fn = f.func("bintMod")
    par = common.parents(fn["body"])
    guarded = []
    for c in calls(fn["body"], "bintModi"):
        a1 = strip(c["c"][2])
        if a1 is None or not any(y.get("callee") == "bintToULong" for y in walk(a1)):
            continue                      # the immediate divisor path: an immediate is far below 2^(W-1)
        cur, cond = c, None
        while cur["id"] in par and cond is None:
            p_ = par[cur["id"]]
            if p_["k"] == "IfStmt" and any(y is cur for y in walk(p_["c"][1])):
                cond = strip(p_["c"][0])
            cur = p_
        guarded.append((c, cond))
    if len(guarded) != 1:
        raise AnalysisBroken("bintMod: expected one bintModi(a, bintToULong(b)) call (found %d)" % len(guarded))
    c, cond = guarded[0]
    where = "bigint.c:%d (bintMod)" % c["l"]
    if cond is not None and cond["k"] == "BinaryOperator" and cond["op"] in (">", ">=") and \
            any(y.get("callee") == "bintLength" for y in walk(cond["c"][1])):
        cond = dict(cond, op={">": "<", ">=": "<="}[cond["op"]], c=[cond["c"][1], cond["c"][0]])     # K > len  ==  len < K
    if cond is None or cond["k"] != "BinaryOperator" or cond["op"] not in ("<", "<=") or \
            not any(y.get("callee") == "bintLength" for y in walk(cond["c"][0])):
        raise AnalysisBroken("bintMod: the guard of the single-word path is not `bintLength(b) < / <= constant`")
    k = common.const_value(cond["c"][1])
    if k is None:
        raise AnalysisBroken("bintMod: the bound of the single-word path is not a constant")
    bits = k - 1 if cond["op"] == "<" else k
    word = 64
    if bits <= word - 1:
        rep.ok("N5", "mod:single-word-path-below-sign-bit", sample={"divisor bits at most": bits})
    else:
        rep.violation("N5", "mod:single-word-path-below-sign-bit", where,
                      "bintMod sends divisors of up to %d bits to bintModi, whose Horner step works in a signed %d-bit temporary "
                      "(`if (tmp < 0) tmp += b`): for a divisor with the top bit set the correction is skipped and the remainder is "
                      "off by a multiple of 2^%d mod b; quotients still come from bintDivide, so a = q*b + r fails" % (bits, word, word))


def qhat_carry(rep):
    """Knuth's step D3 corrects the estimated quotient digit with the test v2*qhat > rhat*b + u[j+2], which is meaningful only
    while the partial remainder rhat is a single digit.  iintDivide adds v1 to rhat with the carry step PlusStep(k, rhat, rhat,
    v1, 0): when it carries (k set) the test must not be made -- rhat has then lost its top bit and the comparison can succeed
    wrongly, leaving a quotient digit that is too small, for which the algorithm has no repair.  On the CFG: from every carry
    step into rhat no path reaches a comparison that reads rhat without first reading that step's carry."""
    f = common.extract("bigint.c", "runtime", trees=["iintDivide"], cfg=["iintDivide"])
    fn = f.func("iintDivide")
    cfg = common.CFG(fn)
    steps = []          # (node of `X = r_`, X, K, node of `K = k_`)
    for blk in walk(fn["body"]):
        if blk["k"] != "CompoundStmt":
            continue
        names = set(d["n"] for st in blk["c"] if st is not None and st["k"] == "DeclStmt" for d in st.get("decls", []))
        if not {"r_", "k_"} <= names:
            continue
        x = kk = None
        for st in blk["c"]:
            if st is not None and st["k"] == "BinaryOperator" and st["op"] == "=":
                l, r = strip(st["c"][0]), strip(st["c"][1])
                if l is not None and l["k"] == "DeclRefExpr" and r is not None and r["k"] == "DeclRefExpr":
                    if r["n"] == "r_":
                        x = (st, l["n"])
                    elif r["n"] == "k_":
                        kk = (st, l["n"])
        if x and kk:
            steps.append((x[0], x[1], kk[1], kk[0]))
    into_rhat = [s_ for s_ in steps if s_[1] == "rhat"]
    if len(into_rhat) < 2:
        raise AnalysisBroken("iintDivide: step D3 no longer adds to the partial remainder with the single-digit carry step (found %d "
                             "PlusStep(.., rhat, ..)): whether the quotient-digit estimate is still exact has to be re-derived by hand"
                             % len(into_rhat))
    # comparisons that read rhat: the `h2_ = (rhat)` initialiser of TestGTDouble
    def cmp_read(e):
        return e["k"] == "DeclRefExpr" and e["n"] == "rhat" and e.get("id") in cmp_ids
    cmp_ids = set()
    for blk in walk(fn["body"]):
        if blk["k"] == "DeclStmt":
            for d in blk.get("decls", []):
                if d["n"] in ("h2_", "h1_") and d.get("init") is not None:
                    for y in walk(d["init"]):
                        if y["k"] == "DeclRefExpr" and y["n"] == "rhat":
                            cmp_ids.add(y["id"])
    if not cmp_ids:
        raise AnalysisBroken("iintDivide: the comparison that reads rhat (TestGTDouble) was not found")
    lhs_ids = set()
    for x in walk(fn["body"]):
        if x["k"] == "BinaryOperator" and x["op"] == "=":
            l = strip(x["c"][0])
            if l is not None and l["k"] == "DeclRefExpr":
                lhs_ids.add(l["id"])
    for n, (xs, xn, kn, ks) in enumerate(into_rhat, 1):
        ev = cfg.events(lambda e, ks=ks: e.get("id") == ks["id"])
        if not ev:
            raise AnalysisBroken("iintDivide: carry store not in the CFG")
        b, i, _ = ev[0]
        pth = cfg.path_avoiding(b, cmp_read, lambda e, kn=kn: e["k"] == "DeclRefExpr" and e["n"] == kn and e.get("id") not in lhs_ids,
                                src_idx=i)
        key = "qhat-test-only-without-carry@%d" % n
        where = "bigint.c:%d (iintDivide)" % xs["l"]
        if pth is None:
            rep.ok("N6", key, sample={"carry": kn})
        else:
            rep.violation("N6", key, where,
                          "after this carry step into rhat a path reaches the comparison v2*qhat > (rhat, u[j+2]) without looking at "
                          "the carry `%s`: when the sum carried, rhat is no longer the partial remainder and the test can lower qhat "
                          "wrongly; quotient and remainder are then both wrong (a != q*b + r), for operands whose leading remainder "
                          "digit equals the divisor's leading digit" % kn, detail={"cfg_path": pth[:10]})


def order_duals(rep):
    """The order of two stored big integers: decided by the signs, then by the lengths, then by the highest differing digit --
    reversed when both are negative.  bintLT and bintGT look at their operands through comparisons only, so each is a function
    of a finite abstract input (two signs, the order of the lengths, the order of the first differing digit): ordereval.py
    evaluates the C tree on all 36 of them and the result is compared with the order of the integers they describe.  A
    comparison that forgets the sign on one of its two steps orders -2^100 above -2^70."""
    from . import ordereval
    f = common.extract("bigint.c", "runtime", all_trees=True)
    n = 0
    for name, which in (("bintLT", "LT"), ("bintGT", "GT")):
        ev = ordereval.OrderEval(f)
        bad = []
        for neg, L, D in ordereval.inputs():
            try:
                got = ev.run(name, neg, L, D)
            except ordereval.Refused as e:
                raise AnalysisBroken("%s: %s -- the comparison of two stored integers has been restructured beyond what the "
                                     "ordering evaluator reads and must be re-derived by hand" % (name, e))
            if not isinstance(got, int):
                raise AnalysisBroken("%s returns %r for an abstract input" % (name, got))
            n += 1
            want = ordereval.expected(which, neg, L, D)
            if bool(got) != bool(want):
                bad.append((neg, L, D, got, want))
        key = "order-duals:%s" % name
        if not bad:
            rep.ok("N7", key, sample={"abstract inputs": 36})
        else:
            neg, L, D, got, want = bad[0]
            rep.violation("N7", key, "bigint.c:%d (%s)" % (f.func(name)["l"], name),
                          "%s answers %d where the integers are ordered %d, for two stored integers with isNeg(a)=%d, isNeg(b)=%d, "
                          "length(a) %s length(b)%s (%d of the 36 abstract inputs are wrong): one step of the comparison does not "
                          "take the sign into account, so two negative integers of different lengths (or with different leading "
                          "digits) are ordered the wrong way round"
                          % (name, got, want, neg["a"], neg["b"], L,
                             (", first differing digit of a %s that of b" % D) if L == "=" and D != "=" else
                             (", all digits equal" if L == "=" else ""), len(bad)))
    rep.floor("abstract inputs of the order routines evaluated", n, 72)


def carry_chain(rep):
    """Schoolbook addition, subtraction and multiplication run a carry through the digits: each round of the digit loop is one
    PlusStep/MinusStep/TimesStep(kout, r, ..., kin) with kout and kin the same variable.  The step does two things -- it
    computes the digit and it deposits the incoming carry -- so a round that is skipped (a `continue` on a zero digit, a step
    moved under an `if`) leaves the carry of the previous round to be added one place too high.  For every chained step inside
    a loop: nothing but blocks lies between the step and its loop, and no statement before it in the round can leave the round."""
    f = common.extract("bigint.c", "runtime", all_trees=True)
    n = 0
    for name, fn in sorted(f.funcs.items()):
        if "body" not in fn or not fn.get("file", "").endswith("bigint.c"):
            continue
        par = common.parents(fn["body"])
        for x in walk(fn["body"]):
            m = x.get("mac") or ""
            if not (m.endswith("Step") and x["k"] == "CompoundStmt" and (par.get(x["id"]) or {}).get("mac") != m):
                continue
            sts = [c for c in x["c"] if c is not None]
            if not sts or sts[0]["k"] != "DeclStmt" or sts[-1]["k"] != "BinaryOperator" or sts[-1]["op"] != "=":
                raise AnalysisBroken("%s:%d: the expansion of %s is no longer `{ sum = a op b + kin; ...; kout = carry; }`" % (name, x["l"], m))
            kout = common.render(strip(sts[-1]["c"][0]))
            init = sts[0]["decls"][0].get("init")
            chained = init is not None and any(y["k"] == "DeclRefExpr" and y["n"] == kout for y in walk(init)) and \
                (strip(sts[-1]["c"][0]) or {}).get("k") == "DeclRefExpr"
            # the loop of this step
            cur, between, loop = x, [], None
            while cur["id"] in par:
                p_ = par[cur["id"]]
                if p_["k"] in ("ForStmt", "WhileStmt", "DoStmt"):
                    loop = p_
                    break
                between.append((p_, cur))
                cur = p_
            if loop is None or not chained:
                continue
            n += 1
            key = "carry-chain:%s:%s@%d" % (name, m, n)
            where = "bigint.c:%d (%s)" % (x["l"], name)
            cond = [p_ for p_, _ in between if p_["k"] != "CompoundStmt"]
            leaves = []
            for p_, child in between:
                if p_["k"] == "CompoundStmt":
                    for st in p_["c"]:
                        if st is child:
                            break
                        leaves += [y for y in walk(st) if y["k"] in ("ContinueStmt", "BreakStmt", "GotoStmt", "ReturnStmt")]
            if cond:
                rep.violation("N8", key, where,
                              "the step that carries `%s` from digit to digit runs under a condition (%s at line %d) inside its loop: in a "
                              "round where it is skipped the incoming carry is not deposited and is added one place too high in the "
                              "next round (a product with a zero digit inside the longer operand comes out wrong)"
                              % (kout, cond[0]["k"], cond[0]["l"]))
            elif leaves:
                rep.violation("N8", key, where,
                              "a `%s` at line %d can end the round before the step that carries `%s`: the carry of the previous round "
                              "is then not deposited at this digit and is added one place too high in the next round (a product "
                              "with a zero digit inside the longer operand comes out wrong)"
                              % (leaves[0]["k"].replace("Stmt", "").lower(), leaves[0]["l"], kout))
            else:
                rep.ok("N8", key, sample={"carry": kout})
    rep.floor("chained carry steps in digit loops", n, 8)


def chunk_power(rep):
    """Text conversion works a whole digit at a time: the text radix is raised to the largest power `rio` that can be used as a
    one-digit multiplier or divisor, i.e. rio < BINT_RADIX = 2^32 (the multiplier is handed to a 32-bit digit parameter).  The
    decimal loops are written `10*rio <= BINT_RADIX`; that is the same thing only because no power of 10 equals 2^32.  For a
    radix that is a power of two (2, 4, 16 -- and any variable radix may be one) `<=` lets rio reach 2^32 exactly, the digit
    parameter receives 0, and the accumulated value is discarded at every step: a long 16r.. literal keeps only its last eight
    digits.  Every loop of bigint.c that bounds a growing power against BINT_RADIX uses `<`, or `<=` with a constant radix that
    is not a power of two."""
    f = common.extract("bigint.c", "runtime", all_trees=True)
    n = 0
    for name, fn in sorted(f.funcs.items()):
        if "body" not in fn or not fn.get("file", "").endswith("bigint.c"):
            continue
        for lp in walk(fn["body"]):
            if lp["k"] not in ("ForStmt", "WhileStmt"):
                continue
            cond = strip(lp["c"][-3]) if lp["k"] == "ForStmt" else strip(lp["c"][0])
            if cond is None or cond["k"] != "BinaryOperator" or cond["op"] not in ("<", "<="):
                continue
            rhs = cond["c"][1]
            if not any((y.get("mac") == "BINT_RADIX") for y in walk(rhs)) or const_value(rhs) is None:
                continue
            lhs = strip(cond["c"][0])
            if lhs is None or lhs["k"] != "BinaryOperator" or lhs["op"] != "*":
                continue
            n += 1
            key = "chunk-power-below-radix:%s@%d" % (name, n)
            where = "bigint.c:%d (%s)" % (lp["l"], name)
            a, b = strip(lhs["c"][0]), strip(lhs["c"][1])
            consts = [const_value(x) for x in (a, b) if const_value(x) is not None]
            if cond["op"] == "<":
                rep.ok("N10", key)
            elif consts and all(c > 1 and (c & (c - 1)) != 0 for c in consts):
                rep.ok("N10", key, sample={"radix": consts[0], "why": "no power of %d equals 2^32" % consts[0]})
            else:
                rep.violation("N10", "chunk-power-below-radix:%s" % name, where,
                              "the power of the text radix is allowed to reach BINT_RADIX itself (`%s`) for a radix that can be a "
                              "power of two: for radix 2, 4 or 16 the multiplier becomes 2^32, is cut to 0 when passed as a digit, and "
                              "the number scanned keeps only its last chunk (`16r1000000000000000000CD` reads as 205)" % render(cond)[:60])
    rep.floor("loops bounding a power of the text radix by BINT_RADIX", n, 1)


def immediate_range(rep):
    """Small integers are kept in the pointer word itself; an immediate is negated in place, without a range check (bintNegate,
    the BINT_NEGATE macro, and through them times -1, mod, gcd, abs).  That is right only because the immediate range is
    symmetric: INT_MIN_IMMED = -INT_MAX_IMMED.  Letting the smallest immediate be -2^62 (`the usual two's complement range`)
    is sound for the tag and wrong for every negation: -(-2^62) comes back as -2^62, x + (-x) is -2^63, and the value has two
    representations that bintEQ calls unequal.  The two bounds, as the front end evaluates them, add up to zero."""
    f = common.extract("bigint.c", "runtime", all_trees=True)
    vals = {}
    for fn in f.funcs.values():
        if "body" not in fn:
            continue
        par = common.parents(fn["body"])
        for x in walk(fn["body"]):
            m = x.get("imac") or x.get("mac")
            if m in ("INT_MIN_IMMED", "INT_MAX_IMMED") and x["k"] == "ParenExpr" and const_value(x) is not None:
                p_ = par.get(x["id"])
                if p_ is not None and (p_.get("imac") or p_.get("mac")) == m:
                    continue                      # an inner parenthesis of the same expansion
                vals.setdefault(m, set()).add(const_value(x))
    if set(vals) != {"INT_MIN_IMMED", "INT_MAX_IMMED"} or any(len(v) != 1 for v in vals.values()):
        raise AnalysisBroken("bigint.c: the values of INT_MIN_IMMED / INT_MAX_IMMED could not be read (%s)" % vals)
    lo, hi = vals["INT_MIN_IMMED"].pop(), vals["INT_MAX_IMMED"].pop()
    if lo >= 1 << 63:
        lo -= 1 << 64
    if hi >= 1 << 63:
        hi -= 1 << 64
    if lo + hi == 0 and lo < 0:
        rep.ok("N11", "immediate-range-symmetric", sample={"min": lo, "max": hi})
    else:
        rep.violation("N11", "immediate-range-symmetric", "bigint.c (INT_MIN_IMMED, INT_MAX_IMMED)",
                      "the immediate range is %d .. %d: an immediate is negated without a range check, so the negation of %d is "
                      "not representable as an immediate and comes back as the same value (x + (-x) = 2x, |x| negative, "
                      "(-x) mod m wrong) -- only for that one operand" % (lo, hi, lo if -lo > hi else hi))


def mask_count_bounded(rep):
    """`(1 << c) - 1` is the mask of the low c bits only while c is below the width of the shifted operand: at c == width the shift
    is undefined, and on the machines in question yields 1, so the mask is empty where it should be full.  bintShiftRem computes
    the count of its top place as `n - 32*(places-1)`, which is 32 exactly when n ends on a place boundary: the lowest 64 bits of
    2^128-1 came back as 2^32-1.  Instances: every low-bits mask of bigint.c whose count is a variable.  Rule: the count is
    bounded below the operand's width where the mask is built -- an enclosing `if`/conditional `c < K` (K <= width) with the mask
    on the true side (or `c >= K` with the mask on the false side), or an earlier clamp `if (c >= K) c = K2;` (K <= width,
    K2 < width) in an enclosing block."""
    f = common.extract("bigint.c", "runtime", all_trees=True)
    n = 0
    for name, fn in sorted(f.funcs.items()):
        if "body" not in fn or not fn.get("file", "").endswith("bigint.c"):
            continue
        par = None
        for m in walk(fn["body"]):
            if not (m["k"] == "BinaryOperator" and m["op"] == "-" and const_value(m["c"][1]) == 1):
                continue
            sh = strip(m["c"][0])
            if sh is None or sh["k"] != "BinaryOperator" or sh["op"] != "<<" or const_value(sh["c"][0]) != 1:
                continue
            cnt = strip(sh["c"][1])
            if cnt is None or const_value(cnt) is not None:
                continue
            tc = sh.get("tc", "")
            if cnt["k"] != "DeclRefExpr" or not tc[1:].isdigit():
                raise common.AnalysisBroken("bigint.c:%d (%s): the count of the mask `%s` is not a variable, or the width of the "
                                            "shifted operand is unknown" % (m["l"], name, render(m)[:60]))
            width, c = int(tc[1:]), cnt["n"]
            if par is None:
                par = common.parents(fn["body"])
            n += 1
            key = "mask-count-below-width:%s:%s" % (name, c)

            def bound(cond):
                """(op, K) when cond compares the count with a constant"""
                cond = strip(cond)
                if cond is None or cond["k"] != "BinaryOperator" or cond["op"] not in ("<", "<=", ">", ">="):
                    return None
                l = strip(cond["c"][0])
                k = const_value(cond["c"][1])
                if l is None or l["k"] != "DeclRefExpr" or l["n"] != c or k is None:
                    return None
                return cond["op"], k

            def below(b, side):
                """the count is < width on that side of the test"""
                if b is None:
                    return False
                op, k = b
                if side:
                    return (op == "<" and k <= width) or (op == "<=" and k < width)
                return (op == ">=" and k <= width) or (op == ">" and k < width)

            ok, cur = False, m
            while not ok and cur["id"] in par:
                p_ = par[cur["id"]]
                if p_["k"] in ("IfStmt", "ConditionalOperator"):
                    b = bound(p_["c"][0])
                    in_then = any(y is cur for y in walk(p_["c"][1]))
                    in_else = len(p_["c"]) > 2 and p_["c"][2] is not None and any(y is cur for y in walk(p_["c"][2]))
                    ok = (in_then and below(b, True)) or (in_else and below(b, False))
                elif p_["k"] == "CompoundStmt":
                    for st in p_["c"]:
                        if st is None:
                            continue
                        if st is cur or any(y is cur for y in walk(st)):
                            break
                        if st["k"] == "IfStmt" and (len(st["c"]) < 3 or st["c"][2] is None):
                            b = bound(st["c"][0])
                            body = st["c"][1]
                            inner = [y for y in (body["c"] if body["k"] == "CompoundStmt" else [body]) if y is not None]
                            if b is not None and b[0] in (">=", ">") and len(inner) == 1:
                                a = strip(inner[0])
                                if a is not None and a["k"] == "BinaryOperator" and a["op"] == "=":
                                    l, k2 = strip(a["c"][0]), const_value(a["c"][1])
                                    if l is not None and l["k"] == "DeclRefExpr" and l["n"] == c and k2 is not None \
                                            and k2 < width and below(b, False):
                                        ok = True
                        elif any(y["k"] == "BinaryOperator" and y["op"] == "=" and (strip(y["c"][0]) or {}).get("n") == c
                                 for y in walk(st)):
                            ok = False          # assigned again after the clamp
                cur = p_
            if ok:
                rep.ok("N12", key + "@%d" % m["l"], sample={"mask": render(m)[:60], "width": width})
            else:
                rep.violation("N12", key, "bigint.c:%d (%s)" % (m["l"], name),
                              "`%s` is built in a %d-bit operand from the count `%s`, and nothing where it is built keeps the count "
                              "below %d: no enclosing test `%s < K`, no earlier clamp.  When the count equals the width (in "
                              "bintShiftRem: the requested bit count ends on a place boundary) the shift is undefined and gives an "
                              "empty mask on x86 -- the whole top place of the result is lost (the lowest 64 bits of 2^128-1 are "
                              "returned as 2^32-1)" % (render(m)[:60], width, c, width, c))
    rep.floor("low-bits masks with a variable count in bigint.c", n, 2)


def run(tier, only=None):
    rep = common.Report("C11", tier, EXPLANATION)
    c04_builtins.carry_steps(rep, rule="N1")
    n2 = 0
    for unit in ("bigint.c", "dword.c"):
        fx = common.extract(unit, "runtime", all_trees=True)
        sites = c04_builtins.narrow_shifts(fx, unit)
        n2 += 1
        for fname, line, txt in sites:
            rep.violation("N2", "narrow-shift:%s:%s" % (unit, fname), "%s:%d (%s)" % (unit, line, fname),
                          "`%s` is computed in 32-bit int and only then widened: for a count of 31 or more the mask or power is wrong"
                          % txt)
        if not sites:
            rep.ok("N2", "no-narrow-shift:" + unit, nontrivial=False)
    sign_cases(rep)
    mod_sign(rep)
    modi_precondition(rep)
    qhat_carry(rep)
    order_duals(rep)
    carry_chain(rep)
    chunk_power(rep)
    immediate_range(rep)
    mask_count_bounded(rep)
    from . import deadstore
    deadstore.report(rep, "N9", ("dword.c", "bigint.c", "foam_i.c"), floor_units=3)
    rep.floor("C11 structural obligations", rep.obligations, 15)
    rep.assumptions += ["a call of bintPlus/bintMinus/bintTimes/bintDivide on non-negative operands returns its mathematical result "
                        "(induction on the number of negative operands; the digit-level routines are not analysed)",
                        "BINT_NEGATE(x) negates x in place (macro body read: immediate -> negated immediate, allocated -> sign flag flipped)"]
    return rep
