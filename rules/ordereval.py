"""Abstract evaluation of a comparison routine over the finite domain of orderings.

bintLT(a, b) and bintGT(a, b) look at two stored big integers only through
  * their sign flags,
  * the order of their lengths            Placec(a) ? Placec(b),
  * the order of corresponding digits      Placev(a)[i] ? Placev(b)[i], scanned from the top.
Nothing else about the operands reaches the result, so the routine is a function of a finite abstract input:
  (isNeg(a), isNeg(b), order of the lengths in {<,=,>}, order of the first differing digit in {<,>} or `all equal`).
The evaluator below runs the C tree over that abstract input: member reads of the operands yield symbolic quantities,
a comparison of two quantities of the same family is answered from the abstract input, integers and Booleans are computed,
locals are tracked, calls of functions defined in the unit are entered.  The digit loop is evaluated as the scan it is: one
round on a pair of equal digits (which must go on), then one round on the first differing pair, then the exit (its header must
say that it scans downwards from the top digit).  Anything outside this vocabulary is refused (AnalysisBroken), never guessed.

The result for each of the 36 abstract inputs is compared with the order of the integers those inputs describe.
"""
from . import common
from .common import strip, walk, const_value, AnalysisBroken


class _Return(Exception):
    def __init__(self, v):
        self.v = v


class _Continue(Exception):
    pass


class _Break(Exception):
    pass


class Refused(AnalysisBroken):
    pass


def _cmp(op, o):
    """value of `x op y` when the order of x and y is o in '<', '=', '>'"""
    return {"<": o == "<", ">": o == ">", "<=": o in "<=", ">=": o in ">=", "==": o == "=", "!=": o != "="}[op]


FLIP = {"<": ">", ">": "<", "=": "="}


class OrderEval:
    def __init__(self, facts, operands=("a", "b"), depth=4):
        self.f = facts
        self.depth = depth

    # abstract input: neg = {"a": bool, "b": bool}; L, D in '<', '=', '>' (order of a's against b's)
    def run(self, fname, neg, L, D):
        fn = self.f.func(fname)
        ps = [p["n"] for p in fn.get("params", [])]
        if len(ps) != 2:
            raise Refused("%s: expected two operands" % fname)
        env = {ps[0]: ("P", "a"), ps[1]: ("P", "b")}
        self.neg, self.L, self.D = neg, L, D
        self.digit = D
        return self._call(fn, env, 0)

    def _call(self, fn, env, depth):
        if depth > self.depth:
            raise Refused("%s: call depth" % fn["n"])
        try:
            self._stmt(fn["body"], env, depth)
        except _Return as r:
            return r.v
        raise Refused("%s: falls off its end" % fn["n"])

    def _truth(self, v, where):
        if isinstance(v, (int, bool)):
            return bool(v)
        raise Refused("line %s: a decision on %r, which is not a function of signs and orderings" % (where.get("l"), v))

    def _stmt(self, s, env, depth):
        if s is None:
            return
        k = s["k"]
        if k == "CompoundStmt":
            for c in s["c"]:
                self._stmt(c, env, depth)
        elif k == "DeclStmt":
            for d in s.get("decls", []):
                env[d["n"]] = self._expr(d["init"], env, depth) if d.get("init") is not None else None
        elif k == "IfStmt":
            if self._truth(self._expr(s["c"][0], env, depth), s):
                self._stmt(s["c"][1], env, depth)
            elif len(s["c"]) > 2:
                self._stmt(s["c"][2], env, depth)
        elif k == "ReturnStmt":
            raise _Return(self._expr(s["c"][0], env, depth) if s.get("c") and s["c"][0] is not None else None)
        elif k == "ContinueStmt":
            raise _Continue()
        elif k == "BreakStmt":
            raise _Break()
        elif k in ("ForStmt", "WhileStmt"):
            self._loop(s, env, depth)
        elif k == "NullStmt":
            return
        else:
            self._expr(s, env, depth)

    def _loop(self, s, env, depth):
        body = s["c"][-1]
        # the loop must be the digit scan: its body subscripts the digit vectors with a variable that the header steps downwards
        idx = set()
        for y in walk(body):
            if y["k"] == "ArraySubscriptExpr":
                i = strip(y["c"][1])
                if i is not None and i["k"] == "DeclRefExpr":
                    idx.add(i["n"])
        if len(idx) != 1:
            raise Refused("line %s: a loop that is not a scan of the digit vectors by one index" % s.get("l"))
        iv = idx.pop()
        down = [y for y in walk(s) if y["k"] == "UnaryOperator" and y["op"] in ("--", "post--") and (strip(y["c"][0]) or {}).get("n") == iv]
        up = [y for y in walk(s) if y["k"] == "UnaryOperator" and y["op"] in ("++", "post++") and (strip(y["c"][0]) or {}).get("n") == iv]
        if not down or up:
            raise Refused("line %s: the digit scan does not run downwards from the top digit (the order of two integers of equal "
                          "length is decided by their highest differing digit)" % s.get("l"))
        rounds = ["="] if self.D == "=" else ["=", self.D]
        saved = self.digit
        try:
            for d in rounds:
                self.digit = d
                try:
                    self._stmt(body, env, depth)
                except _Continue:
                    continue
                except _Break:
                    break
        finally:
            self.digit = saved

    def _expr(self, e, env, depth):
        e0 = e
        e = strip(e)
        if e is None:
            raise Refused("empty expression")
        k = e["k"]
        if "cv" in e and k != "DeclRefExpr":
            return e["cv"]
        if "cv" in e0:
            return e0["cv"]
        if k == "IntegerLiteral":
            return e["v"]
        if k == "DeclRefExpr":
            if e["n"] in env:
                return env[e["n"]]
            raise Refused("line %s: reads %s" % (e.get("l"), e["n"]))
        if k == "MemberExpr":
            base = self._expr(e["c"][0], env, depth)
            if not (isinstance(base, tuple) and base[0] == "P"):
                raise Refused("line %s: member of %r" % (e.get("l"), base))
            if e["n"] == "isNeg":
                return int(self.neg[base[1]])
            if e["n"] == "placec":
                return ("L", base[1])
            if e["n"] == "placev":
                return ("V", base[1])
            raise Refused("line %s: reads field %s" % (e.get("l"), e["n"]))
        if k == "ArraySubscriptExpr":
            base = self._expr(e["c"][0], env, depth)
            if isinstance(base, tuple) and base[0] == "V":
                return ("D", base[1])
            raise Refused("line %s: subscript of %r" % (e.get("l"), base))
        if k == "UnaryOperator":
            op = e["op"]
            if op in ("++", "--", "post++", "post--"):
                return None
            v = self._expr(e["c"][0], env, depth)
            if op == "!":
                return int(not self._truth(v, e))
            if op == "-" and isinstance(v, int):
                return -v
            if op == "+" and isinstance(v, int):
                return v
            raise Refused("line %s: unary %s on %r" % (e.get("l"), op, v))
        if k == "ConditionalOperator":
            return self._expr(e["c"][1] if self._truth(self._expr(e["c"][0], env, depth), e) else e["c"][2], env, depth)
        if k in ("BinaryOperator", "CompoundAssignOperator"):
            op = e["op"]
            if op == "=":
                l = strip(e["c"][0])
                if l is None or l["k"] != "DeclRefExpr":
                    raise Refused("line %s: a store that is not to a local" % e.get("l"))
                try:
                    v = self._expr(e["c"][1], env, depth)
                except Refused:
                    v = None                       # a value that is only legal to carry, not to decide on (loop bounds)
                env[l["n"]] = v
                return v
            if op == "&&":
                return int(self._truth(self._expr(e["c"][0], env, depth), e) and self._truth(self._expr(e["c"][1], env, depth), e))
            if op == "||":
                return int(self._truth(self._expr(e["c"][0], env, depth), e) or self._truth(self._expr(e["c"][1], env, depth), e))
            if op == ",":
                self._expr(e["c"][0], env, depth)
                return self._expr(e["c"][1], env, depth)
            if e.get("mac") == "IsImmed" and op == "&":
                return 0                                  # both operands are stored integers in this analysis
            a = self._expr(e["c"][0], env, depth)
            b = self._expr(e["c"][1], env, depth)
            if op in ("<", ">", "<=", ">=", "==", "!="):
                if isinstance(a, tuple) and isinstance(b, tuple) and a[0] == b[0] and a[0] in ("L", "D"):
                    if a[1] == b[1]:
                        o = "="
                    else:
                        o = self.L if a[0] == "L" else self.digit
                        if a[1] == "b":
                            o = FLIP[o]
                    return int(_cmp(op, o))
                if isinstance(a, tuple) and isinstance(b, tuple) and a[0] == b[0] == "P" and op in ("==", "!="):
                    return int((a[1] == b[1]) == (op == "=="))       # two different stored integers
                if isinstance(a, int) and isinstance(b, int):
                    o = "<" if a < b else ">" if a > b else "="
                    return int(_cmp(op, o))
                raise Refused("line %s: compares %r with %r" % (e.get("l"), a, b))
            if isinstance(a, int) and isinstance(b, int):
                if op == "+":
                    return a + b
                if op == "-":
                    return a - b
                if op == "*":
                    return a * b
                if op == "^":
                    return a ^ b
                if op == "&":
                    return a & b
                if op == "|":
                    return a | b
            raise Refused("line %s: %r %s %r" % (e.get("l"), a, op, b))
        if k == "CallExpr":
            callee = e.get("callee")
            fn = self.f.funcs.get(callee)
            if fn is None or "body" not in fn:
                raise Refused("line %s: calls %s, which is not defined in the unit" % (e.get("l"), callee))
            args = [self._expr(x, env, depth) for x in e["c"][1:]]
            ps = [p["n"] for p in fn.get("params", [])]
            if len(ps) != len(args):
                raise Refused("line %s: arity of %s" % (e.get("l"), callee))
            return self._call(fn, dict(zip(ps, args)), depth + 1)
        raise Refused("line %s: %s is outside the vocabulary of the ordering domain" % (e.get("l"), k))


def expected(which, neg, L, D):
    """a < b (which = 'LT') or a > b ('GT') for the integers this abstract input describes"""
    if neg["a"] != neg["b"]:
        lt = neg["a"]
        return int(lt if which == "LT" else not lt)
    m = L if L != "=" else D
    if m == "=":
        return 0
    lt = (m == "<") != neg["a"]
    return int(lt if which == "LT" else not lt)


def inputs():
    for na in (False, True):
        for nb in (False, True):
            for L in "<=>":
                for D in "<=>":
                    yield {"a": na, "b": nb}, L, D
