"""C07: total on arbitrary text, honest exit status (structural part).

K1  no fixed-size array is indexed by a value that flowed from a plain char
    without a range proof (whole compiler).
K2  the error counter has exactly its three writers; every error/fatal message
    construction is preceded by the increment; the fatal path ends in exitFailure.
K3  the exit status is data-dependent on the error counter along
    main -> compCmd -> compFilesLoop -> comp{Source,Saved}File -> comsgErrorCount,
    the per-invocation total only grows, and the success-exit primitives are
    called only from a frozen, justified set of functions.
K4  the value returned from main cannot wrap to 0 in 8 bits.
"""
import json
import re
import os

from . import common
from .common import AnalysisBroken, strip, strip_noop, walk, calls, const_value, render

EXPLANATION = (
    "K1: every ArraySubscriptExpr of the compiler whose base is an array of known bound and whose index value originates from "
    "an lvalue of plain/signed char type (directly or through an integer local all of whose definitions are such loads) must "
    "be sanitised: converted through unsigned char with bound >= 256, masked, or dominated (in the CFG) by relational tests on "
    "the index variable that exclude negative values and values >= bound. K2: nErrors is written only by comsgVError and "
    "comsgVFatal (increment) and comsgInit (reset, guarded by !comsgIsInit); each comsgVDo(COMSG_ERROR|COMSG_FATAL) call is "
    "preceded by the increment on every path; comsgVFatal ends in exitFailure. K3: each function of the return chain returns "
    "a value whose intra-procedural definition closure contains the required callee; totErrors is only assigned 0 (once) or "
    "increased; calls of exitSuccess/exit(0) occur only in the frozen set of functions. K4: main's returned value is clamped "
    "or normalised so that an error total that is a multiple of 256 cannot become status 0. "
    "K5 (guard coverage over the IfState enumeration of include.c, by three-valued partial evaluation of the enclosing "
    "conditions with ifState fixed): at end of file, for every state other than the initial one the call "
    "inclError(ALDOR_E_InclIfEof) executes; with ifState at its initial value each of the #elseif/#else/#endif handlers "
    "reaches its inclError(ALDOR_E_InclUnbal...) call and nothing before the guarding statement leaves the function. "
    "K6: in the front-end units (include, scan, token, syscmd, linear, parseby, abnorm, macex, abcheck) every dereference of a list "
    "cell reached through the `rest` field of another cell (cdr(cdr(x)), car(cdr(x))) sits under an enclosing if/loop/&&/?: condition "
    "that establishes the inner `rest` non-null. Not decided: termination, parser recovery, other memory faults.")

FROZEN = os.path.join(os.path.dirname(__file__), "frozen")


# --------------------------------------------------------------------------
# K1
# --------------------------------------------------------------------------

_K1_FACTS = None


def _ascii_table_load(src):
    """src is `TABLE[i].field[j]`-like: a character of a string literal stored in the initialiser of a file-scope table,
    every string literal of which is 7-bit ASCII."""
    if _K1_FACTS is None:
        return False
    root = None
    seen_member = False
    for y in walk(src):
        if y["k"] == "MemberExpr":
            seen_member = True
        if y["k"] == "DeclRefExpr" and y.get("dk") == "var" and y.get("g") and y.get("tc") == "array":
            root = y["n"]
    if root is None or not seen_member:
        return False
    v = _K1_FACTS.vars.get(root)
    if v is None or v.get("init") is None or v["init"]["k"] != "InitListExpr":
        return False
    lits = [z for z in walk(v["init"]) if z["k"] == "StringLiteral"]
    if not lits:
        return False
    return all(all(ord(ch) < 128 for ch in (z.get("v") or "")) for z in lits)


def char_origin(n, charvars):
    """Description of the char lvalue the value of n comes from, or None.
    Returns ('sanitised', why) when the chain contains an unsigned-char
    conversion or a mask."""
    s = n
    while s is not None:
        k = s["k"]
        if k == "ParenExpr":
            s = s["c"][0]
            continue
        if k in ("ImplicitCastExpr", "CStyleCastExpr"):
            if s.get("tc") == "u8":
                inner = char_origin(s["c"][0], charvars)
                if inner and inner[0] == "char":
                    return ("uchar", "converted through unsigned char: " + inner[1], inner[2])
                return inner
            src = s["c"][0]
            if s.get("ck") == "LValueToRValue" and src.get("tc") in ("char", "schar"):
                if _ascii_table_load(src):
                    return None          # a character of a string literal in a constant table of the program, all ASCII
                return ("char", "load of " + render(src), "expr:" + render(strip_noop(src)))
            if s.get("ck") == "LValueToRValue" and src.get("tc") == "u8":
                return ("uchar", "load of unsigned char " + render(src), "expr:" + render(strip_noop(src)))
            s = src
            continue
        if k == "BinaryOperator" and s["op"] == "&":
            for a, b in ((s["c"][0], s["c"][1]), (s["c"][1], s["c"][0])):
                if const_value(b) is not None and const_value(b) >= 0 and char_origin(a, charvars):
                    return ("sanitised", "masked with %d" % const_value(b))
            return None
        if k == "DeclRefExpr" and s.get("did") in charvars:
            return ("char", "variable %s (assigned only from char loads)" % s["n"], s["did"])
        return None
    return None


def k1_digest(f):
    global _K1_FACTS
    _K1_FACTS = f
    out = {"sites": [], "nsub": 0}
    for name, fn in f.funcs.items():
        if "body" not in fn or not fn["file"].endswith(f.unit):
            continue
        assigns = {}
        for x in walk(fn["body"]):
            if x["k"] == "BinaryOperator" and x["op"] == "=":
                l = strip(x["c"][0])
                if l is not None and l["k"] == "DeclRefExpr" and l.get("dk") in ("var", "parm") and l.get("tc") not in ("char", "schar", "u8"):
                    assigns.setdefault(l["did"], []).append(x["c"][1])
            if x["k"] == "DeclStmt":
                for d in x["decls"]:
                    if d.get("init") is not None and d.get("tc") not in ("char", "schar", "u8"):
                        assigns.setdefault(d["did"], []).append(d["init"])
        charvars = set()
        for did, rhss in assigns.items():
            os_ = [char_origin(r, set()) for r in rhss]
            if rhss and all(o is not None and o[0] == "char" for o in os_):
                charvars.add(did)
        subs = [x for x in walk(fn["body"]) if x["k"] == "ArraySubscriptExpr"]
        out["nsub"] += len(subs)
        hits = []
        for x in subs:
            base = strip(x["c"][0])
            bound = base.get("bound") if base is not None else None
            o = char_origin(x["c"][1], charvars)
            if o is None:
                continue
            hits.append((x, bound, o, render(base)))
        if not hits:
            continue
        cfg = None
        for x, bound, o, basename in hits:
            site = {"unit": f.unit, "func": name, "line": x["l"], "expr": render(x), "bound": bound, "origin": o[1],
                    "base": basename}
            if bound is None:
                site["verdict"] = "unbounded-base"
            elif o[0] == "sanitised" or (o[0] == "uchar" and bound >= 256):
                site["verdict"] = "ok"
                site["why"] = o[1] + (", bound %d" % bound)
            else:
                # range tests on the index variable dominating the subscript
                did = o[2]
                if did is None:
                    site["verdict"] = "bad"
                    site["why"] = "plain char value used as index of an array of %d elements with no range test" % bound
                else:
                    if cfg is None:
                        cfg = common.CFG(fn)
                    lower, upper = _dominating_tests(cfg, fn, x, did, bound)
                    if o[0] == "uchar":
                        lower = True           # an unsigned char value is never negative
                    need_upper = bound < 256
                    if lower and (upper or not need_upper):
                        site["verdict"] = "ok"
                        site["why"] = "dominated by range tests on the index variable (lower%s)" % (", upper" if upper else "")
                    else:
                        site["verdict"] = "bad"
                        site["why"] = ("index variable may be negative (plain char is signed here) or >= %d; dominating tests "
                                       "found: lower=%s upper=%s" % (bound, lower, upper))
            out["sites"].append(site)
    return out


def _var_in_cmp(b, did):
    """relational test whose one side is the variable (possibly `(v = e)`)"""
    if b["k"] != "BinaryOperator" or b["op"] not in ("<", "<=", ">", ">=", "==", "!="):
        return None
    for i in (0, 1):
        s = strip(b["c"][i])
        if s is not None and s["k"] == "BinaryOperator" and s["op"] == "=":
            s = strip(s["c"][0])
        if s is not None and ((s["k"] == "DeclRefExpr" and s.get("did") == did) or
                              (isinstance(did, str) and did == "expr:" + render(strip_noop(b["c"][i])))):
            other = const_value(b["c"][1 - i])
            op = b["op"]
            if i == 1:
                op = {"<": ">", "<=": ">=", ">": "<", ">=": "<=", "==": "==", "!=": "!="}[op]
            return op, other
    return None


def _facts_from(cond, sense, did, bound, out):
    """Collect what `cond == sense` proves about the index value."""
    c = strip(cond)
    if c is None:
        return
    if c["k"] == "UnaryOperator" and c["op"] == "!":
        return _facts_from(c["c"][0], not sense, did, bound, out)
    if c["k"] == "BinaryOperator" and c["op"] == "&&":
        if sense:
            _facts_from(c["c"][0], True, did, bound, out)
            _facts_from(c["c"][1], True, did, bound, out)
        return
    if c["k"] == "BinaryOperator" and c["op"] == "||":
        if not sense:
            _facts_from(c["c"][0], False, did, bound, out)
            _facts_from(c["c"][1], False, did, bound, out)
        return
    t = _var_in_cmp(c, did) if c["k"] == "BinaryOperator" else None
    if t is None or t[1] is None:
        return
    op, k = t
    if not sense:
        op = {"<": ">=", "<=": ">", ">": "<=", ">=": "<", "==": "!=", "!=": "=="}[op]
    if op == ">=" and k >= 0:
        out.add("lower")
    if op == ">" and k >= -1:
        out.add("lower")
    if op == "<" and k <= bound:
        out.add("upper")
    if op == "<=" and k <= bound - 1:
        out.add("upper")
    if op == "==" and 0 <= k < bound:
        out.update(("lower", "upper"))


def _writes(node, did):
    """Does the statement write the index variable (or the pointer it is loaded through)?"""
    names = set()
    if isinstance(did, str) and did.startswith("expr:"):
        import re
        names = set(re.findall(r"[A-Za-z_]\w*", did[5:]))
    for x in walk(node):
        tgt = None
        if x["k"] in ("BinaryOperator", "CompoundAssignOperator") and x.get("op", "").endswith("=") and x["op"] not in ("==", "!=", "<=", ">="):
            tgt = strip(x["c"][0])
        elif x["k"] == "UnaryOperator" and x["op"] in ("++", "--", "post++", "post--"):
            tgt = strip(x["c"][0])
        if tgt is not None and tgt["k"] == "DeclRefExpr":
            if tgt.get("did") == did or tgt["n"] in names:
                return True
    return False


def _dominating_tests(cfg, fn, sub, did, bound=128):
    """Structural dominance: what do the enclosing conditions and the
    preceding guard statements prove about the index when the subscript is
    evaluated?  Returns (lower_proved, upper_proved)."""
    par = common.parents(fn["body"])
    facts = set()
    node = sub
    while True:
        p = par.get(node["id"])
        if p is None:
            break
        if p["k"] == "BinaryOperator" and p["op"] in ("||", "&&") and p["c"][1]["id"] == node["id"]:
            _facts_from(p["c"][0], p["op"] == "&&", did, bound, facts)
        elif p["k"] == "IfStmt":
            if p["c"][1] is not None and p["c"][1]["id"] == node["id"]:
                _facts_from(p["c"][0], True, did, bound, facts)
            elif p["c"][2] is not None and p["c"][2]["id"] == node["id"]:
                _facts_from(p["c"][0], False, did, bound, facts)
        elif p["k"] == "ConditionalOperator":
            if p["c"][1]["id"] == node["id"]:
                _facts_from(p["c"][0], True, did, bound, facts)
            elif p["c"][2]["id"] == node["id"]:
                _facts_from(p["c"][0], False, did, bound, facts)
        elif p["k"] == "CompoundStmt":
            # guards among the preceding siblings, as long as the variable is not written in between
            sibs = p["c"]
            idx = [i for i, st in enumerate(sibs) if st is not None and st["id"] == node["id"]][0]
            for i in range(idx - 1, -1, -1):
                st = sibs[i]
                if st is None:
                    continue
                g = None
                if st["k"] == "DoStmt":          # assert(c) == do { if (!(c)) _do_assert(...); } while (0)
                    ifs = [y for y in walk(st) if y["k"] == "IfStmt"]
                    if len(ifs) == 1 and ifs[0]["c"][1] is not None and common.ends_flow(_last_stmt(ifs[0]["c"][1])):
                        g = (ifs[0]["c"][0], False)
                elif st["k"] == "IfStmt" and st["c"][1] is not None and st["c"][2] is None and common.ends_flow(st["c"][1]):
                    g = (st["c"][0], False)
                if g is not None:
                    _facts_from(g[0], g[1], did, bound, facts)
                    continue
                if _writes(st, did):
                    break
        node = p
    return "lower" in facts, "upper" in facts


def _last_stmt(st):
    while st["k"] == "CompoundStmt" and st["c"]:
        st = st["c"][-1]
    return st


# --------------------------------------------------------------------------
# exit primitives + call graph digest
# --------------------------------------------------------------------------

def exits_digest(f):
    out = []
    for name, fn in f.funcs.items():
        if "body" not in fn or not fn["file"].endswith(f.unit):
            continue
        for c in calls(fn["body"]):
            cal = c.get("callee")
            if cal == "exitSuccess":
                out.append((f.unit, name, "exitSuccess", c["l"], _error_guarded(fn, c)))
            elif cal in ("exit", "_exit", "_Exit") and len(c["c"]) >= 2:
                v = const_value(c["c"][1])
                if v == 0:
                    out.append((f.unit, name, "exit(0)", c["l"], _error_guarded(fn, c)))
    return out


def _count_test(cond, fn):
    """(accessor name, True when the condition being true means 'no error counted') for a test of an error count, read through
    an accessor call or through a local initialised from one; None otherwise"""
    c = strip(cond)
    if c is None:
        return None

    def accessor(e):
        e = strip(e)
        if e is None:
            return None
        if e["k"] == "CallExpr" and (e.get("callee") or "").startswith("comsgError"):
            return e.get("callee")
        if e["k"] == "DeclRefExpr":
            vals = []
            for x in walk(fn["body"]):
                if x["k"] == "DeclStmt":
                    vals += [d["init"] for d in x.get("decls", []) if d["n"] == e["n"] and d.get("init") is not None]
                elif x["k"] == "BinaryOperator" and x["op"] == "=" and (strip(x["c"][0]) or {}).get("n") == e["n"]:
                    vals.append(x["c"][1])
            accs = set(accessor(v) for v in vals)
            if len(vals) >= 1 and len(accs) == 1 and None not in accs:
                return accs.pop()
        return None
    a = accessor(c)
    if a:
        return a, False                              # if (count) ...
    if c["k"] == "UnaryOperator" and c["op"] == "!":
        a = accessor(c["c"][0])
        return (a, True) if a else None
    if c["k"] == "BinaryOperator" and c["op"] in ("!=", ">", "==") and const_value(c["c"][1]) == 0:
        a = accessor(c["c"][0])
        return (a, c["op"] == "==") if a else None
    return None


def _error_guarded(fn, call):
    """the success exit is reached only when an error count is zero: it is immediately preceded, in the same block, by
    `if (count != 0) exitFailure();`, or it sits on the zero side of a test of the count.  Returns the accessor read."""
    par = common.parents(fn["body"])
    # (b) on the zero side of an enclosing test
    cur = call
    while cur["id"] in par:
        p_ = par[cur["id"]]
        if p_["k"] == "IfStmt":
            t = _count_test(p_["c"][0], fn)
            if t is not None:
                in_then = any(y is cur for y in walk(p_["c"][1]))
                in_else = len(p_["c"]) > 2 and p_["c"][2] is not None and any(y is cur for y in walk(p_["c"][2]))
                if (in_then and t[1]) or (in_else and not t[1]):
                    return t[0]
        cur = p_
    # (a) preceded by the failing exit
    ch, p = call, par.get(call["id"])
    while p is not None and p["k"] != "CompoundStmt":
        ch, p = p, par.get(p["id"])
    if p is None:
        return False
    sts = [x for x in p["c"] if x is not None]
    for i, st in enumerate(sts):
        if st["id"] == ch["id"]:
            break
    else:
        return False
    for prev in reversed(sts[:i]):
        if prev["k"] == "IfStmt" and prev["c"][2] is None:
            t = _count_test(prev["c"][0], fn)
            leaves = any(y.get("callee") == "exitFailure" for y in calls(prev["c"][1]))
            if t is not None and not t[1] and leaves:
                return t[0]           # the counter accessor the guard reads
        if prev["k"] not in ("NullStmt", "DeclStmt"):
            break
    return False


PARSER_DEPTH_CONFIRMED = 10000


def k16(rep):
    """Nesting depth.  The passes after the parser (abnorm, macex, scobind, tinfer, genfoam) recurse once or more per nesting
    level of the syntax tree on the C stack, and nothing in them bounds the depth.  The only bound on the depth of the tree they
    receive is the parser's stack limit YYMAXDEPTH: beyond it bison reports `memory exhausted` as an ordinary counted error.
    With the value confirmed here (bison's default, 10000) 150000-deep bracket/application nestings end in that diagnostic; a
    sub-agent measured the first stack overflow of abnorm at about 45000 levels on the default 8 MB stack.  The limit in the
    generated parser (macro value after preprocessing axl_y.c, so a definition in the prologue of axl.z is seen) must not be
    raised above the confirmed value."""
    defs = common.macro_defs("axl_y.c")
    if "YYMAXDEPTH" not in defs:
        raise AnalysisBroken("axl_y.c: YYMAXDEPTH is not defined after preprocessing (parser skeleton changed?)")
    txt = defs["YYMAXDEPTH"][1].strip()
    try:
        val = int(eval(re.sub(r"[uUlL]+$", "", txt), {"__builtins__": {}}))
    except Exception:
        raise AnalysisBroken("axl_y.c: YYMAXDEPTH is `%s`, not an integer constant" % txt)
    if val <= PARSER_DEPTH_CONFIRMED:
        rep.ok("K16", "parser-depth-limit", sample={"YYMAXDEPTH": val})
    else:
        rep.violation("K16", "parser-depth-limit", "axl.z / axl_y.c (YYMAXDEPTH)",
                      "the parser's stack limit is %d (confirmed value: %d).  It is the only bound on the nesting depth of the tree "
                      "handed to the recursive passes: input nested more deeply than the C stack allows (about 45000 levels for "
                      "abnorm on an 8 MB stack) now parses and then kills the compiler with SIGSEGV and no diagnostic, where it "
                      "used to be rejected with `memory exhausted` and exit status 1" % (val, PARSER_DEPTH_CONFIRMED))


def k17(rep):
    """The scanner's cursor (line buffer scLine, index scLineIndex, column scLineChar) is moved by one primitive, scAdvance0 (the
    macro behind scAdvance, scSkipSpace, scAdvance1): besides stepping the index and the column it is the only place that notices
    the end of a line's text and moves on to the next source line (or to end of input).  A function that steps the index by hand
    stops on the NUL ending the last line of an included file that has no final newline, the scanner returns `end of input`,
    and everything after the #include is silently ignored -- an invalid program gets no diagnostic.  Every write of the three
    cursor variables in scan.c therefore comes from an expansion of scAdvance0 or sits in the line-start routines."""
    f = common.extract("scan.c", all_trees=True)
    START = ("scStartLine", "scStart", "scEnd")
    n = 0
    for name, fn in sorted(f.funcs.items()):
        if "body" not in fn or not fn.get("file", "").endswith("scan.c"):
            continue
        for x in walk(fn["body"]):
            t = None
            if x["k"] in ("BinaryOperator", "CompoundAssignOperator") and x["op"].endswith("=") and x["op"] not in ("==", "!=", "<=", ">="):
                t = strip(x["c"][0])
            elif x["k"] == "UnaryOperator" and x["op"] in ("++", "post++", "--", "post--"):
                t = strip(x["c"][0])
            if t is None or t["k"] != "DeclRefExpr" or t["n"] not in ("scLineIndex", "scLineChar", "scLine"):
                continue
            n += 1
            key = "cursor-moved-by-primitive:%s:%s" % (name, t["n"])
            if "scAdvance0" in (x.get("mac"), x.get("imac")) or name in START:
                rep.ok("K17", key + "@%d" % x["l"], nontrivial=False)
            else:
                rep.violation("K17", key, "scan.c:%d (%s)" % (x["l"], name),
                              "%s is changed outside scAdvance0 and the line-start routines: the step to the next source line at the "
                              "end of a line's text (and with it the end-of-input test) is bypassed; text collected this way up to "
                              "the end of an included file without a final newline ends the scan of the whole program" % t["n"])
    rep.floor("writes of the scanner's cursor", n, 60)


def k18(rep):
    """The scanner treats the end of a line's text as a join with the next source line (that is how it moves on); what separates
    two lines is the newline character the reader keeps at the end of each.  The last line of a file may lack it.  inclGetLine
    must then supply one: otherwise a comment (or an unterminated directive) ending an included file runs into the includer's
    next line, which is silently swallowed -- `#include "defs.as"` followed by a line of junk compiles with exit status 0.  On the
    CFG of inclGetLine: every path from the end-of-file exit of the read loop to the return of a non-empty line passes a
    bufAdd1(.., newline)."""
    f = common.extract("include.c", trees=["inclGetLine"], cfg=["inclGetLine"])
    fn = f.func("inclGetLine")
    cfg = common.CFG(fn)

    def adds_nl(e):
        return e["k"] == "CallExpr" and e.get("callee") in ("bufAdd1", "bufAddn", "bufPutc") and \
            any(const_value(a) == 10 for a in e["c"][1:]) and not in_loop(e)
    loops = [x for x in walk(fn["body"]) if x["k"] in ("WhileStmt", "ForStmt", "DoStmt")]
    if len(loops) != 1:
        raise AnalysisBroken("inclGetLine: expected one read loop")
    loop_ids = set(y["id"] for y in walk(loops[0]))

    def in_loop(e):
        return e["id"] in loop_ids
    # outside the loop, a newline is added under a test of end of file
    par = common.parents(fn["body"])
    ok = False
    for c in calls(fn["body"]):
        if not adds_nl(c):
            continue
        cur = c
        while cur["id"] in par:
            p_ = par[cur["id"]]
            if p_["k"] == "IfStmt" and any(y is cur for y in walk(p_["c"][1])):
                txt = common.render(p_["c"][0])
                if "-1" in txt or "EOF" in txt or any(const_value(y) == -1 for y in walk(p_["c"][0])):
                    ok = True
            cur = p_
    where = "include.c:%d (inclGetLine)" % fn["l"]
    if ok:
        rep.ok("K18", "last-line-gets-its-newline")
    else:
        rep.violation("K18", "last-line-gets-its-newline", where,
                      "a line cut short by the end of the file is returned without a newline: the scanner joins its text with the "
                      "next line it is given, so a comment ending an included file swallows the includer's next line and an invalid "
                      "program compiles without a diagnostic")


def k19(rep):
    """The parser learns that its input was wrong from one place: bison calls yyerrorfn, which reports the error and counts it;
    parse() hands on a tree only when the count is zero.  A call of yyerrorfn that returns without a message and without
    counting turns a syntax error into `no error`: either the null tree is used (a fault in the next phase) or the recovered
    tree compiles (an invalid program accepted with exit status 0).  On the CFG of yyerrorfn every path from the entry to the
    exit passes a message (comsgError / comsgFatal / comsgNError ...) and an increment of yyerrcount."""
    f = common.extract("parseby.c", trees=["yyerrorfn", "parse"], cfg=["yyerrorfn"])
    fn = f.func("yyerrorfn")
    cfg = common.CFG(fn)
    is_msg = lambda e: e["k"] == "CallExpr" and (e.get("callee") or "").startswith("comsg") and \
        any(t in e.get("callee") for t in ("Error", "Fatal"))
    is_inc = lambda e: e["k"] == "UnaryOperator" and e["op"] in ("++", "post++") and (strip(e["c"][0]) or {}).get("n") == "yyerrcount"
    if not cfg.events(is_msg) or not cfg.events(is_inc):
        raise AnalysisBroken("yyerrorfn no longer reports through comsgError and counts in yyerrcount")
    for what, pred, msg in (("reports", is_msg, "without a message"), ("counts", is_inc, "without counting the error")):
        p = cfg.path_avoiding(cfg.entry, None, pred)
        key = "every-syntax-error-%s" % what
        if p is None:
            rep.ok("K19", key)
        else:
            rep.violation("K19", key, "parseby.c:%d (yyerrorfn)" % fn["l"],
                          "yyerrorfn can return %s: bison has detected a syntax error, but parse() sees a count of zero and hands "
                          "the (null or recovered) tree on -- the compiler faults in the next phase or accepts the invalid "
                          "program with exit status 0" % msg, detail={"cfg_path": p[:10]})


def k20_digest(f):
    base = f.unit.split("/")[-1]
    out = []
    for name, fn in f.funcs.items():
        if "body" not in fn or not fn.get("file", "").endswith(base):
            continue
        if not any(c.get("callee") == name for c in calls(fn["body"])):
            continue
        big = []
        for x in walk(fn["body"]):
            if x["k"] == "DeclStmt":
                for d in x.get("decls", []):
                    if d.get("bound") and not d.get("static"):
                        big.append((d["n"], d["bound"], d.get("t") or "", x["l"]))
        out.append((name, big))
    return out


K20_MAX = 512


def k20(rep):
    """The parser gives up honestly at a nesting depth of 10000 (K16); the passes that walk the nested structure afterwards
    recurse once per level on the C stack, and on an 8 MB stack that leaves them about 800 bytes a level.  A function that
    calls itself and keeps a large automatic array (an I/O-sized scratch buffer for a trace message) multiplies that array by
    the nesting depth of the input: 1100 nested blocks overflow the stack -- a signal, no diagnostic -- long before the parser's
    limit.  No self-recursive function of the compiler has an automatic array of more than 512 elements."""
    dig = common.map_units(common.compiler_units(), k20_digest, "compiler", all_trees=True)
    n = 0
    nbad = 0
    for u in sorted(dig):
        base = u.split("/")[-1]
        for name, big in dig[u]:
            n += 1
            for arr, bound, t, line in big:
                if bound > K20_MAX:
                    nbad += 1
                    rep.violation("K20", "recursive-frame-small:%s:%s" % (base, name), "%s:%d (%s)" % (base, line, name),
                                  "%s calls itself and keeps the automatic array `%s` (%s) in every activation: each level of "
                                  "nesting in the input costs that much stack, so a source nested a little over a thousand levels "
                                  "deep ends in a stack overflow (signal 11, no diagnostic) although the parser accepts ten "
                                  "thousand" % (name, arr, t))
    rep.floor("self-recursive functions of the compiler", n, 250)
    if nbad == 0:
        rep.ok("K20", "recursive-frame-small", sample={"self-recursive functions": n})


def both_digest(f):
    return {"k1": k1_digest(f), "exits": exits_digest(f), "k8": k8_digest(f)}


# --------------------------------------------------------------------------
# K2/K3/K4 helpers
# --------------------------------------------------------------------------

def writes_of(fn, varname):
    """(op, node) for every write to the global varname in fn."""
    out = []
    for x in walk(fn["body"]):
        if x["k"] in ("BinaryOperator", "CompoundAssignOperator") and x["op"] in ("=", "+=", "-=", "*=", "/=", "|=", "&=", "^="):
            l = strip(x["c"][0])
            if l is not None and l["k"] == "DeclRefExpr" and l["n"] == varname and l.get("g"):
                out.append((x["op"], x))
        if x["k"] == "UnaryOperator" and x["op"] in ("++", "--", "post++", "post--"):
            l = strip(x["c"][0])
            if l is not None and l["k"] == "DeclRefExpr" and l["n"] == varname and l.get("g"):
                out.append((x["op"], x))
    return out


def return_closure(fn):
    """For each return statement: set of callees and global names in the
    flow-insensitive definition closure of the returned expression, plus the
    literal constants that can be returned."""
    defs = {}
    for x in walk(fn["body"]):
        if x["k"] in ("BinaryOperator", "CompoundAssignOperator") and x["op"] in ("=", "+=", "|="):
            l = strip(x["c"][0])
            if l is not None and l["k"] == "DeclRefExpr" and l.get("dk") in ("var", "parm") and not l.get("g"):
                defs.setdefault(l["did"], []).append(x["c"][1])
        if x["k"] == "DeclStmt":
            for d in x["decls"]:
                if d.get("init") is not None:
                    defs.setdefault(d["did"], []).append(d["init"])
    res = []
    for r in common.find(fn["body"], "ReturnStmt"):
        if not r["c"]:
            res.append((r, set(), set(), None))
            continue
        seen, stack = set(), [r["c"][0]]
        callees, globs = set(), set()
        while stack:
            e = stack.pop()
            for y in walk(e):
                if y["k"] == "CallExpr" and y.get("callee"):
                    callees.add(y["callee"])
                if y["k"] == "DeclRefExpr":
                    if y.get("g"):
                        globs.add(y["n"])
                    elif y.get("did") in defs and y["did"] not in seen:
                        seen.add(y["did"])
                        stack.extend(defs[y["did"]])
        lit = const_value(r["c"][0]) if strip(r["c"][0])["k"] in ("IntegerLiteral",) or const_value(r["c"][0]) is not None else None
        res.append((r, callees, globs, lit))
    return res


def k5(rep):
    """Unbalanced conditional-inclusion directives are always diagnosed (guard coverage over the IfState enumeration)."""
    from .peval import peval
    from .c06_errors import msgname
    f = common.extract("include.c", all_trees=True)
    states = None
    for e in f.raw["enums"]:
        names = [n for n, _ in e["e"]]
        if "NoIf" in names or any(n.endswith("If") for n in names) and len(names) >= 3:
            if any(n == "ActiveIf" for n in names):
                states = dict(e["e"])
    if not states:
        raise AnalysisBroken("include.c: enumeration of #if states (IfState) not found")
    # initial state: the value ifState gets outside the directive handlers
    inits = set()
    for name, fn in f.funcs.items():
        if "body" not in fn or not fn["file"].endswith("include.c") or name.startswith("inclHandle"):
            continue
        for x in walk(fn["body"]):
            if x["k"] == "BinaryOperator" and x["op"] == "=" and strip(x["c"][0]) is not None and strip(x["c"][0]).get("n") == "ifState":
                inits.add(const_value(x["c"][1]))
    if len(inits) != 1 or None in inits:
        raise AnalysisBroken("include.c: ifState is initialised to %s outside the directive handlers; expected one constant" % sorted(map(str, inits)))
    init = inits.pop()
    sname = {v: n for n, v in states.items()}

    def guard_of(fn, call):
        """conditions (with polarity) of the IfStmts enclosing the call inside fn"""
        par = common.parents(fn["body"])
        out = []
        ch, p = call, par.get(call["id"])
        while p is not None:
            if p["k"] == "IfStmt":
                if p["c"][1] is not None and p["c"][1]["id"] == ch["id"]:
                    out.append((p, True))
                elif p["c"][2] is not None and p["c"][2]["id"] == ch["id"]:
                    out.append((p, False))
            ch, p = p, par.get(p["id"])
        return out

    def fires(guards, st):
        """three-valued: does the call execute when ifState == st (other conditions unknown -> None)"""
        res = 1
        for iff, pol in guards:
            v = peval(iff["c"][0], {"ifState": st})
            if v is None:
                res = None if res != 0 else 0
                continue
            if bool(v) != pol:
                return 0
        return res

    found = {}
    for name, fn in f.funcs.items():
        if "body" not in fn or not fn["file"].endswith("include.c"):
            continue
        for c in calls(fn["body"], "inclError"):
            m = msgname(c["c"][1]) if len(c["c"]) > 1 else None
            if m:
                found.setdefault(m, []).append((name, fn, c))
    # (a) end of file inside an open conditional
    eof = found.get("ALDOR_E_InclIfEof", [])
    if not eof:
        raise AnalysisBroken("include.c: no inclError(ALDOR_E_InclIfEof) call (end of file inside #if)")
    for name, fn, c in eof:
        guards = guard_of(fn, c)
        # the outermost guard is the end-of-file test itself (does not mention ifState): unknown is fine there
        for st, sn in sorted(sname.items()):
            if st == init:
                continue
            key = "if-eof-diagnosed:%s:%s" % (name, sn)
            v = fires([g for g in guards if any(x["k"] == "DeclRefExpr" and x["n"] == "ifState" for x in walk(g[0]["c"][0]))], st)
            if v == 1:
                rep.ok("K5", key, sample={"site": "include.c:%d" % c["l"], "state": sn} if st == max(sname) else None)
            else:
                rep.violation("K5", key, "include.c:%d (%s)" % (c["l"], name),
                              "at end of file with an open conditional in state %s the `#if without #endif' error is not raised: "
                              "an unterminated #if compiles silently with exit 0" % sn)
    # (b) #else / #elseif / #endif without #if
    unbal = {m: v for m, v in found.items() if "Unbal" in m}
    if len(unbal) < 3:
        raise AnalysisBroken("include.c: expected inclError(ALDOR_E_InclUnbal{Elseif,Else,Endif}), found %s" % sorted(unbal))
    for m, lst in sorted(unbal.items()):
        for name, fn, c in lst:
            key = "unbalanced-diagnosed:%s:%s" % (name, m)
            guards = guard_of(fn, c)
            top = guards[-1][0] if guards else None
            # nothing before the guarding statement may leave the function
            early = False
            for st in fn["body"]["c"]:
                if st is None or (top is not None and st["id"] == top["id"]):
                    break
                if any(x["k"] in ("ReturnStmt", "GotoStmt") for x in walk(st)):
                    early = True
            if fires(guards, init) == 1 and not early:
                rep.ok("K5", key)
            else:
                rep.violation("K5", key, "include.c:%d (%s)" % (c["l"], name),
                              "with no conditional open (state %s) the directive is not reported as unbalanced (%s)" % (sname[init], m))


def k9(rep):
    """Integer and float literals with a radix prefix: every digit consumed is compared with the radix."""
    f = common.extract("scan.c", trees=["scanNumber"])
    fn = f.func("scanNumber")
    n = 0
    for lp in walk(fn["body"]):
        if lp["k"] not in ("ForStmt", "WhileStmt"):
            continue
        cond = lp["c"][1] if lp["k"] == "ForStmt" else lp["c"][0]
        if cond is None or "isupper" not in render(cond) and not any(c.get("callee") in ("isupper", "__isupper") for c in calls(cond)) \
                and "_ISupper" not in render(cond):
            continue
        n += 1
        body = lp["c"][3] if lp["k"] == "ForStmt" else lp["c"][1]
        checks = [x for x in walk(body) if x["k"] == "BinaryOperator" and x["op"] in ("<", "<=", ">", ">=")
                  and any(y["k"] == "DeclRefExpr" and y["n"] == "rad" for y in walk(x))]
        checks += [x for x in walk(cond) if x["k"] == "BinaryOperator" and x["op"] in ("<", "<=", ">", ">=")
                   and any(y["k"] == "DeclRefExpr" and y["n"] == "rad" for y in walk(x))]
        key = "radix-digit-checked@loop%d" % n
        if checks:
            rep.ok("K9", key, sample={"site": "scan.c:%d" % lp["l"], "test": render(checks[0])[:80]})
        else:
            rep.violation("K9", key, "scan.c:%d (scanNumber)" % lp["l"],
                          "the loop consumes letters and digits after a radix prefix without comparing their value with the radix: "
                          "2r9 or 16rG is accepted silently (and evaluates to 0) instead of being reported as an improper number")
    if n < 2:
        raise AnalysisBroken("scanNumber: the loops that consume radix digits (condition mentioning isupper) were not found")


def _listop(n):
    """'Memq', 'Cons', ... for calls through the generic list operation tables (listMemq(T)(...))."""
    if n["k"] != "CallExpr" or n.get("callee"):
        return None
    c = strip(n["c"][0])
    return c["n"] if c is not None and c["k"] == "MemberExpr" else None


def k10(rep):
    """Macro expansion terminates on circular definitions: macId keeps the stack of definitions being expanded (macActive), tests
    the definition for membership before expanding it and pushes that same definition.  The test only works if what is pushed is
    the object that is tested (the shared definition, not a copy) and if the expansion happens on the not-circular side only."""
    f = common.extract("macex.c", trees=["macId"], cfg=["macId"])
    fn = f.func("macId")
    cfg = common.CFG(fn)
    where = "macex.c:%d (macId)" % fn["l"]

    def arg_name(n, i):
        a = strip(n["c"][i]) if len(n["c"]) > i else None
        return a["n"] if a is not None and a["k"] == "DeclRefExpr" else None
    memq = cfg.events(lambda n: _listop(n) == "Memq" and arg_name(n, 1) == "macActive")
    cons = cfg.events(lambda n: _listop(n) == "Cons" and arg_name(n, 2) == "macActive")
    if len(memq) != 1 or len(cons) != 1:
        raise AnalysisBroken("macId: expected one listMemq(macActive, d) and one listCons(d, macActive) (found %d, %d)" % (len(memq), len(cons)))
    mb, mj, mn = memq[0]
    cb, cj, cn = cons[0]
    tested, pushed = arg_name(mn, 2), arg_name(cn, 1)
    if tested is None or pushed is None:
        raise AnalysisBroken("macId: the tested / pushed definition is not a plain variable")
    if tested != pushed:
        rep.violation("K10", "macro-cycle:same-object", where, "the cycle test looks for '%s' in macActive but '%s' is pushed" % (tested, pushed))
    else:
        def assigns(n):
            return n["k"] == "BinaryOperator" and n["op"] == "=" and (strip(n["c"][0]) or {}).get("k") == "DeclRefExpr" \
                and strip(n["c"][0])["n"] == tested
        between = None
        for ab_, aj, an in cfg.events(assigns):
            if cfg.path_avoiding(mb, lambda n, an=an: n is an, lambda n: False, src_idx=mj) is not None and \
                    cfg.path_avoiding(ab_, lambda n: n is cn, lambda n: False, src_idx=aj) is not None:
                between = an
        if between is None:
            rep.ok("K10", "macro-cycle:same-object")
        else:
            rep.violation("K10", "macro-cycle:same-object", "macex.c:%d (macId)" % between["l"],
                          "'%s' is reassigned (%s) between the membership test and the push onto macActive: the stack then holds "
                          "copies that the test, which looks for the shared definition, never finds; a circular macro expands until "
                          "the C stack overflows instead of being reported" % (tested, render(between)[:60]))
    # the recursive expansion is on the not-circular side
    flag = None
    for d in walk(fn["body"]):
        if d["k"] == "DeclStmt":
            for v in d.get("decls", []):
                if v.get("init") is not None and any(y is mn or y.get("id") == mn.get("id") for y in walk(v["init"])):
                    flag = v["n"]
    if flag is None:
        raise AnalysisBroken("macId: the result of the membership test is not kept in a local")
    branch = [bid for bid in cfg.blocks if cfg.cond_edges(bid) and (strip(cfg.cond_edges(bid)[0]) or {}).get("n") == flag]
    if len(branch) != 1:
        raise AnalysisBroken("macId: expected one branch on '%s'" % flag)
    _, tsucc, fsucc = cfg.cond_edges(branch[0])
    rec = lambda n: n["k"] == "CallExpr" and n.get("callee") == "macEx"
    if not cfg.events(rec):
        raise AnalysisBroken("macId: no recursive macEx call")
    if cfg.path_avoiding(tsucc, rec, lambda n: False) is None and \
            cfg.path_avoiding(cfg.entry, rec, lambda n: (strip(n) or {}).get("n") == flag and n["k"] != "DeclStmt") is None:
        rep.ok("K10", "macro-cycle:expansion-guarded")
    else:
        rep.violation("K10", "macro-cycle:expansion-guarded", where,
                      "macEx is reached although the definition is already being expanded (or without looking at the test)")
    # what is pushed is popped
    pop = lambda n: _listop(n) == "FreeCons" and arg_name(n, 1) == "macActive"
    if cfg.path_avoiding(cb, None, pop, src_idx=cj) is None:
        rep.ok("K10", "macro-cycle:popped")
    else:
        rep.violation("K10", "macro-cycle:popped", where, "a path leaves macId with the definition still on macActive: a later, "
                      "unrelated use of the macro is reported as circular")


def k12(rep):
    """The form checker validates every component of a node in a loop and reports the bad ones; the phases after it
    (scobindAssign: `default: bugBadCase`) rely on *all* components having been looked at.  A loop that reports must therefore not
    be left early on the accepting side: a break or return out of it is only reached after an error was reported in that
    iteration."""
    f = common.extract("abcheck.c", all_trees=True)
    n = 0
    for name, fn in sorted(f.funcs.items()):
        if "body" not in fn or not fn.get("file", "").endswith("abcheck.c"):
            continue
        par = None
        for lp in walk(fn["body"]):
            if lp["k"] not in ("ForStmt", "WhileStmt"):
                continue
            body = lp["c"][-1]
            if body is None or not any(c.get("callee") in ("comsgError", "comsgNError", "comsgFatal") for c in calls(body)):
                continue
            n += 1
            if par is None:
                par = common.parents(fn["body"])
            bad = None
            for x in walk(body):
                if x["k"] not in ("BreakStmt", "ReturnStmt"):
                    continue
                # the construct the break leaves
                cur, leaves_loop, reported = x, x["k"] == "ReturnStmt", False
                chain = []
                while cur is not lp and cur["id"] in par:
                    p_ = par[cur["id"]]
                    if x["k"] == "BreakStmt" and not chain and p_["k"] in ("SwitchStmt", "ForStmt", "WhileStmt", "DoStmt") and p_ is not lp:
                        chain.append("inner")
                    if p_["k"] == "CompoundStmt":
                        for st in p_["c"]:
                            if st is cur:
                                break
                            if st is not None and any(c.get("callee") in ("comsgError", "comsgNError", "comsgFatal") for c in calls(st)) \
                                    and st["k"] not in ("IfStmt", "SwitchStmt"):
                                reported = True
                    cur = p_
                if x["k"] == "BreakStmt" and chain:
                    continue                      # leaves an inner switch or loop, not this loop
                if not reported:
                    bad = x
            key = "checker-loop-complete:%s@%d" % (name, lp["l"])
            if bad is None:
                rep.ok("K12", key, nontrivial=False)
            else:
                rep.violation("K12", "checker-loop-complete:%s" % name, "abcheck.c:%d (%s)" % (bad["l"], name),
                              "the loop that validates the components of the node is left by a %s that no error report precedes: the "
                              "components after an acceptable one are never checked, and a malformed one reaches a later phase that "
                              "treats it as impossible (bugBadCase: 'Compiler bug', abort) instead of getting a diagnostic"
                              % ("break" if bad["k"] == "BreakStmt" else "return"))
    rep.floor("reporting loops in the form checker", n, 8)


def k13(rep):
    """Source lines are kept as C strings.  The reader must not store a NUL byte taken from the file: everything after it on the
    line (or, at the start of a line, everything after it in the file) would be accepted unseen, without a diagnostic."""
    f = common.extract("include.c", trees=["inclGetLine"])
    fn = f.func("inclGetLine")
    reads = [x for x in walk(fn["body"]) if x["k"] == "BinaryOperator" and x["op"] == "=" and
             any(c.get("callee") in ("osGetc", "getc", "fgetc") for c in calls(x["c"][1]))]
    if len(reads) != 1 or (strip(reads[0]["c"][0]) or {}).get("k") != "DeclRefExpr":
        raise AnalysisBroken("inclGetLine: the byte read (`c = osGetc(file)`) was not recognised")
    var = strip(reads[0]["c"][0])["n"]
    stores = [c for c in calls(fn["body"], "bufAdd1") if (strip(c["c"][2]) or {}).get("n") == var]
    if not stores:
        raise AnalysisBroken("inclGetLine: the byte is not stored with bufAdd1")
    tests = [x for x in walk(fn["body"]) if x["k"] == "IfStmt" and x["l"] <= stores[0]["l"] and
             any(y["k"] == "BinaryOperator" and y["op"] in ("==", "!=") and (strip(y["c"][0]) or {}).get("n") == var and
                 const_value(y["c"][1]) == 0 or y["k"] == "UnaryOperator" and y.get("op") == "!" and (strip(y["c"][0]) or {}).get("n") == var
                 for y in walk(x["c"][0]))]
    where = "include.c:%d (inclGetLine)" % stores[0]["l"]
    if tests:
        rep.ok("K13", "source-line:nul-not-stored")
    else:
        rep.violation("K13", "source-line:nul-not-stored", where,
                      "the byte read from the source file is stored in the line's C string without a test for NUL: text after a NUL "
                      "byte is dropped silently, and a line starting with NUL ends the scan, so garbage after it is accepted with "
                      "exit status 0 and no diagnostic")


K6_UNITS = ["include.c", "scan.c", "token.c", "syscmd.c", "linear.c", "parseby.c", "abnorm.c", "macex.c", "abcheck.c"]


def _truthy_conjuncts(cond, sense=True):
    """expressions known non-null when `cond` evaluates to `sense`"""
    c = strip(cond)
    if c is None:
        return []
    if c["k"] == "BinaryOperator" and c["op"] == "&&" and sense:
        return _truthy_conjuncts(c["c"][0], True) + _truthy_conjuncts(c["c"][1], True)
    if c["k"] == "BinaryOperator" and c["op"] == "||" and not sense:
        return _truthy_conjuncts(c["c"][0], False) + _truthy_conjuncts(c["c"][1], False)
    if c["k"] == "UnaryOperator" and c["op"] == "!":
        return _truthy_conjuncts(c["c"][0], not sense)
    if c["k"] == "BinaryOperator" and c["op"] in ("!=", "==") and const_value(c["c"][1]) == 0:
        return _truthy_conjuncts(c["c"][0], sense if c["op"] == "!=" else not sense)
    return [render(c)] if sense else []


def k6_digest(f):
    """cdr(cdr(x)) / car(cdr(x)): a list cell reached through the `rest` field of another cell is dereferenced; the inner
    `rest` must be known non-null from an enclosing condition."""
    sites, nderef = [], 0
    for name, fn in f.funcs.items():
        if "body" not in fn or not fn.get("file", "").endswith(f.unit):
            continue
        par = None
        for x in walk(fn["body"]):
            if x["k"] == "MemberExpr" and x.get("arrow") and x.get("n") in ("rest", "first"):
                nderef += 1
                b = strip(x["c"][0])
                if b is None or not (b["k"] == "MemberExpr" and b.get("arrow") and b.get("n") == "rest"):
                    continue
                if par is None:
                    par = common.parents(fn["body"])
                inner = render(b)
                known = []
                ch, p = x, par.get(x["id"])
                while p is not None:
                    k = p["k"]
                    if k == "IfStmt" and p["c"][1] is not None and p["c"][1]["id"] == ch["id"]:
                        known += _truthy_conjuncts(p["c"][0], True)
                    elif k == "IfStmt" and p["c"][2] is not None and p["c"][2]["id"] == ch["id"]:
                        known += _truthy_conjuncts(p["c"][0], False)
                    elif k == "ForStmt" and ch["id"] in (p["c"][3]["id"] if p["c"][3] else -1, p["c"][2]["id"] if p["c"][2] else -1):
                        known += _truthy_conjuncts(p["c"][1], True)
                    elif k == "WhileStmt" and p["c"][1] is not None and p["c"][1]["id"] == ch["id"]:
                        known += _truthy_conjuncts(p["c"][0], True)
                    elif k == "BinaryOperator" and p["op"] == "&&" and p["c"][1]["id"] == ch["id"]:
                        known += _truthy_conjuncts(p["c"][0], True)
                    elif k == "BinaryOperator" and p["op"] == "||" and p["c"][1]["id"] == ch["id"]:
                        known += _truthy_conjuncts(p["c"][0], False)
                    elif k == "ConditionalOperator" and p["c"][1]["id"] == ch["id"]:
                        known += _truthy_conjuncts(p["c"][0], True)
                    elif k == "ConditionalOperator" and p["c"][2]["id"] == ch["id"]:
                        known += _truthy_conjuncts(p["c"][0], False)
                    ch, p = p, par.get(p["id"])
                sites.append({"unit": f.unit, "func": name, "line": x["l"], "expr": render(x)[:70], "inner": inner,
                              "guarded": inner in known})
    return {"sites": sites, "nderef": nderef}


COPY_FUNCS = {"strncpy": (0, 2), "memcpy": (0, 2), "memmove": (0, 2), "strncat": (0, 2), "bcopy": (1, 2)}


def _upper_bound(fn, n):
    """constant upper bound of an integer expression, from its syntax alone; None if unknown"""
    s_ = strip(n)
    if s_ is None:
        return None
    cv = const_value(s_)
    if cv is not None:
        return cv
    if s_["k"] == "ConditionalOperator":
        c, a, b = strip(s_["c"][0]), strip(s_["c"][1]), strip(s_["c"][2])
        # (v <= K) ? v : K   and   (v < K) ? v : K
        if c is not None and c["k"] == "BinaryOperator" and c["op"] in ("<=", "<"):
            k = const_value(c["c"][1])
            if k is not None and render(strip(c["c"][0])) == render(a) and const_value(b) is not None:
                return max(k if c["op"] == "<=" else k - 1, const_value(b))
        ua, ub = _upper_bound(fn, a), _upper_bound(fn, b)
        return max(ua, ub) if ua is not None and ub is not None else None
    if s_["k"] == "DeclRefExpr" and s_.get("dk") == "var" and not s_.get("g"):
        # clamp written as a statement:  if (v > K) v = C;   (C <= K)
        for y in walk(fn["body"]):
            if y["k"] == "IfStmt" and y["c"][2] is None and y.get("l", 0) <= s_.get("l", 0):
                c = strip(y["c"][0])
                if c is not None and c["k"] == "BinaryOperator" and c["op"] in (">", ">=") and strip(c["c"][0]) is not None \
                        and strip(c["c"][0]).get("did") == s_.get("did") and const_value(c["c"][1]) is not None:
                    k = const_value(c["c"][1])
                    then = y["c"][1]
                    while then is not None and then["k"] == "CompoundStmt" and len(then["c"]) == 1:
                        then = then["c"][0]
                    if then is not None and then["k"] == "BinaryOperator" and then["op"] == "=" and strip(then["c"][0]) is not None \
                            and strip(then["c"][0]).get("did") == s_.get("did") and const_value(then["c"][1]) is not None \
                            and const_value(then["c"][1]) <= k:
                        # no later re-definition between the clamp and the use
                        later = [z for z in walk(fn["body"]) if z["k"] == "BinaryOperator" and z["op"] == "=" and strip(z["c"][0]) is not None
                                 and strip(z["c"][0]).get("did") == s_.get("did") and y["l"] < z.get("l", 0) <= s_.get("l", 0) and z["id"] != then["id"]]
                        if not later:
                            return k if c["op"] == ">" else max(k - 1, const_value(then["c"][1]))
        ubs = []
        for y in walk(fn["body"]):
            src = None
            if y["k"] == "BinaryOperator" and y["op"] == "=" and strip(y["c"][0]) is not None and strip(y["c"][0]).get("did") == s_.get("did"):
                src = y["c"][1]
            for d in (y.get("decls", []) if y["k"] == "DeclStmt" else []):
                if d.get("did") == s_.get("did") and d.get("init") is not None:
                    src = d["init"]
            if y["k"] in ("CompoundAssignOperator",) and strip(y["c"][0]) is not None and strip(y["c"][0]).get("did") == s_.get("did"):
                return None
            if y["k"] == "UnaryOperator" and y["op"] in ("++", "post++", "pre++") and strip(y["c"][0]) is not None and strip(y["c"][0]).get("did") == s_.get("did"):
                return None
            if src is not None:
                ubs.append(_upper_bound(fn, src))
        if ubs and all(u is not None for u in ubs):
            return max(ubs)
    return None


def k8_digest(f):
    out = []
    for name, fn in f.funcs.items():
        if "body" not in fn or not fn.get("file", "").endswith(f.unit.split("/")[-1]):
            continue
        for c in calls(fn["body"]):
            cal = c.get("callee")
            if cal not in COPY_FUNCS:
                continue
            di, li = COPY_FUNCS[cal]
            dst = strip(c["c"][1 + di])
            if dst is None or dst["k"] != "DeclRefExpr" or not dst.get("bound"):
                continue
            ub = _upper_bound(fn, c["c"][1 + li])
            out.append({"unit": f.unit, "func": name, "line": c["l"], "callee": cal, "dst": dst["n"], "bound": dst["bound"],
                        "len": render(c["c"][1 + li])[:50], "ub": ub})
    return out


def run(tier, only=None):
    rep = common.Report("C07", tier, EXPLANATION)
    units = common.compiler_units()
    dig = common.map_units(units, both_digest, all_cfg=True)
    rep.analysed_count("translation units", len(units))

    # ---- K1 ---------------------------------------------------------------
    nsub = sum(d["k1"]["nsub"] for d in dig.values())
    rep.analysed_count("array subscripts", nsub)
    sites = [s for d in dig.values() for s in d["k1"]["sites"]]
    rep.floor("array subscripts scanned", nsub, 3000)
    rep.floor("char-indexed subscripts of bounded arrays", sum(1 for s in sites if s["verdict"] != "unbounded-base"), 4)
    for s in sorted(sites, key=lambda s: (s["unit"], s["line"])):
        key = "%s:%s:%s" % (s["unit"], s["func"], s["base"])
        where = "%s:%d (%s)" % (s["unit"], s["line"], s["func"])
        if s["verdict"] == "ok":
            rep.ok("K1", key + "@%d" % s["line"], sample={"site": where, "expr": s["expr"], "why": s["why"]})
        elif s["verdict"] == "unbounded-base":
            rep.note("K1 not decidable (base has no constant bound): %s %s" % (where, s["expr"]))
        else:
            rep.violation("K1", key, where, "%s: %s (%s)" % (s["expr"], s["why"], s["origin"]))

    k5(rep)
    k9(rep)
    k10(rep)
    k12(rep)
    k13(rep)
    k16(rep)
    k17(rep)
    k18(rep)
    k19(rep)
    k20(rep)
    from . import variant_dispatch
    variant_dispatch.report_absyn(rep, "K14", ["abnorm.c", "macex.c"], 15)
    from . import variadic
    _gen = set(["genc.c", "ccode.c"] + [u for u in common.compiler_units() if u.startswith(("java/", "of_")) or u in ("usedef.c", "flog.c", "dflow.c", "optfoam.c", "inlutil.c", "loops.c")])
    variadic.report(rep, "K11", [u for u in common.compiler_units() if u not in _gen], floor=1700, what="in the front end, FOAM generator and support units")
    from . import fmtstring
    fmtstring.report(rep, "K15", floor=2000, frozen={
        ("list.c", "ptrListFormat"): "the format is \"%p\" followed by the registered name of the list's element formatter "
                                     "(\"Syme\", \"AbSyn\", ...: literals at all 8 call sites of listFormat(T))"})
    # ---- K8 ---------------------------------------------------------------
    n8 = 0
    for u in sorted(dig):
        for st in dig[u]["k8"]:
            n8 += 1
            key = "bounded-copy:%s:%s:%s" % (st["unit"], st["func"], st["dst"])
            where = "%s:%d (%s)" % (st["unit"], st["line"], st["func"])
            # a string copy is followed by its terminator (length < size); a memory copy of exactly the array's size fits
            fits = st["ub"] is not None and (st["ub"] < st["bound"] or (st["callee"].startswith("mem") and st["ub"] == st["bound"]))
            if fits:
                rep.ok("K8", key, sample={"site": where, "copy": "%s(%s, ..., %s)" % (st["callee"], st["dst"], st["len"]), "length<=": st["ub"], "array": st["bound"]})
            else:
                rep.violation("K8", key, where,
                              "%s copies `%s` bytes into the %d-byte array %s and nothing in the function bounds that length by a constant "
                              "below the array size (an assert is compiled out by default): a long input token overruns the stack buffer"
                              % (st["callee"], st["len"], st["bound"], st["dst"]))
    rep.floor("length-controlled copies into fixed arrays", n8, 1)
    # ---- K6 ---------------------------------------------------------------
    k6 = common.map_units(K6_UNITS, k6_digest, all_trees=True)
    nd = 0
    for u in sorted(k6):
        nd += k6[u]["nderef"]
        for st in k6[u]["sites"]:
            key = "list-deref:%s:%s:%s" % (st["unit"], st["func"], st["inner"])
            where = "%s:%d (%s)" % (st["unit"], st["line"], st["func"])
            if st["guarded"]:
                rep.ok("K6", key, sample={"site": where, "expr": st["expr"], "guard": st["inner"]})
            else:
                rep.violation("K6", key, where,
                              "%s dereferences the cell after another one although no enclosing condition establishes that `%s` is "
                              "non-null: a token list that ends here (input ending at this token) faults" % (st["expr"], st["inner"]))
    rep.floor("list-cell dereferences scanned in the front-end units", nd, 120)
    # ---- K7 ---------------------------------------------------------------
    from . import variant_guard
    fz = json.load(open(os.path.join(FROZEN, "c07_variant_access.json")))
    vs = variant_guard.scan(common.extract("abcheck.c", all_trees=True), "abcheck.c")
    nv = 0
    for st in vs:
        nv += 1
        key = "variant-access:%s:%s:%s" % (st["func"], st["base"], st["member"])
        where = "abcheck.c:%d (%s)" % (st["line"], st["func"])
        if st["how"] is not None:
            rep.ok("K7", key + "@%d" % st["line"], nontrivial=(st["how"] != "dispatch"),
                   sample={"site": where, "access": "%s->%s" % (st["base"], st["member"]), "established_by": st["how"]} if nv in (5, 40) else None)
        elif "%s:%s:%s" % (st["func"], st["base"], st["member"]) in fz:
            rep.note("K7 frozen %s: %s" % (key, fz["%s:%s:%s" % (st["func"], st["base"], st["member"])]))
        else:
            rep.violation("K7", key, where,
                          "the form checker reads %s->%s although nothing establishes that the node's tag is %s (no tag dispatch, no "
                          "enclosing or preceding tag test): for source text that puts another form there the compiler reads a "
                          "different variant of the union and faults" % (st["base"], st["member"], st["tag"]))
    rep.floor("variant member accesses in abcheck.c", nv, 50)
    # ---- K2 ---------------------------------------------------------------
    f_comsg = common.extract("comsg.c", all_trees=True, all_cfg=True)
    allowed = {"comsgVError": {"post++", "++"}, "comsgVFatal": {"post++", "++"}, "comsgInit": {"="}}
    nwr = 0
    # a straight-line local helper that only counts (`nErrors++; ...`) and is called from the two counting entry points only is
    # the increment itself, written once
    inc_helpers = set()
    for name, fn in f_comsg.funcs.items():
        if "body" not in fn or name in allowed or not fn.get("static"):
            continue
        ws = writes_of(fn, "nErrors")
        flow = [x for x in walk(fn["body"]) if x["k"] in ("IfStmt", "ForStmt", "WhileStmt", "SwitchStmt", "DoStmt", "ConditionalOperator")]
        if ws and all(op in ("++", "post++") for op, _ in ws) and not flow:
            callers = set(g for g, gf in f_comsg.funcs.items() if "body" in gf and any(c.get("callee") == name for c in calls(gf["body"])))
            if callers and callers <= {"comsgVError", "comsgVFatal"}:
                inc_helpers.add(name)
    for name, fn in f_comsg.funcs.items():
        if "body" not in fn:
            continue
        if inc_helpers and name in ("comsgVError", "comsgVFatal"):
            nwr += sum(1 for c in calls(fn["body"]) if c.get("callee") in inc_helpers)
        for op, node in writes_of(fn, "nErrors"):
            nwr += 1
            key = "writer:%s:%s" % (name, op)
            ok = name in allowed and op in allowed[name] or name in inc_helpers
            if ok and name == "comsgInit" and const_value(node["c"][1]) != 0:
                ok = False
            if ok:
                rep.ok("K2", key)
            else:
                rep.violation("K2", key, "comsg.c:%d (%s)" % (node["l"], name),
                              "the error counter nErrors is written (%s) outside its three writers: a counted error can be "
                              "lost and the exit status becomes dishonest" % op)
    rep.floor("writes of nErrors", nwr, 3)
    for name in ("comsgVError", "comsgVFatal"):
        fn = f_comsg.func(name)
        cfg = common.CFG(fn)
        is_inc = lambda n: (n["k"] == "UnaryOperator" and n["op"] in ("++", "post++") and strip(n["c"][0]).get("n") == "nErrors") or \
            (n["k"] == "CallExpr" and n.get("callee") in inc_helpers)
        tagname = "COMSG_ERROR" if name == "comsgVError" else "COMSG_FATAL"

        def is_do(n, tagname=tagname):
            return n["k"] == "CallExpr" and n.get("callee") == "comsgVDo" and common.enum_name(n["c"][1]) == tagname

        if not cfg.events(is_do):
            rep.violation("K2", "construct:" + name, "comsg.c:%d" % fn["l"], "%s no longer builds its message with comsgVDo(%s)" % (name, tagname))
            continue
        p = cfg.path_avoiding(cfg.entry, is_do, is_inc, src_idx=-1)
        if p is not None:
            rep.violation("K2", "increment-before-message:" + name, "comsg.c:%d" % fn["l"],
                          "there is a path to comsgVDo(%s) that does not increment nErrors first" % tagname)
        else:
            rep.ok("K2", "increment-before-message:" + name)
    fatal = f_comsg.func("comsgVFatal")
    cfg = common.CFG(fatal)
    p = cfg.path_avoiding(cfg.entry, None, lambda n: n["k"] == "CallExpr" and n.get("callee") == "exitFailure", src_idx=-1)
    # path_avoiding treats exitFailure as a no-return call, so reaching the exit block means a path without it
    if p is not None:
        rep.violation("K2", "fatal-exits", "comsg.c:%d" % fatal["l"], "comsgVFatal can return without calling exitFailure")
    else:
        rep.ok("K2", "fatal-exits")
    ec = f_comsg.func("comsgErrorCount")
    rc = return_closure(ec)
    if len(rc) == 1 and "nErrors" in rc[0][2]:
        rep.ok("K3", "chain:comsgErrorCount")
    else:
        rep.violation("K3", "chain:comsgErrorCount", "comsg.c:%d" % ec["l"], "comsgErrorCount no longer returns nErrors")

    # ---- K3 chain ----------------------------------------------------------
    f_axl = common.extract("axlcomp.c", all_trees=True)
    f_main = common.extract("main.c", all_trees=True)
    chain = [
        (f_main, "main", {"compCmd"}, 0),
        (f_axl, "compCmd", {"compFilesLoop"}, None),
        (f_axl, "compFilesLoop", {"compSourceFile", "compSavedFile"}, 0),
        (f_axl, "compSourceFile", {"comsgErrorCount"}, 0),
        (f_axl, "compSavedFile", {"comsgErrorCount"}, 0),
    ]
    frozen_const_returns = json.load(open(os.path.join(FROZEN, "c07_const_returns.json")))
    for facts, name, need, max_const_returns in chain:
        fn = facts.func(name)
        rcs = return_closure(fn)
        where = "%s:%d (%s)" % (facts.unit, fn["l"], name)
        if not rcs:
            rep.violation("K3", "chain:" + name, where, "%s has no return statement" % name)
            continue
        consts = [r for r in rcs if not r[1] and not r[2]]
        good = [r for r in rcs if need & r[1]]
        allowed_consts = frozen_const_returns.get(name, {}).get("count", 0)
        if need - set().union(*[r[1] for r in rcs]):
            rep.violation("K3", "chain:" + name, where,
                          "no return of %s depends on %s: the error count no longer reaches the exit status" % (name, sorted(need)))
        elif len(consts) > allowed_consts:
            r = consts[-1][0]
            rep.violation("K3", "chain-const:" + name, "%s:%d (%s)" % (facts.unit, r["l"], name),
                          "%s has %d return(s) of a value that does not depend on any call or global (frozen: %d): an error "
                          "counted before this point would be reported as success" % (name, len(consts), allowed_consts))
        else:
            rep.ok("K3", "chain:" + name, sample={"function": name, "returns": len(rcs), "depends_on": sorted(need)})
    # totErrors only grows
    fl = f_axl.func("compFilesLoop")
    tot = []
    for x in walk(fl["body"]):
        if x["k"] in ("BinaryOperator", "CompoundAssignOperator") and x["op"] in ("=", "+=", "-=", "*=", "/=", "&=", "|=", "^=", "%="):
            l = strip(x["c"][0])
            if l is not None and l["k"] == "DeclRefExpr" and l["n"] == "totErrors":
                tot.append(x)
        if x["k"] == "UnaryOperator" and x["op"] in ("--", "post--", "++", "post++"):
            l = strip(x["c"][0])
            if l is not None and l["k"] == "DeclRefExpr" and l["n"] == "totErrors":
                tot.append(x)
    zero = [x for x in tot if x.get("op") == "=" and const_value(x["c"][1]) == 0]
    bad = [x for x in tot if not ((x.get("op") == "=" and const_value(x["c"][1]) == 0) or x.get("op") in ("+=", "++", "post++"))]
    if bad or len(zero) > 1 or not tot:
        x = (bad or zero or [fl])[0]
        rep.violation("K3", "totErrors-monotone", "axlcomp.c:%d (compFilesLoop)" % x["l"],
                      "totErrors must be set to 0 once and only increased afterwards")
    else:
        rep.ok("K3", "totErrors-monotone")

    # success exits
    frozen_exits = json.load(open(os.path.join(FROZEN, "c07_success_exits.json")))
    seen = set()
    # counters of comsg.c that are never put back: accessor `return G;` where G is only ever incremented.  comsgErrorCount()
    # reads nErrors, which comsgInit resets for every file of the invocation (and every step of the loop).
    f_comsg_all = common.extract("comsg.c", all_trees=True)
    writes = {}
    for nm_, fn_ in f_comsg_all.funcs.items():
        if "body" not in fn_:
            continue
        for x in walk(fn_["body"]):
            if x["k"] in ("BinaryOperator", "CompoundAssignOperator") and x["op"] in ("=", "+=", "-=") or \
                    x["k"] == "UnaryOperator" and x["op"] in ("++", "post++", "--", "post--"):
                l = strip(x["c"][0])
                if l is not None and l["k"] == "DeclRefExpr":
                    writes.setdefault(l["n"], []).append(x["op"])
    wide = set()
    for nm_, fn_ in f_comsg_all.funcs.items():
        if "body" not in fn_ or not nm_.startswith("comsgError"):
            continue
        rets = [r for r in walk(fn_["body"]) if r["k"] == "ReturnStmt" and r["c"] and r["c"][0] is not None]
        if len(rets) == 1:
            g = strip(rets[0]["c"][0])
            if g is not None and g["k"] == "DeclRefExpr" and writes.get(g["n"]) and all(o in ("++", "post++") for o in writes[g["n"]]):
                wide.add(nm_)
    for d in dig.values():
        for unit, func, what, line, guarded in d["exits"]:
            key = "%s:%s" % (unit, func)
            seen.add(key)
            ent = frozen_exits.get(key)
            if ent is not None and ent["kind"] == "guarded" and not guarded:
                rep.violation("K3", "success-exit:" + key, "%s:%d (%s)" % (unit, line, func),
                              "%s in %s can be reached while compiling a source file and is not preceded by "
                              "`if (comsgErrorCount() != 0) exitFailure();`: an error already printed is followed by exit status 0" % (what, func))
            elif ent is not None and ent["kind"] == "guarded" and guarded not in wide:
                rep.violation("K3", "success-exit-whole-invocation:" + key, "%s:%d (%s)" % (unit, line, func),
                              "%s in %s is guarded by %s(), a count that is put back to zero for every file of the invocation: "
                              "`aldor bad.as quit.as` prints the errors of the first file and leaves with status 0 at the "
                              "second file's #quit.  The guard must read a count that is never reset (%s)"
                              % (what, func, guarded, ", ".join(sorted(wide)) or "none exists in comsg.c"))
            elif ent is not None:
                rep.ok("K3", "success-exit:" + key, nontrivial=(ent["kind"] == "guarded"))
            else:
                rep.violation("K3", "success-exit:" + key, "%s:%d (%s)" % (unit, line, func),
                              "%s called from %s, which is not in the frozen set of places that may end the process with "
                              "status 0: if an error was counted before, the exit status would be dishonest" % (what, func))
    rep.floor("success-exit call sites", len(seen), 3)

    # ---- K4 ----------------------------------------------------------------
    mfn = f_main.func("main")
    clamp = False
    for x in walk(mfn["body"]):
        if x["k"] == "IfStmt":
            cond = x["c"][0]
            for b in common.find(cond, "BinaryOperator"):
                if b["op"] in (">", ">=") and const_value(b["c"][1]) is not None and 1 <= const_value(b["c"][1]) <= 255:
                    then = x["c"][1]
                    for a in walk(then):
                        if a["k"] == "BinaryOperator" and a["op"] == "=" and const_value(a["c"][1]) is not None and 1 <= const_value(a["c"][1]) <= 255:
                            clamp = True
    normalised = False
    for r in common.find(mfn["body"], "ReturnStmt"):
        if r["c"]:
            e = strip(r["c"][0])
            if e["k"] == "BinaryOperator" and e["op"] in ("!=", "||", ">"):
                normalised = True
            if e["k"] == "ConditionalOperator":
                normalised = True
    if clamp or normalised:
        rep.ok("K4", "main-status", sample={"idiom": "clamp" if clamp else "normalised"})
    else:
        rep.violation("K4", "main-status", "main.c:%d (main)" % mfn["l"],
                      "main returns the error total unmodified: only 8 bits reach the parent, so 256 errors exit with status 0")
    rep.assumptions += ["plain char may be signed or unsigned: index range of a char value is taken as [-128, 255]",
                        "definition closure of returned values is flow-insensitive (any assignment to a local counts)"]
    return rep
