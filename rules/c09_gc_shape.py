"""C09 (partial): shape of the collector.

G1  registers are flushed to the stack before marking; mark strictly before
    sweep on every path;
G2  the marker asks for all three root classes (stack, initial static data,
    dynamic data) and every class reaches the range marker on every path;
G3  mark and sweep are entered only from the collector driver, and the driver
    only from stoGc inside its re-entrancy guard.
Both build configurations (compiler and -DFOAM_RTS runtime).
"""
from . import common
from .common import AnalysisBroken, strip, walk, calls, const_value, render

EXPLANATION = (
    "In store.c, for the compiler and the -DFOAM_RTS configuration: G1 on the CFG of stoGcMarkAndSweep every path to the call "
    "of stoGcSweep passes stoGcMark, and every path to stoGcMark passes a register-flush idiom (setjmp on a local jmp_buf, "
    "__builtin_unwind_init or getcontext). G2 the constant-evaluated argument of osMemMap in stoGcMark contains the bits "
    "OSMEM_STACK, OSMEM_IDATA and OSMEM_DDATA; from each of the three case labels of the switch over the segment's use "
    "every CFG path passes a call of stoGcMarkRange before the case is left. G3 who-may-call over every unit of the "
    "configuration: stoGcMark and stoGcSweep are called only by stoGcMarkAndSweep, that only by stoGc, and in stoGc the call "
    "is dominated by the test-and-return of the static inGc flag and by inGc = true. "
    "G4 the cells that hold the sweep's free-piece index (B-tree nodes and list heads, cut from whole pages by stoAllocInner) "
    "lie inside their pages: cell count is the floor of page bytes over cell size (same obligation as C10 T-carve). "
    "G5 in fint.c (fintFreeJunk, the stack cleaning before a requested collection) storage handed to a free routine through an lvalue "
    "rooted at a global has that lvalue overwritten on every CFG path from the call to the function's exit. "
    "Not decided: completeness of conservative marking for every heap shape or schedule.")

FLUSH = {"setjmp", "_setjmp", "__sigsetjmp", "sigsetjmp", "__builtin_unwind_init", "getcontext"}


def is_call(*names):
    return lambda n: n["k"] == "CallExpr" and n.get("callee") in names


def callers_digest(f):
    out = []
    for name, fn in f.funcs.items():
        if "body" not in fn or not fn["file"].endswith(f.unit):
            continue
        for c in calls(fn["body"]):
            if c.get("callee") in ("stoGcMark", "stoGcSweep", "stoGcMarkAndSweep"):
                out.append((f.unit, name, c["callee"], c["l"]))
        for x in walk(fn["body"]):
            if x["k"] == "DeclRefExpr" and x.get("dk") == "fn" and x["n"] in ("stoGcMark", "stoGcSweep", "stoGcMarkAndSweep"):
                out.append((f.unit, name, "ref:" + x["n"], x["l"]))
    return out


def check_config(rep, config, units):
    f = common.extract("store.c", config, cfg=["stoGcMarkAndSweep", "stoGcMark", "stoGc"])
    tag = "[%s]" % config
    # ---- G1 ----
    fn = f.func("stoGcMarkAndSweep")
    cfg = common.CFG(fn)
    sweeps = cfg.events(is_call("stoGcSweep"))
    marks = cfg.events(is_call("stoGcMark"))
    if not sweeps or not marks:
        raise AnalysisBroken("stoGcMarkAndSweep no longer calls stoGcMark/stoGcSweep")
    where = "store.c:%d (stoGcMarkAndSweep)%s" % (fn["l"], tag)
    p = cfg.path_avoiding(cfg.entry, is_call("stoGcSweep"), is_call("stoGcMark"), src_idx=-1)
    if p is not None:
        rep.violation("G1", "mark-before-sweep" + tag, where, "stoGcSweep is reachable without a preceding stoGcMark: live "
                      "objects would be reclaimed", detail={"cfg_path": p[:12]})
    else:
        rep.ok("G1", "mark-before-sweep" + tag)

    def flush(n):
        if n["k"] != "CallExpr" or n.get("callee") not in FLUSH:
            return False
        if n["callee"] in ("__builtin_unwind_init",):
            return True
        a = strip(n["c"][1]) if len(n["c"]) > 1 else None
        # the buffer must be a local (stack) object so that the registers land on the scanned stack
        while a is not None and a["k"] in ("UnaryOperator", "MemberExpr", "ArraySubscriptExpr"):
            a = strip(a["c"][0])
        return a is not None and a["k"] == "DeclRefExpr" and a.get("dk") == "var" and not a.get("g")

    p = cfg.path_avoiding(cfg.entry, is_call("stoGcMark"), flush, src_idx=-1)
    if p is not None:
        rep.violation("G1", "registers-flushed" + tag, where, "stoGcMark is reachable without flushing the registers to a "
                      "stack buffer first: a pointer held only in a callee-saved register is not a root")
    else:
        rep.ok("G1", "registers-flushed" + tag)
    # ---- G2 ----
    fm = f.func("stoGcMark")
    cm = common.CFG(fm)
    mm = [c for c in calls(fm["body"], "osMemMap")]
    if len(mm) != 1:
        raise AnalysisBroken("stoGcMark: expected one osMemMap call")
    mask = const_value(mm[0]["c"][1])
    # the three bits are read from the case labels' values
    sws = [s for s in common.find(fm["body"], "SwitchStmt")]
    labels = {}
    for sw in sws:
        for x in walk(sw):
            if x["k"] == "CaseStmt" and x.get("lon", "").startswith("OSMEM_"):
                labels[x["lon"]] = x
    need = ["OSMEM_STACK", "OSMEM_IDATA", "OSMEM_DDATA"]
    wherem = "store.c:%d (stoGcMark)%s" % (fm["l"], tag)
    for l in need:
        if l not in labels:
            rep.violation("G2", "case:%s%s" % (l, tag), wherem, "the switch over the segment use has no case %s" % l)
            continue
        bit = labels[l]["lo"]
        if mask is None or not (mask & bit):
            rep.violation("G2", "requested:%s%s" % (l, tag), wherem,
                          "osMemMap is asked for %#x, which lacks %s (%#x): that class of roots is never scanned" % (mask or 0, l, bit))
        else:
            rep.ok("G2", "requested:%s%s" % (l, tag))
        # block that carries this label
        blk = [bid for bid, b in cm.blocks.items() if b.get("label") == labels[l]["id"]]
        if not blk:
            raise AnalysisBroken("no CFG block for case %s" % l)
        p = cm.path_avoiding(blk[0], None, is_call("stoGcMarkRange"), src_idx=-1)
        if p is not None:
            rep.violation("G2", "marked:%s%s" % (l, tag), wherem,
                          "a segment of class %s can be left without calling stoGcMarkRange on it" % l, detail={"cfg_path": p[:12]})
        else:
            rep.ok("G2", "marked:%s%s" % (l, tag))
    # ---- G3 ----
    dig = common.map_units(units, callers_digest, config, all_trees=True)
    allowed = {"stoGcMark": {"stoGcMarkAndSweep"}, "stoGcSweep": {"stoGcMarkAndSweep"}, "stoGcMarkAndSweep": {"stoGc"}}
    n = 0
    for u, lst in dig.items():
        for unit, caller, callee, line in lst:
            n += 1
            cal = callee[4:] if callee.startswith("ref:") else callee
            if callee.startswith("ref:") and caller in allowed[cal]:
                continue
            key = "caller:%s<-%s%s" % (cal, caller, tag)
            if caller in allowed[cal]:
                rep.ok("G3", key)
            else:
                rep.violation("G3", key, "%s:%d (%s)%s" % (unit, line, caller, tag),
                              "%s is called from %s: a second entry into mark/sweep bypasses the collector driver and its "
                              "re-entrancy guard" % (cal, caller))
    rep.floor("call sites of the collector phases" + tag, n, 3)
    fg = f.func("stoGc")
    cg = common.CFG(fg)

    def set_ingc(n):
        if n["k"] == "BinaryOperator" and n["op"] == "=":
            l = strip(n["c"][0])
            return l is not None and l.get("n") == "inGc" and const_value(n["c"][1]) not in (None, 0)
        return False

    p = cg.path_avoiding(cg.entry, is_call("stoGcMarkAndSweep"), set_ingc, src_idx=-1)
    guard = [x for x in walk(fg["body"]) if x["k"] == "IfStmt" and strip(x["c"][0]) is not None and strip(x["c"][0]).get("n") == "inGc"
             and x["c"][1] is not None and common.ends_flow(x["c"][1])]
    if p is not None or not guard:
        rep.violation("G3", "reentrancy-guard" + tag, "store.c:%d (stoGc)%s" % (fg["l"], tag),
                      "stoGc must return when inGc is set and set it before calling stoGcMarkAndSweep")
    else:
        rep.ok("G3", "reentrancy-guard" + tag)


FREE_LIKE = {"fintChainedStackFree", "stoFree", "free"}


def g5(rep):
    """Interpreter stack cleaning before a collection (fint.c): storage reachable from a global that is handed to a free
    routine must have its global reference overwritten before the function returns."""
    f = common.extract("fint.c", all_trees=True, all_cfg=True)
    n = 0
    for name, fn in sorted(f.funcs.items()):
        if "body" not in fn or not fn["file"].endswith("fint.c"):
            continue
        sites = []
        for c in calls(fn["body"]):
            if c.get("callee") in FREE_LIKE and len(c["c"]) >= 2:
                a = strip(c["c"][1])
                if a is not None and any(y["k"] == "DeclRefExpr" and y.get("dk") == "var" and y.get("g") for y in walk(a)) \
                        and a["k"] != "DeclRefExpr":
                    sites.append((c, common.render(a), c))
                elif a is not None and a["k"] == "DeclRefExpr" and a.get("dk") == "var" and not a.get("g"):
                    # a local holding the value of a global-rooted lvalue: `t = G...; G... = 0; free(t)`
                    for y in walk(fn["body"]):
                        src = None
                        if y["k"] == "BinaryOperator" and y["op"] == "=" and strip(y["c"][0]) is not None and strip(y["c"][0]).get("did") == a.get("did"):
                            src = strip(y["c"][1])
                        for d in (y.get("decls", []) if y["k"] == "DeclStmt" else []):
                            if d.get("did") == a.get("did") and d.get("init") is not None:
                                src = strip(d["init"])
                        if src is not None and src["k"] != "DeclRefExpr" and src["k"] != "CallExpr" and any(
                                z["k"] == "DeclRefExpr" and z.get("dk") == "var" and z.get("g") for z in walk(src)):
                            sites.append((c, common.render(src), y))
        if not sites:
            continue
        cfg = common.CFG(fn)
        for c, txt, start in sites:
            n += 1
            key = "freed-global-ref-reset:%s:%s" % (name, txt)
            ev = cfg.events(lambda nd, c=start: nd["id"] == c["id"])
            if not ev and start is not c:
                # the load sits in a declaration: start from the function entry
                ev = [(cfg.entry, -1, None)]
            if not ev:
                raise AnalysisBroken("%s: call at line %d not found in the CFG" % (name, c["l"]))
            b, j, _ = ev[0]

            def resets(nd, txt=txt):
                return nd["k"] == "BinaryOperator" and nd["op"] == "=" and common.render(strip(nd["c"][0])) == txt
            p = cfg.path_avoiding(b, None, resets, src_idx=j)
            if p is None:
                rep.ok("G5", key, sample={"site": "fint.c:%d" % c["l"], "rule": "every path from the free to the exit assigns %s" % txt})
            else:
                rep.violation("G5", key, "fint.c:%d (%s)" % (c["l"], name),
                              "%s is freed but the global reference to it is still in place when %s returns: the interpreter reuses the "
                              "freed stack segment while the allocator hands the same memory out again" % (txt, name),
                              detail={"cfg_path": p[:10]})
    rep.floor("frees of storage reachable from an interpreter global", n, 1)


def g6(rep, config):
    """The marker descends into the object referenced by the last word of a range by iteration (goto TailRecursion), so that a
    list linked through its last field costs no C stack.  The branch is taken when the cursor equals the last pointer slot.  A
    byte-granular bound (ptrOff(hi, 1 - sizeof(char *)), used with < to stop the scan) is never equal to an aligned cursor:
    compared with ==, the iteration is dead and marking recurses once per cell until the C stack overflows."""
    f = common.extract("store.c", config, trees=["stoGcMarkRange"])
    fn = f.func("stoGcMarkRange")
    par = common.parents(fn["body"])
    tag = "" if config == "compiler" else " [runtime]"
    align = 8
    unaligned = {}
    for x in walk(fn["body"]):
        if x["k"] == "BinaryOperator" and x["op"] == "=" and (strip(x["c"][0]) or {}).get("k") == "DeclRefExpr":
            offs = [y["cv"] for y in walk(x["c"][1]) if y["k"] == "BinaryOperator" and y["op"] == "+" and
                    "char" in (y.get("t") or "") and len(y["c"]) == 2 and (strip(y["c"][1]) or {}).get("cv") is not None
                    for y in [strip(y["c"][1])]]
            if offs and any(o % align for o in offs):
                unaligned[strip(x["c"][0])["n"]] = x["l"]
    gotos = [x for x in walk(fn["body"]) if x["k"] == "GotoStmt" and x.get("n") == "TailRecursion"]
    if len(gotos) != 1:
        raise AnalysisBroken("stoGcMarkRange: expected one `goto TailRecursion` (found %d)" % len(gotos))
    if not unaligned:
        raise AnalysisBroken("stoGcMarkRange: the byte-granular scan bound (ptrOff(hi, 1 - sizeof(char *))) was not recognised")
    cur, cond = gotos[0], None
    while cur["id"] in par and cond is None:
        p_ = par[cur["id"]]
        if p_["k"] == "IfStmt" and any(y is cur for y in walk(p_["c"][1])):
            cond = p_["c"][0]
        cur = p_
    if cond is None:
        raise AnalysisBroken("stoGcMarkRange: `goto TailRecursion` is not under an if")
    eqs = [y for y in walk(cond) if y["k"] == "BinaryOperator" and y["op"] == "=="]
    if len(eqs) != 1:
        raise AnalysisBroken("stoGcMarkRange: the tail-iteration test is not one equality")
    names = [y["n"] for y in walk(eqs[0]) if y["k"] == "DeclRefExpr"]
    where = "store.c:%d (stoGcMarkRange)%s" % (eqs[0]["l"], tag)
    key = "tail-iteration-live" + tag
    hit = [n for n in names if n in unaligned]
    if hit:
        rep.violation("G6", key, where, "the tail-iteration test compares the scan cursor for equality with '%s', a byte-granular bound "
                      "(defined at line %d with an offset that is not a multiple of the pointer size): the test is never true, "
                      "every descent is a C recursion, and a long list linked through its last field overflows the C stack during "
                      "a collection" % (hit[0], unaligned[hit[0]]))
        return
    # the accepted form: cursor == hi - 1 in pointer units
    other = [strip(c) for c in eqs[0]["c"]]
    last = [y for o in other for y in walk(o) if y["k"] == "BinaryOperator" and y["op"] == "-" and
            (strip(y["c"][1]) or {}).get("cv", const_value(y["c"][1])) == 1 and "*" in (y.get("t") or "")]
    if last:
        rep.ok("G6", key, sample={"test": render(eqs[0])[:80]})
    else:
        raise AnalysisBroken("stoGcMarkRange: the tail-iteration test `%s` is neither `cursor == hi - 1` nor a comparison with the "
                             "byte-granular bound; re-read" % render(eqs[0])[:80])


def g7(rep, config):
    """The collector's roots come from osMemMap.  The Linux variant fills a table with one entry per writable line of
    /proc/<pid>/maps: the fill loop must bound the entry cursor by the table's capacity (the number of mappings is the process's,
    not the compiler's), and the look-back at the previous entry must not happen before the first entry exists."""
    f = common.extract("opsys.c", config, trees=["osMemMap"])       # os_unix.c is included by opsys.c
    fn = f.func("osMemMap")
    tag = "" if config == "compiler" else " [runtime]"
    incs = [x for x in walk(fn["body"]) if x["k"] == "UnaryOperator" and x.get("op") in ("++", "post++", "pre++") or
            x["k"] == "UnaryOperator" and "++" in (x.get("op") or "")]
    par = common.parents(fn["body"])
    loops = {}
    for x in incs:
        v = strip(x["c"][0])
        if v is None or v["k"] != "DeclRefExpr":
            continue
        cur = x
        while cur["id"] in par:
            cur = par[cur["id"]]
            if cur["k"] in ("WhileStmt", "ForStmt", "DoStmt"):
                loops.setdefault(cur["id"], (cur, set()))[1].add(v["n"])
                break
    fills = []
    for lp, vs in loops.values():
        cond = lp["c"][0] if lp["k"] == "WhileStmt" else (lp["c"][1] if lp["k"] == "ForStmt" else lp["c"][1])
        reads = [c for c in calls(cond) if c.get("callee") in ("fgets", "read", "getline", "fscanf")] if cond is not None else []
        if reads and any(y["k"] == "MemberExpr" and (strip(y["c"][0]) or {}).get("n") in vs for y in walk(lp)):
            fills.append((lp, cond, vs))
    if len(fills) != 1:
        raise AnalysisBroken("osMemMap: expected one loop reading the mapping lines and advancing an entry cursor (found %d)" % len(fills))
    lp, cond, vs = fills[0]
    where = "os_unix.c:%d (osMemMap)%s" % (lp["l"], tag)
    cursors = [v for v in vs if any(y["k"] == "MemberExpr" and (strip(y["c"][0]) or {}).get("n") == v for y in walk(lp))]
    if len(cursors) != 1:
        raise AnalysisBroken("osMemMap: entry cursor not identified (%s)" % sorted(vs))
    cur = cursors[0]
    bounded = [y for y in walk(cond) if y["k"] == "BinaryOperator" and y["op"] in ("<", "<=", ">", ">=", "!=") and
               any(z["k"] == "DeclRefExpr" and z["n"] == cur for z in walk(y))]
    inner = [y for y in walk(lp) if y["k"] == "IfStmt" and any(z["k"] == "BreakStmt" for z in walk(y)) and
             any(z["k"] == "DeclRefExpr" and z["n"] == cur for z in walk(y["c"][0]))]
    if bounded or inner:
        rep.ok("G7", "memmap-table-bounded" + tag, sample={"bound": common.render((bounded or [inner[0]["c"][0]])[0])[:60]})
    else:
        rep.violation("G7", "memmap-table-bounded" + tag, where,
                      "the loop that records one table entry per writable mapping advances '%s' with no comparison against the "
                      "table's capacity: a process with more mappings than the table has slots overwrites what follows the table "
                      "at its first collection" % cur)
    back = [y for y in walk(lp) if y["k"] == "ArraySubscriptExpr" and (strip(y["c"][0]) or {}).get("n") == cur and
            (const_value(y["c"][1]) or 0) < 0]
    unguarded = []
    for b in back:
        c2, ok = b, False
        while c2["id"] in par and c2 is not lp:
            p_ = par[c2["id"]]
            if p_["k"] == "BinaryOperator" and p_["op"] == "&&" and p_["c"][1] is not None and any(z is c2 for z in walk(p_["c"][1])):
                if any(z["k"] == "BinaryOperator" and z["op"] in (">", "!=", ">=") and
                       any(w["k"] == "DeclRefExpr" and w["n"] == cur for w in walk(z)) for z in walk(p_["c"][0])):
                    ok = True
            if p_["k"] == "IfStmt" and p_["c"][1] is not None and any(z is c2 for z in walk(p_["c"][1])):
                if any(z["k"] == "BinaryOperator" and z["op"] in (">", "!=", ">=") and
                       any(w["k"] == "DeclRefExpr" and w["n"] == cur for w in walk(z)) for z in walk(p_["c"][0])):
                    ok = True
            c2 = p_
        if not ok:
            unguarded.append(b)
    if back and not unguarded:
        rep.ok("G7", "memmap-lookback-guarded" + tag)
    elif unguarded:
        rep.violation("G7", "memmap-lookback-guarded" + tag, "os_unix.c:%d (osMemMap)%s" % (unguarded[0]["l"], tag),
                      "`%s` is read with no test that an entry precedes the cursor: for the first data segment it reads the word "
                      "before the table" % common.render(unguarded[0]))


def g8(rep, config):
    """The sweep trusts `piece->isFree`: a neighbour flagged free is taken to be in the free-piece index and is unlinked from it
    before merging (piecePutMixed).  Allocation can collect (see C10 T-stale: any call that reaches pagesGet may start stoGc).
    So between flagging a piece free and the end of the function nothing that may collect may run unless the piece has been
    linked first: on the CFG, from every store `P->isFree = <true>` no path reaches a call that may collect.  (The piece whose
    flag is set last, after mxmemLink, satisfies this trivially.)"""
    f = common.extract("store.c", config, all_trees=True, all_cfg=True)
    funcs = {n: fn for n, fn in f.funcs.items() if "body" in fn and fn.get("file", "").endswith("store.c")}
    cg = {n: set(c.get("callee") for c in common.calls(fn["body"]) if c.get("callee") in funcs) for n, fn in funcs.items()}
    may_collect = {"stoGc"}
    changed = True
    while changed:
        changed = False
        for n, cs in cg.items():
            if n not in may_collect and cs & may_collect:
                may_collect.add(n)
                changed = True
    if "mxmemLink" not in may_collect:
        raise AnalysisBroken("store.c [%s]: mxmemLink no longer reaches the collector; G8 must be re-derived" % config)
    n = 0
    for name, fn in sorted(funcs.items()):
        if name.startswith("stoGc"):
            continue
        stores = []
        for x in walk(fn["body"]):
            if x["k"] == "BinaryOperator" and x["op"] == "=":
                l = strip(x["c"][0])
                if l is not None and l["k"] == "MemberExpr" and l["n"] == "isFree" and const_value(x["c"][1]) not in (0, None):
                    stores.append((x, common.render(strip(l["c"][0]))))
        if not stores:
            continue
        cfg = common.CFG(fn)
        for x, who in stores:
            n += 1
            ev = cfg.events(lambda e, x=x: e.get("id") == x["id"])
            if not ev:
                raise AnalysisBroken("store.c [%s] %s: the store to isFree is not in the CFG" % (config, name))
            b, i, _ = ev[0]

            def unflag(e, who=who):
                if e["k"] == "BinaryOperator" and e["op"] == "=":
                    l = strip(e["c"][0])
                    return l is not None and l["k"] == "MemberExpr" and l["n"] == "isFree" and const_value(e["c"][1]) == 0 and \
                        common.render(strip(l["c"][0])) == who
                return False
            hit = None
            for cb, ci, cn in cfg.events(lambda e: e["k"] == "CallExpr" and e.get("callee") in may_collect):
                if cfg.path_avoiding(b, lambda e, cn=cn: e.get("id") == cn["id"], unflag, src_idx=i) is not None:
                    hit = cn
                    break
            key = "flagged-free-only-when-linked:%s:%s" % (name, who)
            where = "store.c:%d (%s) [%s]" % (x["l"], name, config)
            if hit is None:
                rep.ok("G8", key + ":" + config)
            else:
                rep.violation("G8", key, where,
                              "`%s->isFree` is set and %s (line %d) is called afterwards; that call can start a collection "
                              "(it reaches pagesGet -> stoGc when no page is free), and the sweep takes a flagged neighbour to be in "
                              "the free-piece index: it unlinks it before merging, reading link fields that still hold user data "
                              "(fault or a corrupted index, only when the collector happens to run inside this call)"
                              % (who, hit.get("callee"), hit["l"]))
    rep.floor("stores that flag a piece free (%s)" % config, n, 2)
    # the other direction: a piece taken OUT of the index keeps its flag from when it was put in; the flag must be cleared
    # before anything that may collect runs (piecePutMixed merging into a free left neighbour re-links that neighbour)
    m = 0
    for name, fn in sorted(funcs.items()):
        if name.startswith("stoGc"):
            continue
        outs = [c for c in common.calls(fn["body"]) if c.get("callee") in ("mxmemUnlinkFromBTree", "mxmemUnlink")]
        if not outs:
            continue
        cfg = common.CFG(fn)

        def clears(e):
            if e["k"] == "BinaryOperator" and e["op"] == "=":
                l = strip(e["c"][0])
                return l is not None and l["k"] == "MemberExpr" and l["n"] == "isFree" and const_value(e["c"][1]) == 0
            return False
        for c in outs:
            m += 1
            ev = cfg.events(lambda e, c=c: e.get("id") == c["id"])
            if not ev:
                raise AnalysisBroken("store.c [%s] %s: unlink call not in the CFG" % (config, name))
            b, i, _ = ev[0]
            hit = None
            for cb, ci, cn in cfg.events(lambda e: e["k"] == "CallExpr" and e.get("callee") in may_collect and
                                         e.get("callee") not in ("mxmemUnlinkFromBTree", "mxmemUnlink")):
                if cfg.path_avoiding(b, lambda e, cn=cn: e.get("id") == cn["id"], clears, src_idx=i) is not None:
                    hit = cn
                    break
            key = "unlinked-piece-unflagged:%s@%d" % (name, sum(1 for o in outs if o["l"] <= c["l"]))
            if hit is None:
                rep.ok("G8", key + ":" + config)
            else:
                rep.violation("G8", key, "store.c:%d (%s) [%s]" % (c["l"], name, config),
                              "a piece is taken out of the free-piece index here and %s (line %d), which may start a collection, "
                              "is reached without its isFree flag having been cleared: during that collection the sweep takes the "
                              "piece for an indexed free neighbour and unlinks it again (index corruption; the audit fails)"
                              % (hit.get("callee"), hit["l"]))
    rep.floor("pieces taken out of the index outside the collector (%s)" % config, m, 2)


KIND_TABLES = ("stoObRegistered", "stoObNoInternalPtrs", "stoObAldorTracer", "stoObCTracer")


def g9(rep, config):
    """What the marker may skip is decided per object kind: `stoObNoInternalPtrs[kind]` says the objects of a kind hold no
    pointers.  Registering a kind must affect that kind only.  The tables have one entry per kind number; a registration that
    reduces the number first (masking it to the tag's width, a modulo) makes a user kind of 32 or more overwrite a built-in
    kind: `StoNewObject(32, pointer-free)` then declares kind 0 -- every record, array and closure -- pointer-free and the next
    collection frees everything reachable only through the heap.  Every store into a per-kind table of store.c is indexed by a
    value that has not been through `&` or `%` (a plain parameter, field or loop variable)."""
    f = common.extract("store.c", config, all_trees=True)
    n = 0
    for name, fn in sorted(f.funcs.items()):
        if "body" not in fn or not fn.get("file", "").endswith("store.c"):
            continue
        reduced = set()          # locals that hold a masked value
        for x in walk(fn["body"]):
            tgt = rhs = None
            if x["k"] == "BinaryOperator" and x["op"] == "=":
                tgt, rhs = strip(x["c"][0]), x["c"][1]
            elif x["k"] == "CompoundAssignOperator" and x["op"] in ("&=", "%="):
                t = strip(x["c"][0])
                if t is not None and t["k"] == "DeclRefExpr":
                    reduced.add(t["n"])
            elif x["k"] == "DeclStmt":
                for d in x.get("decls", []):
                    if d.get("init") is not None and any(y["k"] == "BinaryOperator" and y["op"] in ("&", "%") for y in walk(d["init"])):
                        reduced.add(d["n"])
            if tgt is not None and tgt["k"] == "DeclRefExpr" and rhs is not None and \
                    any(y["k"] == "BinaryOperator" and y["op"] in ("&", "%") for y in walk(rhs)):
                reduced.add(tgt["n"])
        for x in walk(fn["body"]):
            if x["k"] != "BinaryOperator" or x["op"] != "=":
                continue
            l = strip(x["c"][0])
            if l is None or l["k"] != "ArraySubscriptExpr" or (strip(l["c"][0]) or {}).get("n") not in KIND_TABLES:
                continue
            n += 1
            idx = l["c"][1]
            bad = any(y["k"] == "BinaryOperator" and y["op"] in ("&", "%") for y in walk(idx)) or \
                any(y["k"] == "DeclRefExpr" and y["n"] in reduced for y in walk(idx))
            key = "kind-table-indexed-by-the-kind:%s:%s" % (name, strip(l["c"][0])["n"])
            if not bad:
                rep.ok("G9", key + ":" + config, nontrivial=False)
            else:
                rep.violation("G9", key, "store.c:%d (%s) [%s]" % (x["l"], name, config),
                              "the per-kind table is written at an index that has been reduced (`%s`): registering a kind number "
                              "beyond the reduced range overwrites the entry of a built-in kind (kind 32 lands on kind 0, the "
                              "kind of every record, array and closure); if it is registered pointer-free the marker stops looking "
                              "inside those objects and live data is freed at the next collection" % common.render(strip(idx))[:40])
    rep.floor("stores into the per-kind tables (%s)" % config, n, 2)


def g10(rep):
    """The conservative marker looks at word-aligned words only.  A RawRecord is laid out at run time by fiRawRecordValues from
    the sizes of its fields (fiSizeOfChar() = 1, fiSizeOfWord() = 8, ...): the offset stored for field i must be brought to the
    field's own boundary before it is stored, otherwise a pointer field that follows a byte-sized field sits at offset 1 and
    whatever it points to is freed by the next collection.  In the loop of fiRawRecordValues the value stored into result[i]
    is, on every path, the running offset after an alignment step (an update of that variable involving % or &)."""
    f = common.extract("foam_c.c", "runtime", trees=["fiRawRecordValues"], cfg=["fiRawRecordValues"])
    fn = f.func("fiRawRecordValues")
    cfg = common.CFG(fn)
    stores = []
    loops = [x for x in walk(fn["body"]) if x["k"] in ("ForStmt", "WhileStmt")]
    if len(loops) != 1:
        raise AnalysisBroken("fiRawRecordValues: expected one loop over the fields")
    for x in walk(loops[0]):
        if x["k"] == "BinaryOperator" and x["op"] == "=":
            l = strip(x["c"][0])
            if l is not None and l["k"] == "ArraySubscriptExpr" and const_value(l["c"][1]) is None:
                r = strip(x["c"][1])
                if r is not None and r["k"] == "DeclRefExpr":
                    stores.append((x, r["n"]))
    if len(stores) != 1:
        raise AnalysisBroken("fiRawRecordValues: expected one store `result[i] = <running offset>` in the loop, found %d" % len(stores))
    st, var = stores[0]

    # a local of the loop body that holds `<running offset> % align` (or `& mask`) stands for that remainder
    remainders = set()
    for x in walk(loops[0]):
        if x["k"] == "DeclStmt":
            for d in x.get("decls", []):
                if d.get("init") is not None and any(y["k"] == "BinaryOperator" and y["op"] in ("%", "&") and
                                                     (strip(y["c"][0]) or {}).get("n") == var for y in walk(d["init"])):
                    remainders.add(d["n"])

    def aligns(e):
        if e["k"] in ("BinaryOperator", "CompoundAssignOperator") and e["op"] in ("=", "+=", "&=", "-="):
            l = strip(e["c"][0])
            if l is not None and l["k"] == "DeclRefExpr" and l["n"] == var:
                return any(y["k"] == "BinaryOperator" and y["op"] in ("%", "&") for y in walk(e["c"][1])) or e["op"] == "&=" or \
                    any((y.get("mac") or "").startswith("ROUND_UP") for y in walk(e["c"][1])) or \
                    any(y["k"] == "DeclRefExpr" and y["n"] in remainders for y in walk(e["c"][1]))
        return False

    # an alignment step precedes the store in the loop body (it may be conditional on "not aligned yet" / "alignment > 1")
    body = loops[0]["c"][-1]
    sts = body["c"] if body["k"] == "CompoundStmt" else [body]
    p = True
    for s_ in sts:
        if s_ is None:
            continue
        if any(y is st for y in walk(s_)):
            break
        if any(aligns(y) for y in walk(s_)):
            p = None
    where = "foam_c.c:%d (fiRawRecordValues)" % st["l"]
    if p is None:
        rep.ok("G10", "raw-record-offsets-aligned", sample={"running offset": var})
    else:
        rep.violation("G10", "raw-record-offsets-aligned", where,
                      "the offset of a raw-record field is the plain sum of the preceding field sizes: in RawRecord(tag: Character, "
                      "body: PrimitiveArray ...) the pointer is stored at byte offset 1, the marker (which reads aligned words) never "
                      "sees it, and the array is freed at the next collection -- the program's output then depends on when the "
                      "collector runs")


def g12(rep):
    """The sweep walks a mixed section piece by piece; every piece has a first quantum and a length in quanta, and the tag
    array is cleared over [first, first + length) of *that* piece.  When a freed piece swallows a marked free neighbour, the
    neighbour's marks are cleared over the neighbour's own interval: its first quantum plus its own length.  Pairing the
    neighbour's first quantum with the length of the piece being freed clears too far when that piece is the larger one --
    the mark bits of the live piece that follows are wiped, and the sweep takes it for garbage (a live array is poisoned and
    handed out again).  In stoGcSweepMixed every loop that clears marks from `S` to `S + L` has S and L derived from the same
    piece (piece <- index, size <- piece, length <- size; the next piece's index is index + length)."""
    f = common.extract("store.c", "runtime", trees=["stoGcSweepMixed"])
    fn = f.func("stoGcSweepMixed")
    assigns = {}
    for x in walk(fn["body"]):
        if x["k"] == "BinaryOperator" and x["op"] == "=" and (strip(x["c"][0]) or {}).get("k") == "DeclRefExpr":
            assigns.setdefault(strip(x["c"][0])["n"], []).append(x["c"][1])
        elif x["k"] == "DeclStmt":
            for d in x.get("decls", []):
                if d.get("init") is not None:
                    assigns.setdefault(d["n"], []).append(d["init"])

    def names(e):
        return [y["n"] for y in walk(e) if y["k"] == "DeclRefExpr" and y.get("dk") in ("var", "parm")]
    owner = {}            # variable -> piece variable it belongs to
    # pieces from an index: pc = (MxMem *)(data + qmno*qmsize)
    for v, vals in assigns.items():
        for e in vals:
            if any(y["k"] == "BinaryOperator" and y["op"] == "*" for y in walk(e)) and "data" in names(e):
                for i in names(e):
                    if i not in ("data", "qmsize") and i in assigns:
                        owner[v] = v
                        owner[i] = v
    changed = True
    while changed:
        changed = False
        for v, vals in assigns.items():
            if v in owner:
                continue
            for e in vals:
                s_ = strip(e)
                ns = names(e)
                # size <- piece->nbytesThis ; length <- size / qmSize
                if any(y["k"] == "MemberExpr" and y["n"] == "nbytesThis" for y in walk(e)) and len([n for n in ns if n in owner]) == 1:
                    owner[v] = owner[[n for n in ns if n in owner][0]]; changed = True
                elif s_ is not None and s_["k"] == "BinaryOperator" and s_["op"] == "/" and (strip(s_["c"][0]) or {}).get("n") in owner:
                    owner[v] = owner[strip(s_["c"][0])["n"]]; changed = True
                # next piece: npc = mxmemNext(pc)
                elif (any((y.get("mac") or "") == "mxmemNext" for y in walk(e)) or
                      (s_ is not None and s_["k"] == "CallExpr" and s_.get("callee") == "mxmemNext")) and \
                        len(set(owner[n_] for n_ in ns if n_ in owner)) == 1:
                    src = [owner[n_] for n_ in ns if n_ in owner][0]
                    owner[v] = v; owner[("next", src)] = v; changed = True
                # next index: nqmno = qmno + nq, both of one piece -> belongs to that piece's successor
                elif s_ is not None and s_["k"] == "BinaryOperator" and s_["op"] == "+":
                    a, b = (strip(s_["c"][0]) or {}).get("n"), (strip(s_["c"][1]) or {}).get("n")
                    if a in owner and b in owner and owner[a] == owner[b] and ("next", owner[a]) in owner:
                        owner[v] = owner[("next", owner[a])]; changed = True
    n = 0
    par = common.parents(fn["body"])
    for lp in walk(fn["body"]):
        if lp["k"] not in ("ForStmt", "WhileStmt") or not any((y.get("mac") or "") == "QmInfoClearMark" for y in walk(lp["c"][-1])) or \
                any(y["k"] in ("ForStmt", "WhileStmt") for y in walk(lp["c"][-1])):
            continue
        if lp["k"] == "ForStmt":
            init, cond = strip(lp["c"][0]), strip(lp["c"][-3])
        else:
            cond = strip(lp["c"][0])
            init = None
            pp = par.get(lp["id"])
            if pp is not None and pp["k"] == "CompoundStmt":
                sts_ = [y for y in pp["c"] if y is not None]
                k_ = next(i for i, y in enumerate(sts_) if y is lp)
                if k_ > 0:
                    init = strip(sts_[k_ - 1])
        if init is None or cond is None or init["k"] != "BinaryOperator" or cond["k"] != "BinaryOperator" or cond["op"] != "<":
            raise AnalysisBroken("stoGcSweepMixed: a mark-clearing loop that is not `for (qi = S; qi < E; qi++)`")
        start = (strip(init["c"][1]) or {}).get("n")
        end = strip(cond["c"][1])
        if end is not None and end["k"] == "DeclRefExpr" and len(assigns.get(end["n"], [])) == 1:
            end = strip(assigns[end["n"]][0])
        if end is None or end["k"] != "BinaryOperator" or end["op"] != "+":
            raise AnalysisBroken("stoGcSweepMixed: the end of a mark-clearing loop is not `start + length`")
        a, b = (strip(end["c"][0]) or {}).get("n"), (strip(end["c"][1]) or {}).get("n")
        n += 1
        key = "marks-cleared-over-the-piece-itself@%d" % n
        where = "store.c:%d (stoGcSweepMixed)" % lp["l"]
        if start is None or a != start or start not in owner or b not in owner:
            raise AnalysisBroken("%s: start `%s`, end `%s`: the piece they belong to could not be derived" % (where, start, render(end)[:40]))
        if owner[start] == owner[b]:
            rep.ok("G12", key, sample={"start": start, "length": b, "piece": owner[start]})
        else:
            rep.violation("G12", "marks-cleared-over-the-piece-itself", where,
                          "marks are cleared from `%s` (first quantum of piece `%s`) over `%s` quanta, the length of piece `%s`: when "
                          "the freed piece is larger than the marked free neighbour it swallows, the loop runs on into the next "
                          "piece and wipes the marks of a live block, which the sweep then frees and poisons"
                          % (start, owner[start], b, owner[b]))
    rep.floor("mark-clearing loops of the mixed sweep", n, 2)


def run(tier, only=None):
    rep = common.Report("C09", tier, EXPLANATION)
    check_config(rep, "compiler", common.compiler_units())
    check_config(rep, "runtime", common.runtime_units())
    # G4: the free-piece index that the sweep fills (B-tree nodes, list heads) lives in cells cut by stoAllocInner;
    # the obligation itself is C10's T-carve
    from . import c10_store_tables
    for config in ("compiler", "runtime"):
        c10_store_tables.check_carving(rep, config, rule="G4")
    g5(rep)
    g10(rep)
    g12(rep)
    from . import c20_containers
    c20_containers.v11(rep, rule="G11")      # the store's index of free pieces is this B-tree
    for config in ("compiler", "runtime"):
        g6(rep, config)
        g7(rep, config)
        g8(rep, config)
        g9(rep, config)
    rep.assumptions.append("setjmp stores the callee-saved registers in its buffer (the idiom the collector relies on)")
    return rep
