"""A tiny parser for the return expression of single-return static Java methods
(lib/java/src/foamj/*.java), producing the same tuple trees as rules/trees.py,
plus the mapping of java.math.BigInteger methods to the bigint primitives of
the C04 reference.
"""
import re

_TOK = re.compile(r"\s*(0[xX][0-9a-fA-F]+[lL]?|\d+\.\d*[fFdD]?|\d+[lL]?|[A-Za-z_]\w*|<<|>>>|>>|<=|>=|==|!=|&&|\|\||[-+*/%&|^~!<>(),.\[\]?:])")
PREC = [("||",), ("&&",), ("|",), ("^",), ("&",), ("==", "!="), ("<", "<=", ">", ">="), ("<<", ">>", ">>>"),
        ("+", "-"), ("*", "/", "%")]
PRIMS = {"int": "i32", "long": "i64", "short": "i16", "byte": "i8", "char": "char", "float": "f32", "double": "f64",
         "boolean": "bool"}


def single_return_methods(path):
    """name -> list of (param names, return expression text) for static
    methods whose body is exactly `return EXPR;`"""
    text = open(path).read()
    text = re.sub(r"/\*.*?\*/", "", text, flags=re.S)
    text = re.sub(r"//[^\n]*", "", text)
    out = {}
    for m in re.finditer(r"\bstatic\s+[\w.<>\[\]]+\s+(\w+)\s*\(([^)]*)\)\s*(?:throws [\w., ]+)?\s*\{\s*return\s+([^;{}]+);\s*\}", text):
        params = []
        for p in m.group(2).split(","):
            p = p.strip()
            if p:
                params.append(p.split()[-1])
        out.setdefault(m.group(1), []).append((params, " ".join(m.group(3).split())))
    return out


def parse(text, params):
    toks = []
    pos = 0
    while pos < len(text):
        m = _TOK.match(text, pos)
        if not m:
            if text[pos:].strip() == "":
                break
            raise ValueError("cannot tokenise %r at %d" % (text, pos))
        toks.append(m.group(1))
        pos = m.end()
    toks.append(None)
    i = [0]

    def peek(k=0):
        return toks[i[0] + k]

    def eat(t=None):
        x = toks[i[0]]
        if t is not None and x != t:
            raise ValueError("expected %s, got %s in %r" % (t, x, text))
        i[0] += 1
        return x

    def ternary():
        c = binary(0)
        if peek() == "?":
            eat()
            a = ternary()
            eat(":")
            b = ternary()
            return ("cond", c, a, b)
        return c

    def binary(level):
        if level == len(PREC):
            return unary()
        a = binary(level + 1)
        while peek() in PREC[level]:
            op = eat()
            b = binary(level + 1)
            a = ("bin", ">>" if op == ">>>" else op, a, b)
        return a

    def unary():
        t = peek()
        if t in ("-", "~", "!"):
            eat()
            return ("un", t, unary())
        if t == "(" and peek(1) in PRIMS and peek(2) == ")":
            eat(); ty = eat(); eat(")")
            return ("cast", PRIMS[ty], unary())
        return postfix(primary())

    def args():
        out = []
        eat("(")
        if peek() != ")":
            out.append(ternary())
            while peek() == ",":
                eat()
                out.append(ternary())
        eat(")")
        return out

    def postfix(e):
        while peek() == ".":
            eat()
            name = eat()
            if peek() == "(":
                a = args()
                if e[0] == "class":
                    e = ("scall", e[1], name) + tuple(a)
                else:
                    e = ("mcall", name, e) + tuple(a)
            else:
                if e[0] == "class":
                    e = ("sfield", e[1], name) if name[0].isupper() or name.isupper() else ("class", e[1] + "." + name)
                else:
                    e = ("mem", name, e)
        return e

    def primary():
        t = eat()
        if t is None:
            raise ValueError("unexpected end in %r" % text)
        if t == "(":
            e = ternary()
            eat(")")
            return e
        if re.match(r"0[xX]", t):
            return ("int", int(t.rstrip("lL"), 16))
        if re.match(r"\d+\.\d*", t):
            return ("flt", float(t.rstrip("fFdD")))
        if t[0].isdigit():
            return ("int", int(t.rstrip("lL")))
        if t in ("true", "false"):
            return ("int", 1 if t == "true" else 0)
        if t == "null":
            return ("int", 0)
        if t in params:
            return ("arg", params.index(t))
        if peek() == "(":
            return ("call", t) + tuple(args())
        if t[0].isupper():
            return ("class", t)
        return ("sym", t)

    e = ternary()
    if peek() is not None:
        raise ValueError("trailing tokens in %r" % text)
    return e


BIGINT_METHODS = {"add": "bintPlus", "subtract": "bintMinus", "multiply": "bintTimes", "mod": "bintMod",
                  "divide": "bintQuo", "remainder": "bintRem", "gcd": "bintGcd", "testBit": "bintBit"}


def to_reference(t):
    """Rewrite java.math.BigInteger idioms into the vocabulary of the C04 reference."""
    if not isinstance(t, tuple):
        return t
    t = tuple(to_reference(x) if isinstance(x, tuple) else x for x in t)
    h = t[0]
    if h == "sfield" and t[1] == "BigInteger":
        return {"ZERO": ("sym", "bint0"), "ONE": ("sym", "bint1")}.get(t[2], ("sym", "BigInteger." + t[2]))
    if h == "scall" and t[1] == "BigInteger" and t[2] == "valueOf" and len(t) == 4:
        return ("call", "bintNew", t[3])
    if h == "mcall":
        name, recv, a = t[1], t[2], t[3:]
        if name in BIGINT_METHODS and len(a) == 1:
            return ("call", BIGINT_METHODS[name], recv, a[0])
        if name == "negate" and not a:
            return ("call", "bintNegate", recv)
        if name == "shiftLeft" and len(a) == 1:
            return ("call", "bintShift", recv, ("cast", "i32", a[0]))
        if name == "shiftRight" and len(a) == 1:
            return ("call", "bintShift", recv, ("cast", "i32", ("un", "-", a[0])))
        if name == "compareTo" and len(a) == 1:
            return ("cmp", recv, a[0])
        return ("call", "BigInteger." + name, recv) + tuple(a)
    if h == "bin" and t[2][0] == "cmp" and t[3] == ("int", 0):
        x, y = t[2][1], t[2][2]
        op = t[1]
        lt = lambda p, q: ("bin", "!=", ("call", "bintLT", p, q), ("int", 0))
        nlt = lambda p, q: ("bin", "==", ("call", "bintLT", p, q), ("int", 0))
        zero = ("sym", "bint0")
        if y == zero:
            if op == "<":
                return ("bin", "!=", ("call", "bintIsNeg", x), ("int", 0))
            if op == ">":
                return ("bin", "!=", ("call", "bintIsPos", x), ("int", 0))
            if op == "==":
                return ("bin", "!=", ("call", "bintIsZero", x), ("int", 0))
        return {"<": lt(x, y), ">": lt(y, x), "<=": nlt(y, x), ">=": nlt(x, y),
                "==": ("bin", "!=", ("call", "bintEQ", x, y), ("int", 0)),
                "!=": ("bin", "==", ("call", "bintEQ", x, y), ("int", 0))}[op]
    return t
