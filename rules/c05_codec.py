"""C05 (partial): saved intermediate forms lose nothing - writer/reader symmetry.

W1  FOAM byte code: per format letter the encoder (foamToBuffer), the decoders
    (foamFrBuffer, foamProgHdrFrBuffer) and the skippers (foamFrBuffer0, the
    interpreter's skipProg) perform
    mirror-image buffer operations (same widths, same format selector, same
    offsets); every letter of the alphabet has a case in each.
W2  primitive pairs: bufWr/bufRd SFloat/DFloat use paired converters and the
    same byte count; Put/Get HInt/SInt have the same width; the library header
    size equals what libPutHeader writes and libGetHeader reads.
W3  object-file sections: the section table is in name order; every section
    collected under a name is stored under the same name; every section that
    is read is written; sibling writer/reader functions use the same section.
W4  wide integers: the 'w' case of the writer asserts bufIsSInt, and
    foamSIntReduce is applied on the way into foamToBuffer.
W5  the structural walkers over FOAM (equality, hashing, copying, printing)
    cover every letter of the alphabet.
W6  type / symbol-meaning codecs of sefo.c: for each family (sefo, syme,
    tqual, the list wrappers) writer, reader and skipper have the same case
    partition and mirror-image event sequences; the flag bits of the type tag
    byte are written and masked consistently.
"""
import os

from . import common
from .common import AnalysisBroken, strip, walk, calls, const_value, render

EXPLANATION = (
    "W1: the alphabet is the set of letters of foamInfoTable[*].argf. For each letter the case body in foamToBuffer, "
    "foamFrBuffer, foamProgHdrFrBuffer, foamFrBuffer0 and fint.c:skipProg (which walks the same byte code on the interpreter's tape) is abstracted to a sequence of buffer events - fix(n) for an n-byte "
    "primitive (widths derived from buffer.c: number of bufAdd1 calls / constant of bufGetn or bufAddn), int(sel) for "
    "FOAM_PUT_INT/FOAM_GET_INT with selector sel in {format, labelFmt, 0}, bytes(last int), loop(last int, fix(n)), rec - and "
    "the sequences must be equal; offsets subtracted by the writer (FOAM_START, FOAM_BVAL_START, FOAM_PROTO_START) must be "
    "added back by the readers; every letter has a case in the writer, the full reader and the skipper, the header reader "
    "covers the letters of Prog's format up to its first code operand; no case exists for a letter outside the alphabet. "
    "W2: bufWrSFloat/bufRdSFloat (DFloat) call the paired xsf/xdf converters and move the same number of bytes; "
    "bufPutHInt/bufGetHInt and bufPutSInt/bufGetSInt have equal widths; libPutHeader and libGetHeader perform the same "
    "sequence of buffer operations and its byte total equals libHdrSize. W4: in foamToBuffer the 'w' case asserts "
    "bufIsSInt(...) before bufPutSInt; libPutFoam passes the unit through foamSIntReduce before foamToBuffer. W5: "
    "foamEqual/foamHash/foamCopy/foamFree/foamToSExpr/foamFrSExpr style walkers that switch over format letters have a case or "
    "a default for every letter, and none has a letter outside the alphabet. "
    "W6: in sefo.c every <family>ToBuffer / <family>FrBuffer / <family>FrBuffer0 triple whose buffer events are not "
    "guarded by data-dependent ifs is abstracted the same way (calls to another family become call(family), families whose "
    "encoding is a fixed number of bytes are inlined as fix(n), strings are count+bytes) and compared case by case over the "
    "node tag; cases that report a bug in either role are skipped; the tform triple (data-dependent) is reported as "
    "uncompared, but its flag bits (OR-ed into the tag byte by the writer) must be the ones the reader tests and all three "
    "must mask the tag with the same constant. "
    "Not decided: equality of whole round-tripped programs, symbol renumbering, split/whole behaviour.")

WRITER = "foamToBuffer"
READERS = ["foamFrBuffer", "foamProgHdrFrBuffer"]
SKIPPER = "foamFrBuffer0"


def prim_widths(f_buf):
    """Width in bytes of the buffer primitives, from their bodies."""
    w = {}
    for name, fn in f_buf.funcs.items():
        if "body" not in fn:
            continue
        n = 0
        known = True
        for c in calls(fn["body"]):
            cal = c.get("callee")
            if cal in ("bufAdd1", "bufGet1"):
                n += 1
            elif cal in ("bufGetn", "bufAddn", "bufSkip") and len(c["c"]) >= 3:
                k = const_value(c["c"][-1])
                if k is None:
                    known = False
                else:
                    n += k
        if known and n:
            w[name] = n
    # one-line wrappers: bufGetByte -> bufGet1 (macro) are handled by counting; bufPutByte may be a macro
    return w


def find_letter_switch(fn):
    """The switch whose labels are format letters."""
    best = None
    for sw in common.find(fn["body"], "SwitchStmt"):
        c = strip(sw["c"][0])
        txt = render(c) if c is not None else ""
        if not (txt.startswith("argf[") or txt in ("af", "*argf", "argf[fi]", "fmt[i]") or "argf" in txt):
            continue
        labs = [x for x in walk(sw["c"][-1]) if x["k"] == "CaseStmt" and x.get("lo") is not None and 32 < x["lo"] < 127]
        inner = [x for s2 in common.find(sw["c"][-1], "SwitchStmt") for x in walk(s2)]
        own = [x for x in labs if x["id"] not in set(y["id"] for y in inner)]
        if len(own) >= 8 and (best is None or len(own) > best[1]):
            best = (sw, len(own))
    if best is None:
        raise AnalysisBroken("%s: no switch over format letters found" % fn["n"])
    return best[0]


def letter_groups(fn):
    sw = find_letter_switch(fn)
    out = {}
    has_default = False
    for g in common.switch_cases(sw):
        for l in g["labels"]:
            if l[0] == "default":
                has_default = True
                out["default"] = g
            elif l[1] is not None:
                out[chr(l[1])] = g
    return out, has_default


def selector(node):
    """Format selector of a FOAM_PUT_INT / FOAM_GET_INT expansion."""
    for x in walk(node):
        if x["k"] == "SwitchStmt":
            c = strip(x["c"][0])
            v = const_value(x["c"][0])
            if v is not None:
                return str(v)
            return render(c)
    return "?"


def abstract(stmts, widths, self_names):
    """Sequence of buffer events of a case body."""
    ev = []

    def visit(n):
        if n is None:
            return
        mac = n.get("mac")
        if mac in ("FOAM_PUT_INT", "FOAM_GET_INT", "fintGetInt") and n["k"] in ("CompoundStmt", "SwitchStmt"):
            ev.append(("int", selector(n)))
            return
        k = n["k"]
        # interpreter tape: ip++ / ip += k / fintGetn(k)
        if k == "UnaryOperator" and n["op"] in ("post++", "++") and strip(n["c"][0]) is not None and strip(n["c"][0]).get("n") == "ip":
            ev.append(("fix", 1))
            return
        if k == "CompoundAssignOperator" and n["op"] == "+=" and strip(n["c"][0]) is not None and strip(n["c"][0]).get("n") == "ip":
            kv = const_value(n["c"][1])
            ev.append(("fix", kv) if kv is not None else ("bytes", "lastint"))
            return
        if k in ("ForStmt", "WhileStmt"):
            body = n["c"][-1]
            inner = abstract([body], widths, self_names)
            cond = n["c"][1] if k == "ForStmt" else n["c"][0]
            ev.append(("loop", "lastint", tuple(inner)))
            return
        if k == "CallExpr":
            cal = n.get("callee")
            for a in n["c"][1:]:
                visit(a)
            if cal in self_names:
                ev.append(("rec",))
            elif cal in ("bufWrChars", "bufRdChars", "bufPutChars", "bufGetChars"):
                ev.append(("bytes", "lastint"))
            elif cal in ("bufGetn", "bufSkip", "fintGetn"):
                a = n["c"][-1]
                kv = const_value(a)
                if kv is not None:
                    ev.append(("fix", kv))
                else:
                    s = strip(a)
                    if s is not None and s["k"] == "BinaryOperator" and s["op"] == "*":
                        k2 = const_value(s["c"][1]) if const_value(s["c"][1]) is not None else const_value(s["c"][0])
                        ev.append(("loop", "lastint", (("fix", k2),)))
                    else:
                        ev.append(("bytes", "lastint"))
            elif cal in widths:
                ev.append(("fix", widths[cal]))
            return
        if k == "DoStmt":
            return     # assert(...)
        for c in n.get("c", []):
            visit(c)
        for d in n.get("decls", []):
            if d.get("init") is not None:
                visit(d["init"])

    for s in stmts:
        visit(s)
    return merge_fix(ev)


def merge_fix(ev):
    """Adjacent fixed-width events are one fixed-width event."""
    out = []
    for e in ev:
        if e[0] == "fix" and out and out[-1][0] == "fix":
            out[-1] = ("fix", out[-1][1] + e[1])
        elif e[0] == "loop":
            out.append(("loop", e[1], tuple(merge_fix(list(e[2])))))
        else:
            out.append(e)
    return out


def offsets(stmts):
    """Named constants added/subtracted to the operand value in a case."""
    out = set()
    for s in stmts:
        for x in walk(s):
            if x.get("mac") in ("FOAM_GET_INT", "FOAM_PUT_INT", "FOAM_FORMAT_FOR") or x.get("imac") in (
                    "FOAM_GET_INT", "FOAM_PUT_INT", "FOAM_FORMAT_FOR"):
                continue
            if x["k"] == "BinaryOperator" and x["op"] in ("+", "-"):
                for y in x["c"]:
                    v = const_value(y)
                    if v is not None and strip(y)["k"] in ("DeclRefExpr", "ImplicitCastExpr", "CStyleCastExpr", "IntegerLiteral"):
                        ys = strip(y)
                        if ys["k"] in ("DeclRefExpr", "IntegerLiteral") and v != 0:
                            out.add(v if x["op"] == "+" else -v)
    return out


def show(ev):
    def one(e):
        if e[0] == "fix":
            return "fix(%s)" % e[1]
        if e[0] == "int":
            return "int(%s)" % e[1]
        if e[0] == "bytes":
            return "bytes(n)"
        if e[0] == "loop":
            return "loop(n){%s}" % " ".join(one(x) for x in e[2])
        return e[0]
    return " ".join(one(e) for e in ev) or "-"


def w1(rep, f_foam, widths, f_fint=None):
    # alphabet
    rec = f_foam.records.get("foam_info")
    if rec is None:
        raise AnalysisBroken("struct foam_info not found")
    fields = [x[0] for x in rec["f"]]
    alphabet = set()
    prog_argf = None
    for r in common.table_rows(f_foam.var("foamInfoTable")):
        g = dict(zip(fields, r["c"]))
        argf = common.string_value(g["argf"])
        if argf:
            alphabet |= set(argf) - {"*", "!"}        # '*' repeats the previous letter, '!' marks a form that is never stored
            if common.enum_name(g["tag"]) == "FOAM_Prog":
                prog_argf = argf
    rep.floor("letters of the byte-code alphabet", len(alphabet), 14)
    if prog_argf is None:
        raise AnalysisBroken("argf of FOAM_Prog not found")
    hdr_letters = set(prog_argf.split("C")[0]) - {"*"}

    fns = {n: f_foam.func(n) for n in [WRITER] + READERS + [SKIPPER]}
    if f_fint is not None:
        fns["skipProg"] = f_fint.func("skipProg")
    groups = {n: letter_groups(fn) for n, fn in fns.items()}
    selfn = set(fns)
    abst = {}
    for n, (gs, hd) in groups.items():
        abst[n] = {l: abstract(g["stmts"], widths, selfn) for l, g in gs.items() if l != "default"}
        extra = set(abst[n]) - alphabet
        for l in sorted(extra):
            rep.violation("W1", "alphabet:%s:%s" % (n, l), "foam.c:%d (%s)" % (gs[l]["line"], n),
                          "%s has a case for letter '%s', which no instruction format uses" % (n, l))
    wev = abst[WRITER]
    for l in sorted(alphabet):
        where_w = "foam.c:%d (%s '%s')" % (groups[WRITER][0][l]["line"], WRITER, l) if l in groups[WRITER][0] else "foam.c (%s)" % WRITER
        if l not in wev:
            rep.violation("W1", "case:%s:%s" % (WRITER, l), where_w, "the encoder has no case for format letter '%s'" % l)
            continue
        for n in READERS + [SKIPPER] + (["skipProg"] if f_fint is not None else []):
            need = hdr_letters if n == "foamProgHdrFrBuffer" else alphabet
            if l not in need:
                continue
            key = "letter:%s:%s" % (l, n)
            if l not in abst[n]:
                rep.violation("W1", "case:%s:%s" % (n, l), "foam.c (%s)" % n,
                              "%s has no case for format letter '%s' (it ends in bugBadCase): a unit using it cannot be read back" % (n, l))
                continue
            where = "%s:%d (%s '%s')" % ("fint.c" if n == "skipProg" else "foam.c", groups[n][0][l]["line"], n, l)
            if abst[n][l] == wev[l]:
                rep.ok("W1", key, sample={"letter": l, "events": show(wev[l]), "reader": n} if len(rep.samples) < 6 else None)
            else:
                rep.violation("W1", key, where,
                              "letter '%s': the encoder writes [%s] but %s consumes [%s]: everything after this operand is "
                              "decoded at the wrong offset" % (l, show(wev[l]), n, show(abst[n][l])))
            if n in READERS:
                ow, orr = offsets(groups[WRITER][0][l]["stmts"]), offsets(groups[n][0][l]["stmts"])
                if set(-v for v in ow) != orr:
                    rep.violation("W1", "offset:%s:%s" % (l, n), where,
                                  "letter '%s': the encoder subtracts %s, %s adds %s" % (l, sorted(ow), n, sorted(orr)))
                else:
                    rep.ok("W1", "offset:%s:%s" % (l, n), nontrivial=bool(ow))
    return alphabet


def w2(rep, f_buf, f_lib, widths):
    pairs = [("bufWrSFloat", "bufRdSFloat", "xsfFrNative", "xsfToNative"), ("bufWrDFloat", "bufRdDFloat", "xdfFrNative", "xdfToNative")]
    for wr, rd, cw, cr in pairs:
        fw, fr = f_buf.func(wr), f_buf.func(rd)
        cws = set(c.get("callee") for c in calls(fw["body"]))
        crs = set(c.get("callee") for c in calls(fr["body"]))
        key = "float:%s" % wr[5:]
        if cw in cws and cr in crs and widths.get(wr) == widths.get(rd) and widths.get(wr):
            rep.ok("W2", key, sample={"writer": wr, "reader": rd, "bytes": widths.get(wr), "converters": [cw, cr]})
        else:
            rep.violation("W2", key, "buffer.c:%d/%d (%s/%s)" % (fw["l"], fr["l"], wr, rd),
                          "%s and %s are not mirror images: converters %s/%s expected, byte counts %s/%s" % (
                              wr, rd, cw, cr, widths.get(wr), widths.get(rd)))
    for a, b in (("bufPutHInt", "bufGetHInt"), ("bufPutSInt", "bufGetSInt")):
        key = "int:%s" % a[6:]
        if widths.get(a) and widths.get(a) == widths.get(b):
            rep.ok("W2", key)
        else:
            rep.violation("W2", key, "buffer.c (%s/%s)" % (a, b), "%s writes %s bytes, %s reads %s" % (a, widths.get(a), b, widths.get(b)))
    # library header
    put, get = f_lib.func("libPutHeader"), f_lib.func("libGetHeader")
    wmap = dict(widths)
    wmap.setdefault("bufPutByte", 1)
    wmap.setdefault("bufGetByte", 1)

    def seq(fn, prefix):
        out = []

        def visit(n, mult=1):
            if n is None:
                return
            if n["k"] == "ForStmt":
                cond = strip(n["c"][1])
                lo = const_value(strip(n["c"][0])["c"][1]) if strip(n["c"][0]) is not None and strip(n["c"][0])["k"] == "BinaryOperator" else None
                hi = const_value(cond["c"][1]) if cond is not None and cond["k"] == "BinaryOperator" and cond["op"] == "<" else None
                inner = []
                saved = list(out)
                del out[:]
                visit(n["c"][3])
                inner = list(out)
                del out[:]
                out.extend(saved)
                if inner:
                    out.append(("loop", (hi - lo) if (hi is not None and lo is not None) else None, tuple(inner)))
                return
            if n["k"] == "CallExpr" and (n.get("callee") or "").startswith(prefix) and n["callee"] in wmap:
                out.append(("fix", wmap[n["callee"]]))
            for c in n.get("c", []):
                visit(c)
            for d in n.get("decls", []):
                if d.get("init") is not None:
                    visit(d["init"])
        visit(fn["body"])
        return out

    sp, sg = seq(put, "bufPut"), seq(get, "bufGet")

    def total(s):
        t = 0
        for e in s:
            if e[0] == "fix":
                t += e[1]
            elif e[1] is None:
                return None
            else:
                t += e[1] * total(e[2])
        return t
    probe = common.extract(os.path.join(common.VERIF, "witness", "lib_probe.c"))
    hdr = probe.enum_values("verif_lib_probe")["VP_libHdrSize"]
    if sp and sp == sg:
        rep.ok("W2", "libheader:mirror", sample={"sequence": show([("fix", e[1]) if e[0] == "fix" else ("loop", "n", e[2]) for e in sp])})
    else:
        rep.violation("W2", "libheader:mirror", "lib.c:%d/%d (libPutHeader/libGetHeader)" % (put["l"], get["l"]),
                      "the library header is written as %s and read as %s" % (sp, sg))
    if total(sp) == hdr:
        rep.ok("W2", "libheader:size", sample={"bytes": hdr})
    else:
        rep.violation("W2", "libheader:size", "lib.c (libHdrSize)", "libPutHeader writes %s bytes, libHdrSize is %s" % (total(sp), hdr))


def w4(rep, f_foam, f_lib):
    gs, _ = letter_groups(f_foam.func(WRITER))
    g = gs.get("w")
    ok = False
    if g:
        asserted = False
        for s in g["stmts"]:
            if s["k"] == "DoStmt" and any(c.get("callee") == "bufIsSInt" for c in calls(s)):
                asserted = True
            if any(c.get("callee") == "bufPutSInt" for c in calls(s)) and asserted:
                ok = True
    if ok:
        rep.ok("W4", "w-case-asserts-range")
    else:
        rep.violation("W4", "w-case-asserts-range", "foam.c (%s 'w')" % WRITER,
                      "the 'w' case must assert bufIsSInt(value) before bufPutSInt: a wider value would be silently truncated to 32 bits")
    # wide SInt nodes are re-expressed before anything is written
    fn = f_foam.func(WRITER)
    ok = False
    first_write = min([c["l"] for c in calls(fn["body"]) if (c.get("callee") or "").startswith("bufPut")] or [10 ** 9])
    for x in walk(fn["body"]):
        if x["k"] == "IfStmt" and x["l"] < first_write:
            cond = strip(x["c"][0])
            if cond is not None and cond["k"] == "BinaryOperator" and cond["op"] == "==" and common.enum_name(cond["c"][1]) == "FOAM_SInt":
                then = x["c"][1]
                for a in walk(then):
                    if a["k"] == "BinaryOperator" and a["op"] == "=" and any(c.get("callee") == "foamSIntReduce" for c in calls(a["c"][1])):
                        ok = True
    if ok:
        rep.ok("W4", "reduce-before-encode")
    else:
        rep.violation("W4", "reduce-before-encode", "foam.c:%d (%s)" % (fn["l"], WRITER),
                      "foamToBuffer must replace an SInt node by foamSIntReduce(node) before writing anything: an SInt constant "
                      "wider than 32 bits cannot be stored otherwise")


def w4b(rep, f_foam):
    """The portable re-expression of a wide SInt denotes the same value: shape of foamSIntReduce."""
    fn = f_foam.func("foamSIntReduce")
    where = "foam.c:%d (foamSIntReduce)" % fn["l"]
    body = fn["body"]
    # 1. split loop: parts[i] = number & MASK, number >>= W
    split = None
    for x in walk(body):
        if x["k"] == "ForStmt":
            ands = [b for b in walk(x["c"][3]) if b["k"] == "BinaryOperator" and b["op"] == "&"]
            shr = [b for b in walk(x["c"][3]) if b["k"] == "CompoundAssignOperator" and b["op"] == ">>="]
            if ands and shr:
                split = (common.const_value(ands[0]["c"][1]), common.const_value(shr[0]["c"][1]), strip(shr[0]["c"][0]))
    if split is None or split[0] is None or split[1] is None:
        raise AnalysisBroken("foamSIntReduce: split loop `parts[i] = number & MASK, number >>= W` not recognised")
    mask, width, numvar = split
    if mask == (1 << width) - 1:
        rep.ok("W4", "reduce:split-mask-matches-width", sample={"mask": hex(mask), "width": width})
    else:
        rep.violation("W4", "reduce:split-mask-matches-width", where,
                      "chunks are cut with mask %#x but the number is shifted down by %d bits per chunk: bits are lost or duplicated" % (mask, width))
    # 2. reconstruct loop
    def bcalls(n, tag):
        out = []
        for c in calls(n, "foamNew"):
            if len(c["c"]) >= 4 and common.enum_name(c["c"][3]) == tag:
                out.append(c)
        return out
    loop = None
    for x in walk(body):
        if x["k"] in ("WhileStmt", "ForStmt", "DoStmt") and bcalls(x, "FOAM_BVal_SIntShiftUp"):
            loop = x
    if loop is None:
        raise AnalysisBroken("foamSIntReduce: reconstruction loop (foamNew(FOAM_BCall, 3, FOAM_BVal_SIntShiftUp, ...)) not found")
    lbody = loop["c"][-1]
    branching = [y["k"] for y in walk(lbody) if y["k"] in ("IfStmt", "ConditionalOperator", "ContinueStmt", "BreakStmt", "GotoStmt",
                                                           "SwitchStmt", "WhileStmt", "ForStmt", "DoStmt", "ReturnStmt")]
    if branching:
        raise AnalysisBroken("foamSIntReduce: the reconstruction loop body is no longer straight-line (%s): this rule only decides the "
                             "one-ShiftUp-one-Or-per-chunk form and cannot tell whether the new form denotes the same value"
                             % ", ".join(sorted(set(branching))))
    sh = bcalls(lbody, "FOAM_BVal_SIntShiftUp")
    orr = bcalls(lbody, "FOAM_BVal_SIntOr")
    all_new = [c for c in calls(lbody, "foamNew") if common.enum_name(c["c"][1]) != "FOAM_SInt"]
    def sint_arg(c, k):
        a = strip(c["c"][k]) if len(c["c"]) > k else None
        if a is not None and a["k"] == "CallExpr" and a.get("callee") == "foamNew" and len(a["c"]) == 4 \
                and common.enum_name(a["c"][1]) == "FOAM_SInt" and common.const_value(a["c"][2]) == 1:
            return a["c"][3]       # foamNewSInt(x) == foamNew(FOAM_SInt, 1, (AInt)(x))
        return None
    def is_foam(c, k):
        a = strip(c["c"][k]) if len(c["c"]) > k else None
        return a is not None and a["k"] == "DeclRefExpr" and a["n"] == "foam"
    problems = []
    if len(sh) != 1 or len(orr) != 1 or len(all_new) != 2:
        problems.append("each iteration must build exactly one SIntShiftUp and one SIntOr node (found %d/%d of %d foamNew calls)"
                        % (len(sh), len(orr), len(all_new)))
    else:
        if not (sh[0]["l"] <= orr[0]["l"] and is_foam(sh[0], 4) and is_foam(orr[0], 4)):
            problems.append("the accumulated value must be the first operand of ShiftUp and then of Or, in that order")
        w2 = sint_arg(sh[0], 5)
        if w2 is None or common.const_value(w2) != width:
            problems.append("the value is shifted up by %s per chunk but was split into %d-bit chunks"
                            % (render(w2) if w2 is not None else "?", width))
        ch = sint_arg(orr[0], 5)
        chs = strip(ch) if ch is not None else None
        if chs is None or chs["k"] != "ArraySubscriptExpr" or strip(chs["c"][0]).get("n") != "parts":
            problems.append("the Or operand must be the next chunk parts[i]")
        decs = [y for y in walk(loop) if y["k"] == "UnaryOperator" and y["op"] in ("--", "post--", "pre--")]
        if len(decs) != 1:
            problems.append("the chunk index must be decremented exactly once per iteration (found %d decrements)" % len(decs))
    if problems:
        rep.violation("W4", "reduce:rebuild-shape", "foam.c:%d (foamSIntReduce)" % loop["l"], "; ".join(problems) +
                      ": the re-expressed constant would denote a different value than the 64-bit literal")
    else:
        rep.ok("W4", "reduce:rebuild-shape", sample={"per_chunk": "foam = ShiftUp(foam, %d); foam = Or(foam, parts[i--])" % width})
    # 3. sign handling: negative := x < 0; number := negative ? -x : x; finally Negate iff negative
    neg_def = num_def = neg_apply = False
    for x in walk(body):
        if x["k"] == "BinaryOperator" and x["op"] == "=" and strip(x["c"][0]).get("n") == "negative":
            r = strip(x["c"][1])
            neg_def = r is not None and r["k"] == "BinaryOperator" and r["op"] in ("<", "<=") and common.const_value(r["c"][1]) == 0   # zero is never wide, so <= is the same
        for d in (x.get("decls", []) if x["k"] == "DeclStmt" else []):
            r = strip(d["init"]) if d["n"] == "number" and d.get("init") is not None else None
            if r is not None and r["k"] == "ConditionalOperator":
                c0, a, b = strip(r["c"][0]), strip(r["c"][1]), strip(r["c"][2])
                num_def = (c0 is not None and c0.get("n") == "negative" and a is not None and a["k"] == "UnaryOperator" and a["op"] == "-"
                           and render(strip(a["c"][0])) == render(b))
        if x["k"] == "IfStmt" and strip(x["c"][0]) is not None and strip(x["c"][0]).get("n") == "negative":
            neg_apply = bool(bcalls(x["c"][1], "FOAM_BVal_SIntNegate")) and x["l"] > loop["l"]
    if neg_def and num_def and neg_apply:
        rep.ok("W4", "reduce:sign")
    else:
        rep.violation("W4", "reduce:sign", where,
                      "sign handling must be: negative = (x < 0); number = negative ? -x : x; ...; if (negative) foam = SIntNegate(foam) "
                      "(negative-defined=%s magnitude=%s negate-applied=%s)" % (neg_def, num_def, neg_apply))


def w7(rep, f_foam):
    """The compact (one byte per index) form is chosen only after every index field of the node has been examined."""
    rec = f_foam.records.get("foam_info")
    fields = [x[0] for x in rec["f"]]
    argf = {}
    for r in common.table_rows(f_foam.var("foamInfoTable")):
        g = dict(zip(fields, r["c"]))
        a = common.string_value(g["argf"])
        if a:
            argf[common.enum_name(g["tag"])] = a
    fn = f_foam.func("foamTagFormat")
    sws = [x for x in walk(fn["body"]) if x["k"] == "SwitchStmt"]
    if len(sws) != 1:
        raise AnalysisBroken("foamTagFormat: expected one switch over the index-carrying tags")
    groups = common.switch_cases(sws[0])
    n = 0
    for g in groups:
        tags = [l[0] for l in g["labels"] if l[0] and l[0].startswith("FOAM_")]
        if not tags:
            continue
        xs = {}
        for st in g["stmts"]:
            for y in walk(st):
                if y["k"] == "BinaryOperator" and y["op"] == "=" and strip(y["c"][0]) is not None and strip(y["c"][0]).get("n") in ("x1", "x2"):
                    xs[strip(y["c"][0])["n"]] = common.const_value(y["c"][1])
        if set(xs) != {"x1", "x2"} or None in xs.values():
            raise AnalysisBroken("foamTagFormat: case %s does not assign constant x1 and x2" % tags)
        examined = {0, xs["x1"]} | ({xs["x2"]} if xs["x2"] >= 0 else set())
        for t in tags:
            n += 1
            a = argf.get(t)
            if a is None:
                raise AnalysisBroken("foamInfoTable has no row for %s" % t)
            want = {i for i, ch in enumerate(a) if ch == "i"}
            key = "tagformat:fields:%s" % t
            if examined == want:
                rep.ok("W7", key, sample={"tag": t, "argf": a, "index_fields": sorted(want)} if n == 1 else None)
            else:
                rep.violation("W7", key, "foam.c:%d (foamTagFormat case %s)" % (g["line"], t),
                              "%s has index fields at positions %s (argf \"%s\") but the choice between one-byte and full-width indexes "
                              "looks at positions %s: an index above 255 in an unexamined field is stored modulo 256" % (
                                  t, sorted(want), a, sorted(examined)))
    rep.floor("index-carrying tags in foamTagFormat", n, 6)
    # the three examined values are argv[0], argv[x1], argv[x2]
    got = {}
    for y in walk(fn["body"]):
        if y["k"] == "BinaryOperator" and y["op"] == "=":
            l = strip(y["c"][0])
            if l is not None and l["k"] == "ArraySubscriptExpr" and strip(l["c"][0]).get("n") == "ix":
                k = common.const_value(l["c"][1])
                idxs = []
                for z in walk(y["c"][1]):
                    if z["k"] == "ArraySubscriptExpr" and z is not l:
                        zi = strip(z["c"][1])
                        idxs.append(zi.get("n") if zi is not None and zi["k"] == "DeclRefExpr" else common.const_value(zi))
                got[k] = idxs
    want = {0: [0], 1: ["x1"], 2: ["x2"]}
    if got == want:
        rep.ok("W7", "tagformat:reads", sample={"ix": got})
    else:
        rep.violation("W7", "tagformat:reads", "foam.c:%d (foamTagFormat)" % fn["l"],
                      "the examined values must be argv[0], argv[x1], argv[x2]; found %s" % got)
    # every examined value is compared with MAX_BYTE in a loop over all three
    loops = [x for x in walk(fn["body"]) if x["k"] == "ForStmt" and any(
        z["k"] == "ArraySubscriptExpr" and strip(z["c"][0]).get("n") == "ix" for z in walk(x["c"][3]))]
    okloop = False
    for lp in loops:
        c = strip(lp["c"][1])
        if c is not None and c["k"] == "BinaryOperator" and c["op"] == "<" and common.const_value(c["c"][1]) == 3:
            for z in walk(lp["c"][3]):
                if z["k"] == "BinaryOperator" and z["op"] == ">" and (strip(z["c"][1]) or {}).get("mac") == "MAX_BYTE" \
                        or z["k"] == "BinaryOperator" and z["op"] == ">" and common.const_value(z["c"][1]) == 255:
                    okloop = True
    if okloop:
        rep.ok("W7", "tagformat:threshold")
    else:
        rep.violation("W7", "tagformat:threshold", "foam.c:%d (foamTagFormat)" % fn["l"],
                      "the loop over the three examined values no longer compares each with MAX_BYTE (255)")


def _origin(fn_scope, var_did):
    """how a local integer gets its value: ('call', f) for v = f(...), ('out', f, k) when &v is argument k of f,
    ('member', m) for v = x->m"""
    outs = set()
    for y in walk(fn_scope):
        src = None
        if y["k"] == "BinaryOperator" and y["op"] == "=" and strip(y["c"][0]) is not None and strip(y["c"][0]).get("did") == var_did:
            src = strip(y["c"][1])
        for d in (y.get("decls", []) if y["k"] == "DeclStmt" else []):
            if d.get("did") == var_did and d.get("init") is not None:
                src = strip(d["init"])
        if src is not None:
            if src["k"] == "CallExpr":
                outs.add(("call", src.get("callee")))
            elif src["k"] == "MemberExpr":
                outs.add(("member", src.get("n")))
            else:
                outs.add(("expr", render(src)[:40]))
        if y["k"] == "CallExpr":
            for k, a in enumerate(y["c"][1:]):
                a = strip(a)
                if a is not None and a["k"] == "UnaryOperator" and a["op"] == "&" and strip(a["c"][0]) is not None \
                        and strip(a["c"][0]).get("did") == var_did:
                    outs.add(("out", y.get("callee"), k))
    return outs


def w8(rep, f_foam):
    """The length whose size selects the format of a node is the length the encoder then writes in that format."""
    wfn = f_foam.func(WRITER)
    gs, _ = letter_groups(wfn)
    writer = {}
    for letter in ("s", "n"):
        g = gs.get(letter)
        if g is None:
            raise AnalysisBroken("%s: no case for letter %s" % (WRITER, letter))
        meas = set()
        for st in g["stmts"]:
            for y in walk(st):
                if y.get("mac") == "FOAM_PUT_INT" and y["k"] == "CallExpr" and y.get("callee") in ("bufPutSInt", "bufPutByte", "bufAdd1"):
                    v = strip(y["c"][-1])
                    if v is not None and v["k"] == "DeclRefExpr":
                        for st2 in g["stmts"]:
                            meas |= _origin(st2, v.get("did"))
        if not meas:
            raise AnalysisBroken("%s case '%s': the length written with FOAM_PUT_INT(format, ...) was not found" % (WRITER, letter))
        writer[letter] = meas
    cfn = f_foam.func("foamTagFormat")
    # branches `tag == FOAM_T` that assign si
    chooser = {}
    for x in walk(cfn["body"]):
        if x["k"] != "IfStmt":
            continue
        tags = [common.enum_name(b["c"][1]) for b in walk(x["c"][0])
                if b["k"] == "BinaryOperator" and b["op"] == "==" and strip(b["c"][0]) is not None and strip(b["c"][0]).get("n") == "tag"]
        tags = [t for t in tags if t]
        if not tags or x["c"][1] is None:
            continue
        meas = set()
        for y in walk(x["c"][1]):
            if y["k"] == "IfStmt":
                break
            if y["k"] == "BinaryOperator" and y["op"] == "=" and strip(y["c"][0]) is not None and strip(y["c"][0]).get("n") == "si":
                r = strip(y["c"][1])
                if r["k"] == "CallExpr":
                    meas.add(("call", r.get("callee")))
                elif r["k"] == "MemberExpr":
                    meas.add(("member", r.get("n")))
                elif r["k"] == "DeclRefExpr":
                    meas |= _origin(x["c"][1], r.get("did"))
        for t in tags:
            chooser.setdefault(t, set()).update(meas)
    want = {"FOAM_Unimp": "s", "FOAM_Decl": "s", "FOAM_GDecl": "s", "FOAM_BInt": "n"}
    for t, letter in sorted(want.items()):
        key = "length-measure:%s" % t
        if t not in chooser or not chooser[t]:
            raise AnalysisBroken("foamTagFormat: branch for %s (assignment to si) not found" % t)
        if chooser[t] & writer[letter]:
            rep.ok("W8", key, sample={"tag": t, "measure": sorted(map(str, chooser[t] & writer[letter]))})
        else:
            rep.violation("W8", key, "foam.c (foamTagFormat / %s case '%s')" % (WRITER, letter),
                          "the format of a %s node is chosen from %s, but the encoder then writes, in that format, a length obtained from "
                          "%s: when the two differ the length is truncated to one byte and the saved unit cannot be read back"
                          % (t, sorted(map(str, chooser[t])), sorted(map(str, writer[letter]))))


def w9(rep):
    """Text form (.fm): the string writer escapes exactly what the string reader treats specially."""
    f = common.extract("sexpr.c", all_trees=True)
    # syntax table: character -> class, from the assignments sxiIoTable[ch] = CLASS
    table = {}
    for fn in f.funcs.values():
        if "body" not in fn:
            continue
        for x in walk(fn["body"]):
            if x["k"] == "BinaryOperator" and x["op"] == "=":
                l = strip(x["c"][0])
                if l is not None and l["k"] == "ArraySubscriptExpr" and strip(l["c"][0]) is not None and strip(l["c"][0]).get("n") == "sxiIoTable":
                    ch, cl = const_value(l["c"][1]), common.enum_name(x["c"][1])
                    if ch is not None and cl:
                        table.setdefault(cl, set()).add(ch)

    def special_chars(node, subject_pred):
        out = set()
        for y in walk(node):
            if y["k"] == "BinaryOperator" and y["op"] in ("==", "!="):
                a, b = strip(y["c"][0]), strip(y["c"][1])
                v = const_value(b)
                if v is not None and 0 < v < 256 and subject_pred(a):
                    out.add(v)
                cl = common.enum_name(y["c"][1])
                if cl in table and a is not None and a["k"] in ("CallExpr", "ArraySubscriptExpr"):
                    out |= table[cl]
        return out
    # reader: the loop of the '"' case
    rd = None
    for name, fn in f.funcs.items():
        if "body" not in fn:
            continue
        for sw in [x for x in walk(fn["body"]) if x["k"] == "SwitchStmt"]:
            try:
                groups = common.switch_cases(sw)
            except AnalysisBroken:
                continue
            for g in groups:
                if any(l[1] == ord('"') for l in g["labels"]) and any(c.get("callee") == "sxiFrString" for st in g["stmts"] for c in calls(st)):
                    loops = [y for st in g["stmts"] for y in walk(st) if y["k"] in ("ForStmt", "WhileStmt", "DoStmt")]
                    if loops:
                        rd = (name, loops[0])
    if rd is None:
        raise AnalysisBroken("sexpr.c: the reader's string case (case '\"' with its loop) was not found")
    rset = special_chars(rd[1], lambda a: a is not None and a["k"] == "DeclRefExpr")
    # writer: case SX_String of sxiWrUnscanToken
    wfn = f.func("sxiWrUnscanToken")
    wcase = None
    for sw in [x for x in walk(wfn["body"]) if x["k"] == "SwitchStmt"]:
        for g in common.switch_cases(sw):
            if any(l[0] == "SX_String" for l in g["labels"]):
                wcase = g
    if wcase is None:
        raise AnalysisBroken("sxiWrUnscanToken: case SX_String not found")
    wset = set()
    for st in wcase["stmts"]:
        wset |= special_chars(st, lambda a: a is not None and a["k"] == "UnaryOperator" and a["op"] == "*")
    emitted = set()
    for st in wcase["stmts"]:
        for y in walk(st):
            if y["k"] == "IfStmt" and y["c"][1] is not None:
                for z in walk(y["c"][1]):
                    if z["k"] == "CharacterLiteral":
                        emitted.add(z["v"])
    esc = rset - {ord('"')}
    show = lambda cs: sorted(chr(c) for c in cs)
    if len(rset) < 2:
        raise AnalysisBroken("sexpr.c: reader's special characters inside a string not recognised (%s)" % show(rset))
    if rset <= wset and emitted == esc:
        rep.ok("W9", "sexpr-string:escapes", sample={"reader_special": show(rset), "writer_escapes": show(wset), "with": show(emitted)})
    else:
        rep.violation("W9", "sexpr-string:escapes", "sexpr.c:%d (sxiWrUnscanToken case SX_String)" % wcase["line"],
                      "inside a string the reader gives a special meaning to %s, the writer escapes %s with %s: a name containing an "
                      "unescaped special character (operators such as \\/ or /\\) is written to .fm in a form that reads back as a different "
                      "string or not at all" % (show(rset), show(wset), show(emitted)))


WALKERS = ["foamEqual", "foamHash", "foamCopy", "foamFree", "foamToSExpr", "foamFrSExpr", "foamAuditAll", "foamCopyNode"]


def w10(rep):
    """Archive member headers (written by ar(1)) hold blank-padded numbers; a field that the digits fill completely has no blank:
    the text buffer then ends at the NUL arReadText appends.  arReadNumber must accept both terminators and reject any other."""
    from .peval import peval
    f = common.extract("archive.c", all_trees=True, cfg=["arReadNumber"])
    fn = f.func("arReadNumber")
    cfg = common.CFG(fn)
    # the error report may sit in a helper of the same file (depth 2)
    reporters = {"comsgError"}
    for _ in range(2):
        for nm_, g in f.funcs.items():
            if "body" in g and nm_ not in reporters and nm_ != "arReadNumber" and \
                    any(c.get("callee") in reporters for c in calls(g["body"])) and g.get("file", "").endswith("archive.c") and \
                    len([x for x in walk(g["body"]) if x["k"] in ("IfStmt", "ForStmt", "WhileStmt", "SwitchStmt")]) == 0:
                reporters.add(nm_)                     # straight-line helper that always reports
    conv = cfg.events(lambda n: n["k"] == "CallExpr" and n.get("callee") in ("strtol", "strtoul"))
    if len(conv) != 1:
        raise AnalysisBroken("arReadNumber: expected one strtol call, found %d" % len(conv))
    cb, cj, call = conv[0]
    ep = strip(call["c"][2]) if len(call["c"]) > 2 else None
    if ep is None or ep["k"] != "UnaryOperator" or ep.get("op") != "&" or strip(ep["c"][0])["k"] != "DeclRefExpr":
        raise AnalysisBroken("arReadNumber: strtol end pointer is not `&local`")
    endp = strip(ep["c"][0])["n"]
    # the scenario is a well-formed, non-negative number: a local holding strtol's result stands for one
    par_ = common.parents(fn["body"])
    value_env = {}
    p_ = par_.get(call["id"])
    while p_ is not None and p_["k"] in ("ParenExpr", "ImplicitCastExpr", "CStyleCastExpr"):
        p_ = par_.get(p_["id"])
    if p_ is not None and p_["k"] == "BinaryOperator" and p_["op"] == "=" and (strip(p_["c"][0]) or {}).get("k") == "DeclRefExpr":
        value_env[strip(p_["c"][0])["n"]] = 160

    def lookup_for(v):
        def lookup(n, env):
            if n["k"] == "UnaryOperator" and n.get("op") == "*":
                t = strip(n["c"][0])
                if t is not None and t["k"] == "DeclRefExpr" and t["n"] == endp:
                    return v
            return None
        return lookup

    def rejects(v):
        lk = lookup_for(v)

        def edge_ok(b, s_):
            ce = cfg.cond_edges(b)
            if ce is None:
                return True
            val = peval(ce[0], value_env, lk)
            if val is None:
                return True
            return s_ == (ce[1] if val else ce[2])
        return cfg.path_avoiding(cb, lambda n: n["k"] == "CallExpr" and n.get("callee") in reporters, lambda n: False,
                                 src_idx=cj, edge_ok=edge_ok)
    where = "archive.c:%d (arReadNumber)" % fn["l"]
    for label, v, want in (("nul", 0, False), ("blank", 32, False), ("letter", ord("x"), True), ("slash", ord("/"), True)):
        got = rejects(v) is not None
        key = "ar-number:terminator-%s" % label
        if got == want:
            rep.ok("W10", key)
        elif want:
            rep.violation("W10", key, where, "a header number followed by %r is accepted: a damaged member header is taken as a size" % chr(v))
        else:
            rep.violation("W10", key, where,
                          "a header number whose conversion stops at %s is rejected as 'Bad number in archive': %s" %
                          ("the terminating NUL" if v == 0 else "a blank",
                           "a field filled completely by its digits (six-digit uid/gid, ten-digit size) has no padding blank, "
                           "so a library that ar(1) lists correctly cannot be read" if v == 0 else "every padded field ends in a blank"))


def w11(rep):
    """The identifier of a compilation unit names its C symbols (INIT__0_<id>, C0_<id>...).  A saved unit carries its id in the
    LIB_Id section; compPhaseLoadFoam restores it with emitSetFileIdName so that C generated from the .ao uses the names the
    .as -> C route and the unit's clients use.  emitGetFileIdName must therefore return a set id as it is: the -Wprefix option
    applies to ids derived from the source file name only."""
    from .peval import peval
    f = common.extract("emit.c", trees=["emitGetFileIdName"], cfg=["emitGetFileIdName"])
    fn = f.func("emitGetFileIdName")
    cfg = common.CFG(fn)
    scenario = {}

    def lookup(n, env_):
        if n["k"] == "MemberExpr" and n["n"] == "idName":
            return scenario.get("idName")
        return None

    def edge_ok(b, s_):
        ce = cfg.cond_edges(b)
        if ce is None:
            return True
        v = peval(ce[0], scenario["env"], lookup)
        if v is None:
            return True
        return s_ == (ce[1] if v else ce[2])

    def prefixes(n):
        return n["k"] == "CallExpr" and n.get("callee") in ("strConcat", "strlConcat", "strPrintf") and \
            any(y["k"] == "DeclRefExpr" and y["n"] == "emitFileIdPrefix" for y in walk(n))
    if not cfg.events(prefixes):
        raise AnalysisBroken("emitGetFileIdName: the application of the -Wprefix text was not found")
    if not any(y["k"] == "DeclRefExpr" and y["n"] == "emitFileIdName" for y in walk(fn["body"])):
        raise AnalysisBroken("emitGetFileIdName no longer looks at emitFileIdName")
    esc = None
    per_file = any(y["k"] == "MemberExpr" and y["n"] == "idName" for y in walk(fn["body"]))
    for sc in ([{"env": {"emitFileIdName": 1, "emitFileIdPrefix": 1}, "idName": 0},
                {"env": {"emitFileIdName": 0, "emitFileIdPrefix": 1}, "idName": 1}] if per_file else
               [{"env": {"emitFileIdName": 1, "emitFileIdPrefix": 1}, "idName": None}]):
        scenario.clear()
        scenario.update(sc)
        esc = esc or cfg.path_avoiding(cfg.entry, prefixes, lambda n: False, edge_ok=edge_ok)
    # conditional expressions are not split into CFG edges by value: also evaluate `x ? a : b` selections of the set id
    tern = [y for y in walk(fn["body"]) if y["k"] == "ConditionalOperator" and
            any(z["k"] == "DeclRefExpr" and z["n"] == "emitFileIdName" or z["k"] == "MemberExpr" and z["n"] == "idName"
                for z in walk(y["c"][0]))]
    where = "emit.c:%d (emitGetFileIdName)" % fn["l"]
    if esc is None and not tern:
        rep.ok("W11", "unit-id:set-id-returned-as-is")
    elif esc is None:
        raise AnalysisBroken("emitGetFileIdName selects the id with ?: but no prefix application is reachable; re-read")
    else:
        rep.violation("W11", "unit-id:set-id-returned-as-is", where,
                      "with an id already set (restored from a saved .ao, or given with -Wname) and a -Wprefix in force, "
                      "emitGetFileIdName reaches the concatenation with the prefix: C generated from the .ao names its symbols "
                      "INIT__0_<prefix><prefix><unit> while the source route and the clients use INIT__0_<prefix><unit>, so the "
                      "library/client split no longer links", detail={"cfg_path": esc[:10]})


def w5(rep, f_foam, alphabet):
    n = 0
    for name, fn in sorted(f_foam.funcs.items()):
        if "body" not in fn or not fn["file"].endswith("foam.c") or name in [WRITER, SKIPPER] + READERS:
            continue
        try:
            gs, has_default = letter_groups(fn)
        except AnalysisBroken:
            continue
        n += 1
        letters = set(l for l in gs if l != "default")
        where = "foam.c:%d (%s)" % (fn["l"], name)
        extra = letters - alphabet
        missing = alphabet - letters
        key = "walker:%s" % name
        if extra:
            rep.violation("W5", key + ":extra", where, "%s has cases for letters %s that no format uses" % (name, sorted(extra)))
        # a default that reports a bug is not a neutral default
        neutral = False
        if has_default:
            cs = [c.get("callee") for s in gs["default"]["stmts"] for c in calls(s)]
            neutral = not any(c in ("bug", "bugBadCase", "bugUnimpl") for c in cs)
        if missing and not neutral:
            rep.violation("W5", key, where, "%s has no case for letters %s and its default reports a bug: a unit using them "
                                             "cannot be %s" % (name, sorted(missing), name))
        else:
            rep.ok("W5", key, sample={"walker": name, "letters": len(letters), "neutral_default": neutral} if n <= 3 else None)
    rep.floor("letter-switch walkers in foam.c", n, 4)


# --------------------------------------------------------------------------
# W12: the text form (.fm) writes every operand from the node
# --------------------------------------------------------------------------

# the one operand a saved text form may replace by a placeholder: the serial number tying a local declaration to its symbol
# meaning, which is meaningful only inside the compilation that assigned it (foamNewDecl itself stores "unassigned")
PLACEHOLDER_OK = {("FOAM_Decl", "w"): "Decl.symeIndex is a per-compilation serial number (foamNewDecl stores SYME_NUMBER_UNASSIGNED)"}


def w12(rep, f_foam):
    from .peval import peval
    fn = f_foam.func("foamToSExpr0")
    gs, _ = letter_groups(fn)
    rec = f_foam.records.get("foam_info")
    fields = [x[0] for x in rec["f"]]
    argf_of = {}
    for r in common.table_rows(f_foam.var("foamInfoTable")):
        g = dict(zip(fields, r["c"]))
        a = common.string_value(g["argf"])
        if a:
            argf_of[common.enum_name(g["tag"])] = a
    tagval = f_foam.enum_values("foamTag") if "foamTag" in f_foam.enums else None
    if tagval is None:
        tagval = {n: v[1] for n, v in f_foam.enum_by_const.items() if n.startswith("FOAM_")}
    # locals of the function assigned once from a pure condition on the tag (isDecl)
    flags = {}
    for x in walk(fn["body"]):
        if x["k"] == "BinaryOperator" and x["op"] == "=":
            l = strip(x["c"][0])
            if l is not None and l["k"] == "DeclRefExpr" and "hdr.tag" in render(x["c"][1]).replace("->", ".").replace(" ", ""):
                flags.setdefault(l["n"], []).append(x["c"][1])
    seen = set()
    n = 0
    for letter, g in sorted(gs.items()):
        if letter == "default" or id(g) in seen:
            continue
        seen.add(id(g))
        letters = [chr(l[1]) for l in g["labels"] if l[1] is not None]
        body = {"k": "CompoundStmt", "c": g["stmts"], "id": -1, "l": g["line"]}
        par = common.parents(body)
        for x in walk(body):
            if not (x["k"] == "BinaryOperator" and x["op"] == "="):
                continue
            lhs = strip(x["c"][0])
            if lhs is None or lhs["k"] != "DeclRefExpr":
                continue
            if const_value(x["c"][1]) is None:
                continue                                   # written from something computed: the operand (checked by W5/W9)
            # a constant stored into the value that is written: under which condition?
            conds = []
            cur = x
            while cur["id"] in par:
                p_ = par[cur["id"]]
                if p_["k"] == "IfStmt":
                    if any(y is cur for y in walk(p_["c"][1])):
                        conds.append((p_["c"][0], True))
                    elif len(p_["c"]) > 2 and p_["c"][2] is not None and any(y is cur for y in walk(p_["c"][2])):
                        conds.append((p_["c"][0], False))
                cur = p_
            for tag, argf in sorted(argf_of.items()):
                for lt in letters:
                    if lt not in argf:
                        continue
                    env = {}

                    def lookup(node, env_, tag=tag, lt=lt):
                        r = render(node).replace(" ", "")
                        if r.endswith("hdr.tag") or r.endswith("hdr.tag)"):
                            return tagval.get(tag)
                        if node["k"] == "ArraySubscriptExpr" and render(strip(node["c"][0])) == "argf":
                            return ord(lt)
                        if node["k"] == "DeclRefExpr" and node["n"] in flags and len(flags[node["n"]]) == 1:
                            return peval(flags[node["n"]][0], {}, lookup)
                        if node["k"] == "CallExpr":
                            return None
                        return None
                    enabled = 1
                    for c, pol in conds:
                        v = peval(c, env, lookup)
                        if v is None:
                            if "DEBUG" in render(c) or "Debug" in render(c):
                                v = 0 if pol else 1            # debugging switches are off in a normal run
                            else:
                                enabled = None
                                break
                        if bool(v) != pol:
                            enabled = 0
                            break
                    key = "text-form-writes-operand:%s:%s" % (tag, lt)
                    if enabled == 0:
                        continue
                    n += 1
                    where = "foam.c:%d (foamToSExpr0)" % x["l"]
                    if enabled is None:
                        raise AnalysisBroken("foamToSExpr0: cannot decide whether the constant stored at line %d is written for %s"
                                             % (x["l"], tag))
                    if (tag, lt) in PLACEHOLDER_OK:
                        rep.ok("W12", key, sample={"placeholder allowed": PLACEHOLDER_OK[(tag, lt)]})
                    else:
                        rep.violation("W12", key, where,
                                      "the .fm writer stores the constant %s instead of the '%s' operand of %s (format \"%s\"): the "
                                      "field is lost when the unit is saved as text and read back (for GDecl it is the return type "
                                      "of a foreign import: generating C from the .fm then fails)"
                                      % (const_value(x["c"][1]), lt, tag[5:], argf))
    rep.floor("placeholder stores in the text-form writer", n, 1)


# --------------------------------------------------------------------------
# W3: sections of the object file (names only; the record codecs of lib.c are data dependent)
# --------------------------------------------------------------------------

def w3(rep, f_lib):
    # table order
    rows = common.table_rows(f_lib.var("libSectInfoTable"))
    names = f_lib.enum_values("libSectName") if "libSectName" in f_lib.enums else None
    if names is None:
        for e in f_lib.raw["enums"]:
            d = dict(e["e"])
            if "LIB_Syme" in d:
                names = d
    if names is None:
        raise AnalysisBroken("enumeration of LIB_ section names not found")
    for i, r in enumerate(rows):
        tag = common.enum_name(r["c"][0])
        if names.get(tag) != i:
            rep.violation("W3", "secttable:%s" % tag, "lib.c:%d (libSectInfoTable)" % r["l"],
                          "row %d of libSectInfoTable is for %s (=%s): the table is indexed by section name" % (i, tag, names.get(tag)))
        else:
            rep.ok("W3", "secttable:%s" % tag, nontrivial=False)
    written, read = {}, {}
    for name, fn in f_lib.funcs.items():
        if "body" not in fn or not fn["file"].endswith("lib.c"):
            continue
        adds, puts = [], []
        for c in calls(fn["body"]):
            cal = c.get("callee")
            if cal == "libAddSection" and len(c["c"]) >= 3:
                adds.append(common.enum_name(c["c"][2]))
            elif cal == "libPutSection" and len(c["c"]) >= 3:
                puts.append(common.enum_name(c["c"][2]))
            elif cal == "libGetSection" and len(c["c"]) >= 3:
                n2 = common.enum_name(c["c"][2])
                if n2:
                    read.setdefault(n2, []).append((name, c["l"]))
        if adds or puts:
            key = "section-pair:%s" % name
            if adds == puts and None not in adds:
                rep.ok("W3", key, sample={"function": name, "sections": adds} if len(written) < 2 else None)
            else:
                rep.violation("W3", key, "lib.c:%d (%s)" % (fn["l"], name),
                              "%s collects section(s) %s but stores them as %s: the data ends up under another section's name" % (
                                  name, adds, puts))
            for a in puts:
                written.setdefault(a, []).append(name)
    rep.floor("section writers in lib.c", len(written), 14)
    for sec, users in sorted(read.items()):
        key = "section-read:%s" % sec
        if sec in written:
            rep.ok("W3", key)
        else:
            rep.violation("W3", key, "lib.c:%d (%s)" % (users[0][1], users[0][0]),
                          "section %s is read but no function writes it" % sec)
    # reader/writer correspondence by name: libPutSymeX <-> lib1GetSymeX use the same section
    for wname, fn in f_lib.funcs.items():
        if not wname.startswith("libPutSyme") or "body" not in fn:
            continue
        rname = "lib1GetSyme" + wname[len("libPutSyme"):]
        if rname not in f_lib.funcs or "body" not in f_lib.funcs[rname]:
            continue
        ws = [common.enum_name(c["c"][2]) for c in calls(fn["body"], "libPutSection")]
        rs = [common.enum_name(c["c"][2]) for c in calls(f_lib.funcs[rname]["body"], "libGetSection")]
        key = "section-siblings:%s" % wname[len("libPutSyme"):]
        if ws and rs and set(ws) == set(rs):
            rep.ok("W3", key)
        elif ws and rs:
            rep.violation("W3", key, "lib.c (%s/%s)" % (wname, rname), "%s writes %s, %s reads %s" % (wname, ws, rname, rs))


# --------------------------------------------------------------------------
# W6: type / symbol-meaning codecs of sefo.c
# --------------------------------------------------------------------------

FAMILIES = ["sefo", "syme", "tform1", "tqual", "sefoList", "symeList", "tformList", "tqualList", "tform"]
ROLE_SUFFIX = {"To": "ToBuffer", "Fr": "FrBuffer", "Fr0": "FrBuffer0"}


def fam_of(callee):
    for suf in ("ToBuffer1", "FrBuffer1"):
        if callee.endswith(suf):
            return callee[: -len(suf)] + "1"
    for suf in ("FrBuffer0", "ToBuffer", "FrBuffer"):
        if callee.endswith(suf):
            return callee[: -len(suf)]
    return None


def seq_of(node, widths, irregular):
    """Abstract a statement (list) into events; records data-dependent
    branching that guards buffer events in `irregular`."""
    ev = []

    def has_events(n):
        return bool(seq_of(n, widths, set()))

    def visit(n):
        if n is None:
            return
        k = n["k"]
        if k == "DoStmt":
            return
        if k in ("ForStmt", "WhileStmt"):
            inner = seq_of(n["c"][-1], widths, irregular)
            if inner:
                ev.append(("loop", "lastint", tuple(inner)))
            return
        if k == "IfStmt":
            a = seq_of(n["c"][1], widths, irregular)
            b = seq_of(n["c"][2], widths, irregular) if n["c"][2] is not None else []
            if a or b:
                irregular.add(n["l"])
                ev.append(("if", tuple(a), tuple(b)))
            return
        if k == "SwitchStmt":
            groups = {}
            dflt = None
            for g in common.switch_cases(n):
                body = []
                for st in g["stmts"]:
                    body.extend(seq_of(st, widths, irregular))
                isbug = any(c.get("callee") in ("bug", "bugBadCase", "bugUnimpl") for st in g["stmts"] for c in calls(st))
                body = merge_strings(body)
                for l in g["labels"]:
                    if l[0] == "default":
                        dflt = ("bug",) if isbug else tuple(body)
                    else:
                        groups[l[0] or str(l[1])] = ("bug",) if isbug else tuple(body)
            ev.append(("switch", tuple(sorted(groups.items())), dflt))
            return
        if k == "CallExpr":
            cal = n.get("callee") or ""
            for a in n["c"][1:]:
                visit(a)
            fam = fam_of(cal)
            if fam is not None and (cal[0].islower()):
                ev.append(("call", fam))
            elif cal in ("bufWrString", "bufRdString"):
                ev.append(("string",))
            elif cal in ("bufSkip", "bufGetn"):
                a = n["c"][-1]
                kv = const_value(a)
                if kv is not None:
                    ev.append(("fix", kv))
                else:
                    sx = strip(a)
                    if sx is not None and sx["k"] == "BinaryOperator" and sx["op"] == "*":
                        k2 = const_value(sx["c"][1]) if const_value(sx["c"][1]) is not None else const_value(sx["c"][0])
                        ev.append(("loop", "lastint", (("fix", k2),)))
                    else:
                        ev.append(("bytes", "lastint"))
            elif cal in widths:
                ev.append(("fix", widths[cal]))
            return
        for c in n.get("c", []):
            visit(c)
        for d in n.get("decls", []):
            if d.get("init") is not None:
                visit(d["init"])

    if isinstance(node, list):
        for x in node:
            visit(x)
    else:
        visit(node)
    return merge_strings(ev)


def merge_strings(ev):
    """A string in a skipper is: 4-byte count followed by that many bytes."""
    out = []
    i = 0
    while i < len(ev):
        if ev[i] == ("fix", 4) and i + 1 < len(ev) and ev[i + 1] == ("bytes", "lastint"):
            out.append(("string",))
            i += 2
        else:
            out.append(ev[i])
            i += 1
    return out


def flatten(seq, fixed):
    out = []
    for e in seq:
        if e[0] == "call" and e[1] in fixed:
            out.extend(fixed[e[1]])
        elif e[0] == "loop":
            out.append(("loop", e[1], tuple(flatten(e[2], fixed))))
        elif e[0] == "switch":
            out.append(("switch", tuple((k, tuple(flatten(v, fixed)) if v != ("bug",) else v) for k, v in e[1]),
                        (tuple(flatten(e[2], fixed)) if e[2] not in (None, ("bug",)) else e[2])))
        elif e[0] == "if":
            out.append(("if", tuple(flatten(e[1], fixed)), tuple(flatten(e[2], fixed))))
        else:
            out.append(e)
    return out


def strip_bug_cases(seq):
    """Tags whose case reports a bug in one role are not compared."""
    out = []
    for e in seq:
        if e[0] == "switch":
            out.append(("switch", dict(e[1]), e[2]))
        else:
            out.append(e)
    return out


def compare_seq(a, b):
    """None if equal (modulo cases that are bug() in either), else a description."""
    if len(a) != len(b):
        return "%s vs %s" % (show6(a), show6(b))
    for x, y in zip(a, b):
        if x[0] != y[0]:
            return "%s vs %s" % (show6([x]), show6([y]))
        if x[0] == "switch":
            dx, dy = dict(x[1]), dict(y[1])
            for tag in sorted(set(dx) | set(dy)):
                vx = dx.get(tag, x[2])
                vy = dy.get(tag, y[2])
                if vx == ("bug",) or vy == ("bug",) or vx is None or vy is None:
                    continue
                d = compare_seq(list(vx), list(vy))
                if d:
                    return "case %s: %s" % (tag, d)
            if x[2] not in (None, ("bug",)) and y[2] not in (None, ("bug",)):
                d = compare_seq(list(x[2]), list(y[2]))
                if d:
                    return "default case: %s" % d
        elif x[0] == "loop":
            d = compare_seq(list(x[2]), list(y[2]))
            if d:
                return "loop body: %s" % d
        elif x != y:
            return "%s vs %s" % (show6([x]), show6([y]))
    return None


def show6(seq):
    def one(e):
        if e[0] == "fix":
            return "fix(%s)" % e[1]
        if e[0] == "call":
            return e[1]
        if e[0] == "loop":
            return "loop{%s}" % " ".join(one(x) for x in e[2])
        if e[0] == "switch":
            return "switch{%d cases}" % len(e[1])
        if e[0] == "if":
            return "if{..}"
        return e[0]
    return "[" + " ".join(one(e) for e in seq) + "]"


def w6(rep, f_sefo, widths):
    seqs = {}
    irregular = {}
    for fam in FAMILIES:
        for role, suf in ROLE_SUFFIX.items():
            name = (fam[:-1] + suf + "1") if fam.endswith("1") else fam + suf
            fn = f_sefo.funcs.get(name)
            if fn is None or "body" not in fn:
                continue
            irr = set()
            seqs[(fam, role)] = seq_of(fn["body"], widths, irr)
            irregular[(fam, role)] = irr
    # families whose encoding is a fixed number of bytes
    fixed = {}
    for fam in FAMILIES:
        s = seqs.get((fam, "To"))
        if s and all(e[0] == "fix" for e in s):
            fixed[fam] = s
    # the skipper knows tform1 only by its width: take it from the writer
    n = 0
    for fam in FAMILIES:
        to = seqs.get((fam, "To"))
        if to is None:
            continue
        for role in ("Fr", "Fr0"):
            other = seqs.get((fam, role))
            key = "family:%s:%s" % (fam, role)
            if other is None:
                if fam in fixed:
                    rep.note("W6: %s has no %s function; its %d bytes are skipped inline by callers" % (fam, ROLE_SUFFIX[role], sum(e[1] for e in fixed[fam])))
                continue
            if irregular[(fam, "To")] or irregular[(fam, role)]:
                rep.note("W6 uncompared: %s %s/%s branch on data (lines %s)" % (
                    fam, ROLE_SUFFIX["To"], ROLE_SUFFIX[role], sorted(irregular[(fam, "To")] | irregular[(fam, role)])[:6]))
                continue
            n += 1
            a = flatten(to, fixed)
            b = flatten(other, fixed)
            d = compare_seq(a, b)
            where = "sefo.c (%s%s / %s%s)" % (fam, ROLE_SUFFIX["To"], fam, ROLE_SUFFIX[role])
            if d is None:
                rep.ok("W6", key, sample={"family": fam, "role": role, "writer": show6(a)} if n <= 4 else None)
            else:
                rep.violation("W6", key, where,
                              "%s is written and %s in different shapes: %s; every type stored after it in the library is "
                              "decoded at the wrong offset" % (fam, "read back" if role == "Fr" else "skipped", d))
    rep.floor("codec families compared in sefo.c", n, 10)
    # flag bits of the tform tag byte
    tfw, tfr, tf0 = (f_sefo.func("tformToBuffer"), f_sefo.func("tformFrBuffer"), f_sefo.func("tformFrBuffer0"))

    def consts(fn, ops):
        out = set()
        for x in walk(fn["body"]):
            if x["k"] in ("BinaryOperator", "CompoundAssignOperator") and x.get("op") in ops:
                v = const_value(x["c"][1])
                if v is not None and v > 1:
                    out.add(v)
        return out
    wbits = consts(tfw, ("|=", "|"))
    wmask = consts(tfw, ("&=", "&"))
    rbits = consts(tfr, ("&",)) - consts(tfr, ("&=",))
    rmask = consts(tfr, ("&=",))
    smask = consts(tf0, ("&=", "&"))
    allbits = 0
    for b in wbits:
        allbits |= b
    ok = wbits and wbits == rbits and wmask == rmask == smask and len(wmask) == 1 and (list(wmask)[0] & allbits) == 0
    if ok:
        rep.ok("W6", "tform:flag-bits", sample={"flags": sorted(wbits), "mask": sorted(wmask)})
    else:
        rep.violation("W6", "tform:flag-bits", "sefo.c (tformToBuffer/tformFrBuffer/tformFrBuffer0)",
                      "flag bits OR-ed into the type tag byte %s, tested by the reader %s; tag masks writer %s reader %s skipper %s" % (
                          sorted(wbits), sorted(rbits), sorted(wmask), sorted(rmask), sorted(smask)))


def w16(rep, f_foam):
    """The text form (.fm) is read into an S-expression, converted to FOAM and the S-expression is freed (foamRdSExpr).  What
    the FOAM tree keeps of it must be its own copy: the accessors come in pairs -- sxiToBigInteger / sxiToString copy,
    sxiToTheBigInteger / sxiToTheString hand out the S-expression's own object, which sxiFree releases.  A stored big integer
    (2^62 and up) or a string kept by reference is freed storage inside the tree: the constant reads back as another number,
    or the compiler faults.  In foam.c: the object of an S-expression (its `.val` of sxInteger / sxString) is never stored
    into a structure, an array element or returned; reading it into a local that is only looked at is fine."""
    n = 0
    for name, fn in sorted(f_foam.funcs.items()):
        if "body" not in fn or not fn.get("file", "").endswith("foam.c"):
            continue

        def borrowed(e):
            e = strip(e)
            if e is None or e["k"] != "MemberExpr" or e["n"] != "val":
                return False
            b = strip(e["c"][0])
            return b is not None and b["k"] == "MemberExpr" and b["n"] in ("sxInteger", "sxString")
        carriers = set()
        for x in walk(fn["body"]):
            if x["k"] == "DeclStmt":
                for d in x.get("decls", []):
                    if d.get("init") is not None and borrowed(d["init"]):
                        carriers.add(d["n"])
                        n += 1
            elif x["k"] == "BinaryOperator" and x["op"] == "=" and borrowed(x["c"][1]):
                n += 1
                l = strip(x["c"][0])
                if l is not None and l["k"] == "DeclRefExpr" and l.get("dk") != "parm" and l["n"] not in f_foam.vars:
                    carriers.add(l["n"])
        for x in walk(fn["body"]):
            val = None
            if x["k"] == "BinaryOperator" and x["op"] == "=":
                l = strip(x["c"][0])
                r = strip(x["c"][1])
                is_b = borrowed(x["c"][1]) or (r is not None and r["k"] == "DeclRefExpr" and r["n"] in carriers)
                if is_b and l is not None and not (l["k"] == "DeclRefExpr" and l["n"] in carriers):
                    val = (x, "stored in `%s`" % render(l)[:50])
            elif x["k"] == "ReturnStmt" and x.get("c") and x["c"][0] is not None:
                r = strip(x["c"][0])
                if borrowed(x["c"][0]) or (r is not None and r["k"] == "DeclRefExpr" and r["n"] in carriers):
                    val = (x, "returned")
            if val is not None:
                rep.violation("W16", "tree-keeps-its-own-copy:%s" % name, "foam.c:%d (%s)" % (val[0]["l"], name),
                              "the S-expression's own object (sxiToThe...: no copy) is %s: foamRdSExpr frees the S-expression "
                              "right after the conversion, so the FOAM tree read from a .fm holds freed storage for every big "
                              "integer that is not immediate (|value| >= 2^62) -- recompiling the saved unit gives other constants "
                              "or a storage fault" % val[1])
    rep.floor("reads of an S-expression's own object in foam.c", n, 1)
    if not any("tree-keeps-its-own-copy" in str(v) for v in rep.violations):
        rep.ok("W16", "tree-keeps-its-own-copy")


W17_MAKERS = ("bintCopy", "bintNew", "bintFrString", "bintFrPlacevS", "bintAllocPlaces", "bintAlloc", "xintCopy", "bintNegate",
              "bintAbs", "bintPlus", "bintMinus", "bintTimes", "bintFrBuffer")


def w17(rep, f_foam):
    """Writing a unit does not consume it: the FOAM tree is written to the .ao first and to .fm / .c / .lsp afterwards in the
    same run.  The writer needs the stored form of a big integer (sign and places) and makes one -- `xintStore(bintCopy(x))`
    -- which it frees after writing.  xintStore(x) alone returns x itself when x is already stored (2^62 and up), so freeing
    that result frees the tree's own constant: the .fm written next shows (BInt 0), the C generator faults.  In foam.c every
    local passed to bintFree holds, in all its assignments, a value made by a copying or creating call; the only bintFree of
    a tree slot is in the tree's own destructor."""
    n = 0
    for name, fn in sorted(f_foam.funcs.items()):
        if "body" not in fn or not fn.get("file", "").endswith("foam.c"):
            continue
        frees = calls(fn["body"], "bintFree")
        if not frees:
            continue
        assigns = {}
        for x in walk(fn["body"]):
            if x["k"] == "BinaryOperator" and x["op"] == "=" and (strip(x["c"][0]) or {}).get("k") == "DeclRefExpr":
                assigns.setdefault(strip(x["c"][0])["n"], []).append(x["c"][1])
            elif x["k"] == "DeclStmt":
                for d in x.get("decls", []):
                    if d.get("init") is not None:
                        assigns.setdefault(d["n"], []).append(d["init"])
        for c in frees:
            a = strip(c["c"][1])
            n += 1
            key = "writer-frees-its-own-copy:%s@%d" % (name, n)
            where = "foam.c:%d (%s)" % (c["l"], name)
            if a is None or a["k"] != "DeclRefExpr" or a.get("dk") == "parm":
                if name in ("foamFreeNode", "foamFree"):
                    rep.ok("W17", key, nontrivial=False)
                else:
                    rep.violation("W17", "writer-frees-its-own-copy:%s" % name, where,
                                  "bintFree(%s) outside the tree's destructor frees a big integer the tree still refers to"
                                  % render(a)[:40])
                continue
            vals = assigns.get(a["n"], [])
            borrowed = [v for v in vals if not any(y["k"] == "CallExpr" and y.get("callee") in W17_MAKERS for y in walk(v))]
            if vals and not borrowed:
                rep.ok("W17", key)
            else:
                rep.violation("W17", "writer-frees-its-own-copy:%s" % name, where,
                              "`%s` is freed here, but it is assigned `%s`, which is not a copy: xintStore returns its argument "
                              "itself when the integer is already stored (|value| >= 2^62), so the constant inside the FOAM tree is "
                              "freed while the tree is still to be written as .fm or compiled to C in the same run ((BInt 0) in "
                              "the .fm, a fault with -Fao -Fc)" % (a["n"], render(strip(borrowed[0]))[:50] if borrowed else "?"))
    rep.floor("bintFree calls in foam.c", n, 2)


def w18(rep):
    """The text form writes a float with DFloatSprint (`%#.17g`) and then makes sure it carries an exponent marker; the reader
    (sxiIoIsPotentialNumber) wants a digit after the decimal point.  `%#g` prints a number whose seventeen significant digits
    all stand before the point -- every double in [1e16, 1e17) -- as `12345678901234568.`, so the marker lands directly
    after the point and the saved .fm is refused (`Meaningless potential number`).  In the block of sexpr.c that writes a float,
    a test of the character before the appended marker against '.' puts a '0' there."""
    f = common.extract("sexpr.c", all_trees=True)
    n = 0
    for name, fn in sorted(f.funcs.items()):
        if "body" not in fn or not fn.get("file", "").endswith("sexpr.c"):
            continue
        for c in calls(fn["body"], "DFloatSprint"):
            par = common.parents(fn["body"])
            blk = c
            while blk["id"] in par and blk["k"] != "CompoundStmt":
                blk = par[blk["id"]]
            n += 1
            guarded = False
            for x in walk(blk):
                if x["k"] == "IfStmt" and any(const_value(y) == ord(".") for y in walk(x["c"][0])) and \
                        any(y["k"] == "BinaryOperator" and y["op"] == "=" and const_value(y["c"][1]) == ord("0") for y in walk(x["c"][1])):
                    guarded = True
            key = "float-text-has-a-fraction-digit:%s" % name
            if guarded:
                rep.ok("W18", key)
            else:
                rep.violation("W18", key, "sexpr.c:%d (%s)" % (c["l"], name),
                              "the exponent marker is appended to whatever DFloatSprint printed: for a double in [1e16, 1e17) that is "
                              "`12345678901234568.`, and `12345678901234568.e0` is not a number for the reader of the same file -- a "
                              "unit saved with -Ffm cannot be compiled from the .fm (`Meaningless potential number`)")
    rep.floor("float writers of the text form", n, 1)


def w19(rep):
    """A library and its clients are compiled by different runs and meet through hash codes of export types; the codes fold in
    a per-type-form `twist` taken from a table filled by a small pseudo-random generator.  The codes agree between runs only
    because the generator is put back to its fixed seed each time the table is filled.  If the fill relies on the static
    initial value of the seed instead, a table rebuilt later in the same run (a second file on the command line) continues the
    sequence: the second unit's export codes differ from those any other run computes, and a client looking an export up in it
    (or it in a library) fails with `Export not found`.  In gf_add.c every function that draws from gen0RtRand passes, on
    every path from its entry to the first draw, a store of a constant into the generator's seed (directly or by calling a
    function that does nothing else)."""
    f = common.extract("gf_add.c", all_trees=True, all_cfg=True)
    # the generator's state: the file-scope variable gen0RtRand updates
    gen = f.func("gen0RtRand")
    seeds = set()
    for x in walk(gen["body"]):
        if x["k"] in ("BinaryOperator", "CompoundAssignOperator") and x["op"].endswith("=") and x["op"] not in ("==", "!=", "<=", ">="):
            l = strip(x["c"][0])
            if l is not None and l["k"] == "DeclRefExpr" and l["n"] in f.vars:
                seeds.add(l["n"])
    if len(seeds) != 1:
        raise AnalysisBroken("gen0RtRand: the generator's state variable was not found")
    seed = seeds.pop()
    resetters = set()
    for name, fn in f.funcs.items():
        if "body" in fn and name != "gen0RtRand":
            ws = [x for x in walk(fn["body"]) if x["k"] == "BinaryOperator" and x["op"] == "=" and (strip(x["c"][0]) or {}).get("n") == seed]
            if ws and all(const_value(x["c"][1]) is not None for x in ws):
                resetters.add(name)
    n = 0
    for name, fn in sorted(f.funcs.items()):
        if "body" not in fn or name == "gen0RtRand" or not fn.get("cfg") or not calls(fn["body"], "gen0RtRand"):
            continue
        n += 1
        cfg = common.CFG(fn)
        draws = lambda e: e["k"] == "CallExpr" and e.get("callee") == "gen0RtRand"
        resets = lambda e: (e["k"] == "CallExpr" and e.get("callee") in resetters) or \
            (e["k"] == "BinaryOperator" and e["op"] == "=" and (strip(e["c"][0]) or {}).get("n") == seed and const_value(e["c"][1]) is not None)
        p = cfg.path_avoiding(cfg.entry, draws, resets)
        key = "generator-reseeded-before-the-table-is-filled:%s" % name
        if p is None:
            rep.ok("W19", key, sample={"seed": seed, "resetters": sorted(resetters)})
        else:
            rep.violation("W19", key, "gf_add.c:%d (%s)" % (fn["l"], name),
                          "%s draws from gen0RtRand without first putting `%s` back to its fixed value: the numbers depend on "
                          "how many were drawn before in this run, so the type-hash twists of the second file of a command line "
                          "differ from those of any other run and exports of that unit are not found by units compiled "
                          "separately" % (name, seed), detail={"cfg_path": p[:10]})
    rep.floor("functions drawing from the hash-twist generator", n, 1)


def w20(rep, f_foam):
    """An n-ary node is written as: tag+format, argument count, then its fields -- and the *integer* fields (letter i of the
    tag's argf: the record format of Rec/DEnv/DFluid/TR, the return format of Prog) are written in the same width as the
    count.  foamTagFormat chooses that width; it must therefore look at those fields, not only at the count: a Prog with fewer
    than 256 arguments whose return format is 306 was written with one byte per integer and came back with format 50 (the C
    generated from the .ao had another signature), and a TR with two operands got an `immediate` format that has no room for
    the field at all.  For every n-ary tag with an i field, the branch of foamTagFormat that the tag takes reads the data of
    its fields when it computes the format."""
    from .peval import peval
    rows = []
    tbl = f_foam.var("foamInfoTable")
    for r in common.table_rows(tbl):
        c = r["c"]
        if len(c) >= 5:
            tag, argf = common.enum_name(c[0]), common.string_value(c[4])
            if tag and argf and argf.endswith("*") and "i" in argf.split("*")[0]:
                rows.append((tag, argf))
    rows = sorted(set(rows))
    if len(rows) < 4:
        raise AnalysisBroken("foamInfoTable: n-ary tags with an integer field not found (%s)" % rows)
    fn = f_foam.func("foamTagFormat")
    enumv = {}
    for e in f_foam.raw["enums"]:
        for n_, v_ in e["e"]:
            enumv[n_] = v_
    top = [st for st in fn["body"]["c"] if st is not None and st["k"] == "IfStmt"]
    if len(top) != 1:
        raise AnalysisBroken("foamTagFormat: expected one if-chain")
    for tag, argf in rows:
        node = top[0]
        taken = None
        while node is not None and node["k"] == "IfStmt":
            v = peval(node["c"][0], {"tag": enumv[tag], "isNary": 1})
            if v is None:
                raise AnalysisBroken("foamTagFormat: the condition at line %d is not decided by the tag" % node["l"])
            if v:
                taken = node["c"][1]
                break
            node = node["c"][2] if len(node["c"]) > 2 else None
        if taken is None:
            taken = node
        if taken is None:
            raise AnalysisBroken("foamTagFormat: no branch for %s" % tag)
        reads_data = any(y["k"] == "MemberExpr" and y["n"] == "data" for y in walk(taken))
        immediate = any(y["k"] == "BinaryOperator" and y["op"] == "+" and any((z.get("mac") or "") == "STD_FORMS" or render(z) == "STD_FORMS" or const_value(z) == 2 for z in walk(y))
                        and any(z["k"] == "DeclRefExpr" and z["n"] == "si" for z in walk(y)) for y in walk(taken))
        key = "integer-field-fits-the-node-width:%s" % tag
        if reads_data and not immediate:
            rep.ok("W20", key, sample={"argf": argf})
        else:
            rep.violation("W20", key, "foam.c:%d (foamTagFormat)" % taken["l"],
                          "%s (argf \"%s\") takes a branch of foamTagFormat that chooses the width of the node's integers from the "
                          "argument count alone%s: its integer field is cut to that width when the unit is saved (a return "
                          "format of 306 comes back as 50 and the C generated from the .ao declares another signature)"
                          % (tag, argf, " and may choose an immediate format, which has no room for the field" if immediate else ""))
    rep.floor("n-ary tags with an integer field", len(rows), 4)


def run(tier, only=None):
    rep = common.Report("C05", tier, EXPLANATION)
    f_foam = common.extract("foam.c", all_trees=True)
    f_buf = common.extract("buffer.c", all_trees=True)
    f_lib = common.extract("lib.c", trees=["libPutHeader", "libGetHeader"], cfg=["libPutFoam"])
    widths = prim_widths(f_buf)
    for k in ("bufPutHInt", "bufPutSInt", "bufGetHInt", "bufGetSInt", "bufRdSFloat", "bufWrSFloat", "bufRdDFloat", "bufWrDFloat"):
        if k not in widths:
            raise AnalysisBroken("width of buffer primitive %s could not be derived" % k)
    widths.setdefault("bufPutByte", 1)
    widths.setdefault("bufGetByte", 1)
    f_fint = common.extract("fint.c", trees=["skipProg"])
    alphabet = w1(rep, f_foam, widths, f_fint)
    w2(rep, f_buf, f_lib, widths)
    f_lib_all = common.extract("lib.c", all_trees=True)
    w3(rep, f_lib_all)
    w4(rep, f_foam, f_lib)
    w4b(rep, f_foam)
    w5(rep, f_foam, alphabet)
    w7(rep, f_foam)
    w8(rep, f_foam)
    w9(rep)
    w10(rep)
    w11(rep)
    w12(rep, f_foam)
    w16(rep, f_foam)
    w17(rep, f_foam)
    w18(rep)
    w19(rep)
    w20(rep, f_foam)
    from . import c19_float, immed
    immed.report(rep, "W14", units=["foam.c", "sexpr.c"], floor=2)      # integers of the text form (.fm) read back in full
    c19_float.sentinels(rep, "W13")
    c19_float.constant_precision(rep, "W15")   # float constants of the text form keep their value      # the float literals of a saved unit: reserved exponents of the portable form
    f_sefo = common.extract("sefo.c", all_trees=True)
    w6(rep, f_sefo, widths)
    rep.assumptions += ["W7: for Lex/RElt/RRElt/EElt/IRElt/TRElt nodes the letter i of argf marks exactly the fields written with the "
                        "format-dependent width",
                        "bufPutByte/bufGetByte move one byte (they are macros over bufAdd1/bufGet1)",
                        "the last integer read/written in a case is the length used by the following bytes/loop event"]
    return rep
