"""C10 (thin): the size-class tables of store.c are well formed.

Decides only the table clause: the lookup "request size -> size class" returns
a class at least as large as the request, suitably aligned, and the
division-by-shift / division-by-lookup encoding in fixedSizeLog matches the
class sizes.  Allocation histories are NOT decided.
"""
import os
from . import common
from .common import AnalysisBroken, walk, strip, render, calls, const_value

EXPLANATION = (
    "C10-T: from the constant-evaluated initialisers of store.c (both the compiler and the -DFOAM_RTS configuration): "
    "fixedSize[] strictly increasing, every entry a non-zero multiple of sizeof(Pointer) and alignof(MostAlignedType), "
    "last entry == FixedSizeMax == MixedSizeQuantum, FixedSizeMax < PgSize; fixedSizeLog[] has FixedSizeCount entries; "
    "entry k>=0 at i means sizeof(Pointer)<<k == fixedSize[i] (division by shift), entry k<0 selects row -(k+1) of "
    "stoDivTable (rows distinct and inside the table, columns >= PgSize, quotient fits the element type); the lookup arrays "
    "fixedSizeFor/fixedSizeIndexFor have FixedSizeMax+1 entries and element types wide enough for the values stored. "
    "T-lookup: the nested loop of stoInit that fills fixedSizeFor/fixedSizeIndexFor assigns the class size fixedSize[i] and the "
    "class index i for every j from the previous class size + 1 (0 for the first) up to and including fixedSize[i], so that "
    "with the monotone table every request size <= FixedSizeMax maps to the smallest class that holds it. "
    "T-section: the byte count pieceGetMixed computes for a new mixed section of nq quanta (header term C, per-quantum term D, "
    "both constant-evaluated) dominates the capacity formula of sectQmCount ((pages*PgSize - H)/(q + B)): C >= H and D >= quantum + B, "
    "so the section prepared from QUO_ROUND_UP(nb, PgSize) pages holds at least nq quanta. "
    "T-carve: stoAllocInner (pages for the allocator's own B-tree nodes and list heads) cuts pagesGet(npages) into npcs cells of "
    "nbytes with npcs = (k*npages)/nbytes, k <= PgSize, and a loop creating cells 1..npcs-1 after the first: floor division keeps "
    "every cell inside the pages. T-btree: in btree.c a node pointer obtained from btreeSearch* is not dereferenced after a later "
    "statement of the same block has called a routine that restructures the tree (delete, insert, split, unsplit, rotate). "
    "Behaviour over allocation histories is not decided.")


def array_values(var):
    init = var.get("init")
    if init is None or init["k"] != "InitListExpr":
        raise AnalysisBroken("%s has no initialiser list" % var["n"])
    vals = []
    for e in init["c"]:
        v = common.const_value(e)
        if v is None:
            raise AnalysisBroken("%s: element at line %d is not a constant" % (var["n"], e["l"]))
        vals.append((v, e["l"]))
    return vals


def check_config(rep, config):
    probe = os.path.join(common.VERIF, "witness", "store_probe.c")
    facts = common.extract(probe, config)
    P = facts.enum_values("verif_store_probe")
    fs = array_values(facts.var("fixedSize"))
    fl = array_values(facts.var("fixedSizeLog"))
    where = "store.c[%s]" % config
    rep.analysed_count("tables", 2)
    rep.analysed_count("table entries", len(fs) + len(fl))
    ptr = P["VP_sizeofPointer"]
    align = P["VP_alignofMost"]

    def ob(rule, inst, cond, msg, line=None, sample=None):
        w = "%s:%s" % (where, line) if line else where
        if cond:
            rep.ok(rule, "%s:%s" % (config, inst), sample=sample)
        else:
            rep.violation(rule, "%s:%s" % (config, inst), w, msg)

    if len(fs) < 4:
        raise AnalysisBroken("fixedSize has only %d entries" % len(fs))
    for i, (v, line) in enumerate(fs):
        ob("T-align", "fixedSize[%d]" % i, v > 0 and v % ptr == 0 and v % align == 0,
           "fixedSize[%d]=%d is not a positive multiple of sizeof(Pointer)=%d and alignof(MostAlignedType)=%d" % (i, v, ptr, align),
           line, sample={"value": v})
        if i > 0:
            ob("T-monotone", "fixedSize[%d]" % i, v > fs[i - 1][0],
               "fixedSize[%d]=%d is not greater than fixedSize[%d]=%d: the class lookup built by stoInit would hand out a "
               "smaller block than requested" % (i, v, i - 1, fs[i - 1][0]), line)
    ob("T-max", "last", fs[-1][0] == P["VP_FixedSizeMax"],
       "last fixedSize entry %d != FixedSizeMax %d" % (fs[-1][0], P["VP_FixedSizeMax"]), fs[-1][1])
    ob("T-max", "quantum", P["VP_MixedSizeQuantum"] % align == 0 and P["VP_MixedSizeQuantum"] >= P["VP_FixedSizeMax"],
       "MixedSizeQuantum %d not aligned or smaller than FixedSizeMax" % P["VP_MixedSizeQuantum"])
    ob("T-max", "page", P["VP_FixedSizeMax"] < P["VP_PgSize"], "FixedSizeMax %d >= PgSize %d" % (P["VP_FixedSizeMax"], P["VP_PgSize"]))
    ob("T-len", "fixedSizeLog", len(fl) == len(fs) == P["VP_FixedSizeCount"] == P["VP_fixedSizeLogLen"],
       "fixedSizeLog has %d entries, fixedSize has %d" % (len(fl), len(fs)))
    ob("T-len", "fixedSizeFor", P["VP_fixedSizeForLen"] >= fs[-1][0] + 1 and P["VP_fixedSizeIndexForLen"] >= fs[-1][0] + 1,
       "lookup arrays have %d/%d entries but sizes go up to %d" % (P["VP_fixedSizeForLen"], P["VP_fixedSizeIndexForLen"], fs[-1][0]))
    ob("T-len", "fixedSizeFor-elt", fs[-1][0] <= P["VP_fixedSizeForEltMax"] and len(fs) - 1 <= P["VP_fixedSizeIndexForEltMax"],
       "lookup array element type too narrow for the values stored")
    rows = []
    for i, (k, line) in enumerate(fl[: len(fs)]):
        size = fs[i][0]
        if k >= 0:
            ob("T-log", "fixedSizeLog[%d]" % i, (ptr << k) == size,
               "fixedSizeLog[%d]=%d says size %d, fixedSize[%d]=%d: piece numbers would be computed by a wrong shift" % (
                   i, k, ptr << k, i, size), line, sample={"log": k, "size": size})
        else:
            row = -(k + 1)
            ob("T-div", "fixedSizeLog[%d]" % i, 0 <= row < P["VP_stoDivTableRows"] and row not in rows,
               "fixedSizeLog[%d]=%d selects division-table row %d which is outside the table (%d rows) or already used" % (
                   i, k, row, P["VP_stoDivTableRows"]), line, sample={"row": row, "size": size})
            rows.append(row)
    ob("T-div", "cols", P["VP_stoDivTableCols"] >= P["VP_PgSize"], "stoDivTable has fewer columns than PgSize")
    ob("T-div", "elt", P["VP_PgSize"] // fs[0][0] <= P["VP_stoDivTableEltMax"], "stoDivTable element type too narrow")


def check_lookup_init(rep, config):
    """The loops of stoInit that fill fixedSizeFor / fixedSizeIndexFor give every request size j <= FixedSizeMax the
    smallest class >= j: for class i, every j in (previous class size, fixedSize[i]] maps to fixedSize[i] / i."""
    f = common.extract("store.c", config, trees=["stoInit"])
    fn = f.func("stoInit")
    par = common.parents(fn["body"])
    where = "store.c (stoInit)[%s]" % config
    stores = {}
    for x in common.walk(fn["body"]):
        if x["k"] == "BinaryOperator" and x["op"] == "=":
            l = common.strip(x["c"][0])
            if l is not None and l["k"] == "ArraySubscriptExpr":
                base = common.strip(l["c"][0])
                if base is not None and base.get("n") in ("fixedSizeFor", "fixedSizeIndexFor"):
                    stores[base["n"]] = (x, l)
    if set(stores) != {"fixedSizeFor", "fixedSizeIndexFor"}:
        raise AnalysisBroken("stoInit no longer fills fixedSizeFor/fixedSizeIndexFor")
    x, l = stores["fixedSizeFor"]
    jvar = common.strip(l["c"][1])
    val = common.strip(x["c"][1])
    # enclosing loops
    loops = []
    p = par.get(x["id"])
    while p is not None:
        if p["k"] == "ForStmt":
            loops.append(p)
        p = par.get(p["id"])
    if len(loops) < 2:
        raise AnalysisBroken("stoInit: lookup arrays are not filled by a nested loop any more")
    inner, outer = loops[0], loops[1]
    ivar = None
    oc = common.strip(outer["c"][1])
    if oc is not None and oc["k"] == "BinaryOperator" and oc["op"] == "<":
        ivar = common.strip(oc["c"][0])
    # sz = fixedSize[i] inside the outer loop
    szdef = None
    for y in common.walk(outer["c"][3]):
        if y["k"] == "BinaryOperator" and y["op"] == "=" and common.strip(y["c"][0]) is not None and val is not None \
                and common.strip(y["c"][0]).get("did") == val.get("did"):
            r = common.strip(y["c"][1])
            if r is not None and r["k"] == "ArraySubscriptExpr" and common.strip(r["c"][0]).get("n") == "fixedSize" \
                    and ivar is not None and common.strip(r["c"][1]).get("did") == ivar.get("did"):
                szdef = y
    def ob(inst, cond, msg):
        if cond:
            rep.ok("T-lookup", "%s:%s" % (config, inst))
        else:
            rep.violation("T-lookup", "%s:%s" % (config, inst), where, msg)
    ob("value-is-class-size", szdef is not None, "fixedSizeFor[j] is not assigned fixedSize[i] of the class being filled")
    ic = common.strip(inner["c"][1])
    ob("upper-bound-inclusive", ic is not None and ic["k"] == "BinaryOperator" and ic["op"] == "<=" and jvar is not None
       and common.strip(ic["c"][0]).get("did") == jvar.get("did") and val is not None and common.strip(ic["c"][1]).get("did") == val.get("did"),
       "the inner loop must run j up to and including the class size: a request of exactly fixedSize[i] bytes would otherwise "
       "be looked up in an unfilled slot")
    x2, l2 = stores["fixedSizeIndexFor"]
    ob("index-is-class", ivar is not None and common.strip(x2["c"][1]) is not None and common.strip(x2["c"][1]).get("did") == ivar.get("did")
       and common.strip(l2["c"][1]).get("did") == (jvar or {}).get("did"),
       "fixedSizeIndexFor[j] must be the index i of the class whose size is stored in fixedSizeFor[j]")
    # lower bound of the inner loop: sz0, which the outer loop sets to 0 and then to sz + 1
    ii = common.strip(inner["c"][0])
    lo = common.strip(ii["c"][1]) if ii is not None and ii["k"] == "BinaryOperator" and ii["op"] == "=" else None
    steps = []
    for part in (outer["c"][0], outer["c"][2]):
        for y in common.walk(part):
            if y["k"] == "BinaryOperator" and y["op"] == "=" and lo is not None and common.strip(y["c"][0]).get("did") == lo.get("did"):
                steps.append(y["c"][1])
    okstep = False
    if len(steps) == 2:
        a, b = steps
        zero = common.const_value(a) == 0
        bs = common.strip(b)
        plus = (bs is not None and bs["k"] == "BinaryOperator" and bs["op"] == "+" and val is not None
                and common.strip(bs["c"][0]).get("did") == val.get("did") and common.const_value(bs["c"][1]) in (0, 1))
        okstep = zero and plus
    ob("no-gap-between-classes", okstep,
       "the inner loop must start at 0 for the first class and at (previous class size)+1 afterwards, otherwise some request "
       "sizes are never entered in the lookup arrays")


def _linear(n, var):
    """n as (a, b) meaning a*var + b with constant a, b; None if not of that shape."""
    s_ = common.strip(n)
    if s_ is None:
        return None
    cv = common.const_value(s_)
    if cv is not None:
        return (0, cv)
    if s_["k"] == "DeclRefExpr" and s_["n"] == var:
        return (1, 0)
    if s_["k"] == "BinaryOperator" and s_["op"] in ("+", "-", "*"):
        a, b = _linear(s_["c"][0], var), _linear(s_["c"][1], var)
        if a is None or b is None:
            return None
        if s_["op"] == "+":
            return (a[0] + b[0], a[1] + b[1])
        if s_["op"] == "-":
            return (a[0] - b[0], a[1] - b[1])
        if a[0] == 0:
            return (a[1] * b[0], a[1] * b[1])
        if b[0] == 0:
            return (a[0] * b[1], a[1] * b[1])
    return None


def check_section_sizing(rep, config):
    """A new mixed section is asked for enough pages: the byte count computed by pieceGetMixed for nq quanta dominates
    the capacity formula of sectQmCount (pages*PgSize - header)/(quantum + per-quantum info)."""
    f = common.extract("store.c", config, trees=["sectQmCount", "pieceGetMixed", "sectPrepare"])
    where = "store.c (pieceGetMixed / sectQmCount)[%s]" % config
    # capacity: return (pageCount * PgSize - H) / (qmSize + B)
    fq = f.func("sectQmCount")
    pn = [p["n"] for p in fq["params"]]
    ret = [x for x in common.walk(fq["body"]) if x["k"] == "ReturnStmt"]
    e = common.strip(ret[0]["c"][0]) if len(ret) == 1 else None
    if e is None or e["k"] != "BinaryOperator" or e["op"] != "/" or len(pn) != 2:
        raise AnalysisBroken("sectQmCount is no longer `return (pages*PgSize - header)/(qmSize + info)`")
    num, den = _linear(e["c"][0], pn[0]), _linear(e["c"][1], pn[1])
    if num is None or den is None or den[0] != 1 or num[0] <= 0:
        raise AnalysisBroken("sectQmCount: numerator/denominator not linear in (pageCount, qmSize)")
    pgsize, H, B = num[0], -num[1], den[1]
    # request: nb = C + nq*(D); npages = QUO_ROUND_UP(nb, PgSize); sectPrepare(pages, npages, Q, false)
    fp = f.func("pieceGetMixed")
    nb = None
    for x in common.walk(fp["body"]):
        if x["k"] == "BinaryOperator" and x["op"] == "=" and common.strip(x["c"][0]) is not None and common.strip(x["c"][0]).get("n") == "nb":
            nb = _linear(x["c"][1], "nq")
    Q = None
    for c in common.calls(fp["body"], "sectPrepare"):
        Q = common.const_value(c["c"][3])
    if nb is None or Q is None:
        raise AnalysisBroken("pieceGetMixed: `nb = header + nq*(info + quantum)` / sectPrepare(pages, npages, quantum, ...) not recognised")
    D, C = nb
    sample = {"capacity": "(pages*%d - %d)/(q + %d)" % (pgsize, H, B), "request": "%d + nq*%d" % (C, D), "quantum": Q}
    if C >= H:
        rep.ok("T-section", "%s:header-term" % config, sample=sample)
    else:
        rep.violation("T-section", "%s:header-term" % config, where,
                      "pieceGetMixed allows %d bytes for the section header, sectQmCount subtracts %d: for some request sizes the new "
                      "section holds one quantum fewer than requested and stoAlloc returns a block smaller than asked for" % (C, H))
    if D >= Q + B:
        rep.ok("T-section", "%s:per-quantum-term" % config)
    else:
        rep.violation("T-section", "%s:per-quantum-term" % config, where,
                      "pieceGetMixed allows %d bytes per quantum, a quantum costs %d + %d" % (D, Q, B))


def check_carving(rep, config, rule="T-carve"):
    """stoAllocInner cuts npages pages into npcs cells of nbytes: the cells must lie inside the pages, npcs*nbytes <= npages*PgSize."""
    f = common.extract("store.c", config, trees=["stoAllocInner"])
    fn = f.func("stoAllocInner")
    where = "store.c:%d (stoAllocInner)[%s]" % (fn["l"], config)
    size = [p["n"] for p in fn["params"]][0]
    npcs = None
    for x in common.walk(fn["body"]):
        if x["k"] == "BinaryOperator" and x["op"] == "=" and common.strip(x["c"][0]) is not None and common.strip(x["c"][0]).get("n") == "npcs":
            npcs = common.strip(x["c"][1])
    got = [c for c in common.calls(fn["body"], "pagesGet")]
    carve = [x for x in common.walk(fn["body"]) if x["k"] == "ForStmt" and any(
        y["k"] == "DeclRefExpr" and y["n"] == size for y in common.walk(x["c"][3]))]
    if npcs is None or len(got) != 1 or len(carve) != 1:
        raise AnalysisBroken("stoAllocInner: `npcs = ...; pages = pagesGet(npages); for (...) carve cells of nbytes` not recognised")
    pv = common.strip(got[0]["c"][1])
    pages_var = pv.get("n") if pv is not None else None
    # the loop makes cells 1 .. npcs-1 after the first: i from 1 while i < npcs
    lc = common.strip(carve[0]["c"][1])
    li = common.strip(carve[0]["c"][0])
    loop_ok = (lc is not None and lc["k"] == "BinaryOperator" and lc["op"] == "<" and common.strip(lc["c"][1]).get("n") == "npcs"
               and li is not None and li["k"] == "BinaryOperator" and common.const_value(li["c"][1]) == 1)
    ok = False
    why = "npcs = %s" % common.render(npcs)
    if npcs["k"] == "BinaryOperator" and npcs["op"] == "/" and pages_var:
        num = _linear(npcs["c"][0], pages_var)
        den = common.strip(npcs["c"][1])
        P = common.extract(os.path.join(common.VERIF, "witness", "store_probe.c"), config).enum_values("verif_store_probe")
        if num is not None and num[1] == 0 and 0 < num[0] <= P["VP_PgSize"] and den is not None and den.get("n") == size:
            ok = True        # floor((k*npages)/nbytes) * nbytes <= k*npages <= npages*PgSize
    if not (ok and loop_ok):
        # a form the rule knows to exceed the floor: x/nbytes rounded up (conditional + 1, or (x + nbytes - 1)/nbytes), or a loop
        # that creates npcs cells after the first
        rounds_up = any(y["k"] == "ConditionalOperator" for y in common.walk(npcs)) or any(
            y["k"] == "BinaryOperator" and y["op"] == "+" for y in common.walk(npcs))
        loop_over = lc is not None and lc["k"] == "BinaryOperator" and lc["op"] == "<="
        if not (rounds_up or loop_over):
            raise AnalysisBroken("stoAllocInner: cell count `%s` / loop `%s` is of a form this rule cannot decide" % (
                common.render(npcs), common.render(lc)))
    if ok and loop_ok:
        rep.ok(rule, "%s:cells-inside-pages" % config, sample={"npcs": common.render(npcs), "pages": "pagesGet(%s)" % pages_var})
    else:
        rep.violation(rule, "%s:cells-inside-pages" % config, where,
                      "%s with the carving loop `%s`: the number of %s-byte cells cut from pagesGet(%s) is not floor(pages*PgSize/%s), so "
                      "the last cell can extend beyond the pages obtained (into the next heap page)"
                      % (why, common.render(lc), size, pages_var, size))


BTREE_MUTATORS = {"btreeDelete0", "btreeDelete", "btreeInsert", "btreeInsert0", "btreeInsertNonFull", "btreeSplitChild",
                  "btreeUnsplitChild", "btreeNUnsplitChild", "btreeRotateLeft", "btreeRotateRight", "btreeFreeNode"}


def check_btree_handles(rep, config):
    """btree.c (the mixed-size free-piece index): a node pointer found by a search is not dereferenced after a call that may
    restructure the tree it points into."""
    f = common.extract("btree.c", config, all_trees=True)
    nh = 0
    for name, fn in sorted(f.funcs.items()):
        if "body" not in fn or not fn.get("file", "").endswith("btree.c"):
            continue
        par = None
        # handles: locals assigned from btreeSearch*(...)
        for x in common.walk(fn["body"]):
            if x["k"] == "BinaryOperator" and x["op"] == "=":
                l, r = common.strip(x["c"][0]), common.strip(x["c"][1])
                if l is None or r is None or l["k"] != "DeclRefExpr" or r["k"] != "CallExpr" or not (r.get("callee") or "").startswith("btreeSearch"):
                    continue
                if par is None:
                    par = common.parents(fn["body"])
                # the statement list that contains the assignment
                ch, p = x, par.get(x["id"])
                while p is not None and p["k"] != "CompoundStmt":
                    ch, p = p, par.get(p["id"])
                if p is None:
                    continue
                nh += 1
                after = False
                mutated = None
                bad = None
                for st in p["c"]:
                    if st is None:
                        continue
                    if st["id"] == ch["id"]:
                        after = True
                        continue
                    if not after:
                        continue
                    for y in common.walk(st):
                        if y["k"] == "BinaryOperator" and y["op"] == "=" and common.strip(y["c"][0]) is not None \
                                and common.strip(y["c"][0]).get("did") == l.get("did"):
                            mutated = None if mutated is None else mutated     # re-assigned: a fresh handle
                            after = "reassigned"
                        if y["k"] == "MemberExpr" and y.get("arrow") and mutated is not None and after is True:
                            b = common.strip(y["c"][0])
                            if b is not None and b.get("did") == l.get("did"):
                                bad = (y["l"], mutated)
                    if after == "reassigned":
                        break
                    for c in common.calls(st):
                        if c.get("callee") in BTREE_MUTATORS and mutated is None:
                            mutated = (c["callee"], c["l"])
                    # dereferences later in the same statement as the mutator (after it in source order) are caught on the next statement
                key = "stale-node:%s:%s" % (name, l["n"])
                if bad is None:
                    rep.ok("T-btree", "%s:%s@%d" % (config, key, x["l"]))
                else:
                    rep.violation("T-btree", "%s:%s" % (config, key), "btree.c:%d (%s)[%s]" % (bad[0], name, config),
                                  "%s was found by %s at line %d, then %s (line %d) may move or merge the entries of that node, and "
                                  "%s-> is read afterwards: the entry read belongs to another key, so the free-piece index maps a size to "
                                  "the wrong list" % (l["n"], r["callee"], x["l"], bad[1][0], bad[1][1], l["n"]))
    rep.floor("node handles obtained from a search in btree.c [%s]" % config, nh, 2)


def check_sweep_marks(rep, config):
    """The sweep clears the mark bits of a piece (all its quanta) exactly when that piece was marked.  The decision is taken from
    the info byte of the piece's first quantum: the tag tested must have been loaded from sect->info[S] for the S at which the
    clearing starts.  (A piece merged into a freed neighbour keeps its marks otherwise, and the next collection takes the stale
    marks for reachability.)"""
    f = common.extract("store.c", config, trees=["stoGcSweepFixed", "stoGcSweepMixed"])
    n = 0
    for name in ("stoGcSweepFixed", "stoGcSweepMixed"):
        fn = f.func(name)
        par = common.parents(fn["body"])
        defs = {}
        for x in walk(fn["body"]):
            if x["k"] == "BinaryOperator" and x["op"] == "=" and (strip(x["c"][0]) or {}).get("k") == "DeclRefExpr":
                defs.setdefault(strip(x["c"][0])["n"], []).append(x["c"][1])
            if x["k"] == "DeclStmt":
                for d in x.get("decls", []):
                    if d.get("init") is not None:
                        defs.setdefault(d["n"], []).append(d["init"])

        def only_def(v):
            ds = defs.get(v, [])
            return ds[0] if len(ds) == 1 else None

        def info_index(e):
            """X if e is sect->info[X]"""
            e = strip(e)
            if e is None or e["k"] != "ArraySubscriptExpr":
                return None
            a = strip(e["c"][0])
            if a is None or a["k"] != "MemberExpr" or a["n"] != "info":
                return None
            return render(strip(e["c"][1]))
        for x in walk(fn["body"]):
            if x.get("mac") != "QmInfoClearMark" or x["k"] != "CompoundAssignOperator":
                continue
            tgt = [y for y in walk(x) if y["k"] == "ArraySubscriptExpr"]
            if not tgt:
                raise AnalysisBroken("%s: QmInfoClearMark target is not sect->info[...]" % name)
            idx = info_index(tgt[0])
            if idx is None:
                raise AnalysisBroken("%s: QmInfoClearMark target is not sect->info[...]" % name)
            n += 1
            # the guarding mark test, then the start of the cleared range
            test = None
            cur = x
            while cur["id"] in par and test is None:
                p_ = par[cur["id"]]
                if p_["k"] == "IfStmt" and p_["c"][1] is not None and any(y is cur for y in walk(p_["c"][1])):
                    c = strip(p_["c"][0])
                    if c is not None and c["k"] == "DeclRefExpr" and only_def(c["n"]) is not None:
                        c = strip(only_def(c["n"]))
                    if c is not None and any(y.get("mac") == "QmInfoMark" for y in walk(c)):
                        test = c
                cur = p_
            where = "store.c:%d (%s)" % (x["l"], name)
            if test is None:
                raise AnalysisBroken("%s: mark clearing at line %d is not under a QmInfoMark test" % (name, x["l"]))
            tags = [y["n"] for y in walk(test) if y["k"] == "DeclRefExpr" and not y["n"].startswith("Qm")]
            if len(tags) != 1 or only_def(tags[0]) is None:
                raise AnalysisBroken("%s: the tag tested at line %d is not a once-assigned local" % (name, test["l"]))
            tagdef = only_def(tags[0])
            src = info_index(tagdef)
            if src is None:
                raise AnalysisBroken("%s: '%s' is not loaded from sect->info[...]" % (name, tags[0]))
            start = idx
            cur = x
            while cur["id"] in par:
                p_ = par[cur["id"]]
                if p_["k"] == "ForStmt" and p_["c"][0] is not None and start == idx and not any(y is tagdef for y in walk(p_)):
                    i0 = strip(p_["c"][0])
                    if i0 is not None and i0["k"] == "BinaryOperator" and i0["op"] == "=" and render(strip(i0["c"][0])) == idx:
                        start = render(strip(i0["c"][1]))
                elif p_["k"] == "WhileStmt" and start == idx and not any(y is tagdef for y in walk(p_)):
                    # `qi = S; while (qi < E) { ...; qi++; }`: the start is the assignment just before the loop
                    pp = par.get(p_["id"])
                    if pp is not None and pp["k"] == "CompoundStmt":
                        sts_ = [y for y in pp["c"] if y is not None]
                        k_ = next(i for i, y in enumerate(sts_) if y is p_)
                        if k_ > 0:
                            prev = strip(sts_[k_ - 1])
                            if prev is not None and prev["k"] == "BinaryOperator" and prev["op"] == "=" and render(strip(prev["c"][0])) == idx:
                                start = render(strip(prev["c"][1]))
                cur = p_
            if start == idx and src != idx:
                raise AnalysisBroken("%s: the start of the range cleared at line %d could not be derived (the loop is neither "
                                     "`for (i = S; ..)` nor `i = S; while (..)`)" % (name, x["l"]))
            key = "sweep-mark:%s@%s:%d" % (name, start, n)
            if src == start:
                rep.ok("T-sweep", key)
            else:
                rep.violation("T-sweep", key, where,
                              "the marks of the quanta starting at %s are cleared when the tag of quantum %s ('%s') is marked: the "
                              "test looks at a different piece than the one whose marks it clears, so a merged piece keeps stale "
                              "marks (or a live piece loses them) and the next collection frees or retains the wrong storage"
                              % (start, src, tags[0]))
    rep.floor("mark-clearing sites in the sweep (%s)" % config, n, 4)


INT_MAX_OF = {"i8": 127, "schar": 127, "char": 127, "u8": 255, "i16": 32767, "u16": 65535, "i32": 2**31 - 1, "u32": 2**32 - 1,
              "i64": 2**63 - 1, "u64": 2**64 - 1}


def check_asserted_ranges(rep, config):
    """A value the storage manager asserts to be below a constant K and then keeps in a field must fit that field: the field's
    type has to hold K-1.  (A section's page count asserted < 65536 but kept in a signed short goes negative for objects over
    128 MiB; the sweep then walks the page map backwards.)"""
    f = common.extract("store.c", config, all_trees=True)
    n = 0
    for name, fn in sorted(f.funcs.items()):
        if "body" not in fn or not fn.get("file", "").endswith("store.c"):
            continue
        bounds = {}
        for x in walk(fn["body"]):
            if x.get("mac") == "assert" and x["k"] == "UnaryOperator" and x.get("op") == "!":
                c = strip(x["c"][0])
                if c is None or c["k"] != "BinaryOperator" or c["op"] not in ("<", "<="):
                    continue
                x = c
                k = common.const_value(x["c"][1])
                e = strip(x["c"][0])
                if k is not None and e is not None and e["k"] == "DeclRefExpr":
                    bounds[e["n"]] = k - 1 if x["op"] == "<" else k
        if not bounds:
            continue
        for x in walk(fn["body"]):
            if x["k"] != "BinaryOperator" or x["op"] != "=":
                continue
            l, r = strip(x["c"][0]), strip(x["c"][1])
            if l is None or r is None or l["k"] != "MemberExpr" or r["k"] != "DeclRefExpr" or r["n"] not in bounds:
                continue
            tc = l.get("tc")
            if tc not in INT_MAX_OF:
                continue
            n += 1
            key = "asserted-range-fits:%s:%s" % (name, l["n"])
            top = bounds[r["n"]]
            if INT_MAX_OF[tc] >= top:
                rep.ok("T-width", key, sample={"field": l["n"], "class": tc, "asserted maximum": top})
            else:
                rep.violation("T-width", key, "store.c:%d (%s)" % (x["l"], name),
                              "'%s' is asserted to be at most %d and stored in field '%s' of class %s (maximum %d): larger legal values "
                              "wrap, and every later use of the field (page stepping in the sweep, returning pages) works on a wrong "
                              "or negative count" % (r["n"], top, l["n"], tc, INT_MAX_OF[tc]))
    rep.floor("asserted values kept in integer fields (%s)" % config, n, 1)


def check_stale_across_collection(rep, config):
    """Allocation may collect: pagesGet, piecesGetFixed, pieceGetMixed, stoAllocInner, ... reach stoGc when the heap is full and
    collection is automatic, and the sweep rebuilds the allocator's free lists (fixedPieces[], fixedTail[], mxmemDLLs, pgMap,
    the heap bounds).  A local copy of one of those, taken before such a call and used after it, is the state from before the
    collection: linking new pieces in front of a stale list head drops every piece the sweep has just put on the list.
    Instances: every local of store.c assigned from an expression that reads one of the pointer-valued globals which the
    collector's call tree writes.  Rule (on the CFG): no path assignment -> call that may collect -> use of the local without
    a re-assignment in between.  (Functions of the collector itself are not instances.)"""
    f = common.extract("store.c", config, all_trees=True, all_cfg=True)
    funcs = {n: fn for n, fn in f.funcs.items() if "body" in fn and fn.get("file", "").endswith("store.c")}
    if "stoGc" not in funcs:
        raise AnalysisBroken("store.c: stoGc not found")
    cg = {n: set(c.get("callee") for c in calls(fn["body"]) if c.get("callee") in funcs) for n, fn in funcs.items()}
    may_collect = {"stoGc"}
    changed = True
    while changed:
        changed = False
        for n, cs in cg.items():
            if n not in may_collect and cs & may_collect:
                may_collect.add(n)
                changed = True
    from_gc, st = set(), ["stoGc"]
    while st:
        n = st.pop()
        if n not in from_gc:
            from_gc.add(n)
            st.extend(cg.get(n, ()))
    gl = set(f.vars)
    rebuilt = set()
    for n in from_gc:
        for x in walk(funcs[n]["body"]):
            if x["k"] in ("BinaryOperator", "CompoundAssignOperator") and x["op"].endswith("=") and x["op"] not in ("==", "!=", "<=", ">="):
                l = strip(x["c"][0])
                while l is not None and l["k"] == "ArraySubscriptExpr":
                    l = strip(l["c"][0])
                if l is not None and l["k"] == "DeclRefExpr" and l["n"] in gl:
                    t = f.vars[l["n"]].get("t") or ""
                    if "*" in t:
                        rebuilt.add(l["n"])
    if not {"fixedPieces"} <= rebuilt:
        raise AnalysisBroken("store.c [%s]: the sweep no longer rebuilds fixedPieces[] (%s): the stale-copy rule must be re-derived"
                             % (config, sorted(rebuilt)))
    n_inst = 0
    for name, fn in sorted(funcs.items()):
        if name.startswith("stoGc"):
            continue
        lhs_ids = set()
        cands = []
        for x in walk(fn["body"]):
            if x["k"] == "BinaryOperator" and x["op"] == "=":
                l = strip(x["c"][0])
                if l is not None and l["k"] == "DeclRefExpr":
                    lhs_ids.add(l["id"])
                    if l["n"] not in gl:
                        cands.append((l["n"], x["c"][1], x))
            elif x["k"] == "DeclStmt":
                for d in x.get("decls", []):
                    if d.get("init") is not None:
                        cands.append((d["n"], d["init"], d["init"]))
        cfg = None
        for v, rhs, node in cands:
            gs = sorted(set(y["n"] for y in walk(rhs) if y["k"] == "DeclRefExpr" and y["n"] in rebuilt))
            if not gs:
                continue
            # `p = g; ... p = call-that-may-collect();` : the value of a call is not a copy
            if any(y["k"] == "CallExpr" and y.get("callee") in may_collect for y in walk(rhs)):
                continue
            n_inst += 1
            if cfg is None:
                cfg = common.CFG(fn)
            ev = cfg.events(lambda e, node=node: e.get("id") == node["id"])
            if not ev and not cfg.events(lambda e: e["k"] == "CallExpr" and e.get("callee") in may_collect):
                rep.ok("T-stale", "no-stale-copy-across-collection:%s:%s:%s" % (name, v, config), nontrivial=False)
                continue               # nothing in this function can collect
            if not ev:
                raise AnalysisBroken("store.c [%s] %s: the copy `%s = %s` is not an element of the CFG" % (config, name, v, render(rhs)[:40]))
            b, i, _ = ev[0]

            def reassign(e, v=v):
                if e["k"] == "BinaryOperator" and e["op"] == "=":
                    l = strip(e["c"][0])
                    return l is not None and l["k"] == "DeclRefExpr" and l["n"] == v
                return False
            hit = None
            for cb, ci, cn in cfg.events(lambda e: e["k"] == "CallExpr" and e.get("callee") in may_collect):
                if cfg.path_avoiding(b, lambda e, cn=cn: e.get("id") == cn["id"], reassign, src_idx=i) is None:
                    continue
                if cfg.path_avoiding(cb, lambda e, v=v: e["k"] == "DeclRefExpr" and e["n"] == v and e.get("id") not in lhs_ids,
                                     reassign, src_idx=ci) is not None:
                    hit = cn
                    break
            key = "no-stale-copy-across-collection:%s:%s" % (name, v)
            if hit is None:
                rep.ok("T-stale", key + ":" + config, sample={"copy": "%s = %s" % (v, render(rhs)[:40])} if n_inst <= 2 else None)
            else:
                rep.violation("T-stale", key, "store.c:%d (%s) [%s]" % (node["l"], name, config),
                              "`%s` is read from %s before the call of %s (line %d), which can start a collection when the heap is "
                              "full, and is used after it: the sweep rebuilds %s, so the copy is the state from before the "
                              "collection (linking to a stale list head loses every piece the sweep has just reclaimed; the "
                              "allocator's audit fails and the storage is not reused)"
                              % (v, ", ".join(gs), hit.get("callee"), hit["l"], ", ".join(gs)))
    rep.floor("local copies of collector-rebuilt allocator state (%s)" % config, n_inst, 8)


def check_split_quantum(rep, config):
    """T-quantum: mixed-size pieces are made of whole quanta (MixedSizeQuantum bytes, one tag per quantum); mxmemSplit(piece, n)
    cuts after n bytes and writes the tail's header and tag there.  n must be a multiple of the quantum, otherwise the tail starts
    inside a quantum whose tag belongs to the live piece: that tag is overwritten with `free` and the free-piece index receives
    a piece of a size that is not a whole number of quanta.  For every call of mxmemSplit the size argument is
    ROUND_UP(..., MixedSizeQuantum) computed in the function, or a parameter every caller of which passes such a value (depth
    2)."""
    f = common.extract("store.c", config, all_trees=True)
    funcs = {n: fn for n, fn in f.funcs.items() if "body" in fn and fn.get("file", "").endswith("store.c")}
    q = None
    for nm, v in f.vars.items():
        pass
    macros = common.macro_defs("store.c", config)
    if "MixedSizeQuantum" not in macros:
        raise AnalysisBroken("store.c: MixedSizeQuantum is not a macro any more")

    def rounded(e, fn, depth=0):
        """is e a multiple of the quantum by construction?"""
        e = strip(e)
        if e is None or depth > 3:
            return False
        if any(m in ("ROUND_UP",) for m in (e.get("mac"), e.get("imac"))) and "MixedSizeQuantum" in common.render(e) or \
                (e.get("mac") == "ROUND_UP" and True):
            # the macro's second operand must be the quantum
            txt = [y for y in walk(e) if y.get("mac") == "MixedSizeQuantum" or y.get("imac") == "MixedSizeQuantum"]
            if txt:
                return True
        if e["k"] == "BinaryOperator" and e["op"] == "*":
            return any((y.get("mac") == "MixedSizeQuantum" or y.get("imac") == "MixedSizeQuantum") for y in walk(e))
        if e["k"] == "DeclRefExpr":
            params = [p_["n"] for p_ in fn.get("params", [])]
            if e["n"] in params and e["n"] not in _assigned(fn):
                idx = params.index(e["n"])
                callers = [(g, c) for g in funcs.values() for c in calls(g["body"], fn["n"])]
                return bool(callers) and all(len(c["c"]) > idx + 1 and rounded(c["c"][idx + 1], g, depth + 1) for g, c in callers)
            vals = _values(fn, e["n"])
            return bool(vals) and all(rounded(v, fn, depth + 1) for v in vals)
        return False

    def _assigned(fn):
        out = set()
        for x in walk(fn["body"]):
            if x["k"] in ("BinaryOperator", "CompoundAssignOperator") and x["op"].endswith("=") and x["op"] not in ("==", "!=", "<=", ">="):
                l = strip(x["c"][0])
                if l is not None and l["k"] == "DeclRefExpr":
                    out.add(l["n"])
        return out

    def _values(fn, name):
        vals = []
        for x in walk(fn["body"]):
            if x["k"] == "BinaryOperator" and x["op"] == "=" and (strip(x["c"][0]) or {}).get("n") == name:
                vals.append(x["c"][1])
            elif x["k"] == "DeclStmt":
                vals += [d["init"] for d in x.get("decls", []) if d["n"] == name and d.get("init") is not None]
        return vals
    n = 0
    for name, fn in sorted(funcs.items()):
        for c in calls(fn["body"], "mxmemSplit"):
            n += 1
            key = "split-at-quantum:%s@%d" % (name, sum(1 for o in calls(fn["body"], "mxmemSplit") if o["l"] <= c["l"]))
            where = "store.c:%d (%s) [%s]" % (c["l"], name, config)
            if rounded(c["c"][2], fn):
                rep.ok("T-quantum", key + ":" + config)
            else:
                rep.violation("T-quantum", key, where,
                              "mxmemSplit is given `%s`, which is not a multiple of MixedSizeQuantum by construction (not a "
                              "ROUND_UP(.., MixedSizeQuantum), nor a parameter that only receives such values): the tail piece starts "
                              "inside a quantum of the live piece, whose tag is overwritten, and a piece of a non-quantum size enters "
                              "the free-piece index (stoAudit fails; a later allocation from the tail rewrites the live block's code)"
                              % common.render(strip(c["c"][2]))[:50])
    rep.floor("calls of mxmemSplit (%s)" % config, n, 2)


def check_foreign_roots(rep, config):
    """Pages inside the heap that belong to the C library (PgForeign: whatever malloc or the program's own sbrk took between two
    heap extensions) may hold the only reference to a block of the store: the collector scans them as roots.  Every loop of
    stoGcMark that walks the page map and skips the pages that are *not* foreign must scan each foreign page whole: the range
    handed to stoGcMarkRange is [pgAt(i), pgAt(i) + PgSize) (or [pgAt(i), pgAt(i+1))), with i stepped by one.  A range that
    ends early leaves a page -- for a one-page run: the only page -- unscanned, and a block referenced only from there is swept
    while reachable.  Any other shape of that scan is refused (the end of a run of pages cannot be derived here)."""
    f = common.extract("store.c", config, all_trees=True)
    fn = f.func("stoGcMark")
    n = 0
    # the size of a page: the stride of the type pgAt() points to
    page = f.raw.get("typedefs", {}).get("Page") if isinstance(f.raw.get("typedefs"), dict) else None
    page_size = None
    for g in f.funcs.values():
        if "body" not in g or page_size is not None:
            continue
        for x in walk(g["body"]):
            if x.get("mac") == "PgSize" and const_value(x) is not None and x["k"] == "ParenExpr":
                page_size = const_value(x)
                break
    if page_size is None:
        raise AnalysisBroken("stoGcMark: the value of PgSize could not be read from the tree")
    for lp in walk(fn["body"]):
        if lp["k"] != "ForStmt":
            continue
        body = lp["c"][-1]
        # `if (pgMap[i] != PgForeign) continue;` or `if (pgMap[i] == PgForeign) { scan }`
        skips = [x for x in walk(body) if x["k"] == "IfStmt" and
                 any(y["k"] == "DeclRefExpr" and y["n"] == "PgForeign" for y in walk(x["c"][0])) and
                 (any(y["k"] == "ContinueStmt" for y in walk(x["c"][1])) or calls(x["c"][1], "stoGcMarkRange"))]
        inner = [x for x in walk(body) if x["k"] in ("ForStmt", "WhileStmt", "DoStmt")]
        if not skips:
            continue
        # only the innermost loop carrying the skip
        if any(any(y is skips[0] for y in walk(i_)) for i_ in inner):
            continue
        n += 1
        where = "store.c:%d (stoGcMark)" % lp["l"]
        key = "foreign-page-scanned-whole@%d:%s" % (n, config)
        cond = strip(skips[0]["c"][0])
        idx = None
        for y in walk(cond):
            if y["k"] == "ArraySubscriptExpr" and (strip(y["c"][0]) or {}).get("n") == "pgMap":
                i_ = strip(y["c"][1])
                if i_ is not None and i_["k"] == "DeclRefExpr":
                    idx = i_["n"]
        if idx is None or inner:
            raise AnalysisBroken("%s: the scan of foreign pages is no longer `for (i..) { if (pgMap[i] != PgForeign) continue; "
                                 "scan page i }` (an inner loop or another index): whether every foreign page is scanned whole has "
                                 "to be re-derived by hand" % where)
        writes = [x for x in walk(body) if (x["k"] in ("BinaryOperator", "CompoundAssignOperator") and x["op"].endswith("=") and
                                            x["op"] not in ("==", "!=", "<=", ">=") and (strip(x["c"][0]) or {}).get("n") == idx) or
                  (x["k"] == "UnaryOperator" and x["op"] in ("++", "--", "post++", "post--") and (strip(x["c"][0]) or {}).get("n") == idx)]
        if writes:
            raise AnalysisBroken("%s: the page index is changed inside the scan loop" % where)
        marks = calls(body, "stoGcMarkRange")
        if len(marks) != 1:
            raise AnalysisBroken("%s: expected one stoGcMarkRange per foreign page, found %d" % (where, len(marks)))
        lo, hi = strip(marks[0]["c"][1]), strip(marks[0]["c"][2])
        # a local assigned once in the loop body stands for its value
        once = {}
        for x in walk(body):
            if x["k"] == "BinaryOperator" and x["op"] == "=" and (strip(x["c"][0]) or {}).get("k") == "DeclRefExpr":
                once.setdefault(strip(x["c"][0])["n"], []).append(x["c"][1])
            elif x["k"] == "DeclStmt":
                for d in x.get("decls", []):
                    if d.get("init") is not None:
                        once.setdefault(d["n"], []).append(d["init"])
        if hi is not None and hi["k"] == "DeclRefExpr" and len(once.get(hi["n"], [])) == 1 and \
                any(y["k"] == "BinaryOperator" and y["op"] == "+" for y in walk(once[hi["n"]][0])):
            hi = strip(once[hi["n"]][0])
        # p = (char *) pgAt(i)
        pvar = None
        for x in walk(body):
            if x["k"] == "BinaryOperator" and x["op"] == "=" and (strip(x["c"][0]) or {}).get("k") == "DeclRefExpr":
                r = x["c"][1]
                if any((y.get("mac") == "pgAt") for y in walk(r)) and any(y["k"] == "DeclRefExpr" and y["n"] == idx for y in walk(r)) \
                        and not any(y["k"] == "BinaryOperator" and y["op"] in ("+", "-") and y.get("mac") != "pgAt" and
                                    any(z["k"] == "DeclRefExpr" and z["n"] == idx for z in walk(y)) for y in walk(r)):
                    pvar = strip(x["c"][0])["n"]
        lo_ok = lo is not None and ((lo["k"] == "DeclRefExpr" and lo["n"] == pvar) or (lo.get("mac") == "pgAt"))
        hi_ok = False
        if hi is not None and hi["k"] == "BinaryOperator" and hi["op"] == "+":
            a, b = strip(hi["c"][0]), strip(hi["c"][1])
            if a is not None and a["k"] == "DeclRefExpr" and a["n"] == pvar and const_value(b) == page_size:
                hi_ok = True
        if lo_ok and hi_ok:
            rep.ok("T-roots", key, sample={"index": idx, "page pointer": pvar})
        elif lo_ok and hi is not None and hi["k"] == "BinaryOperator" and hi["op"] == "+" and (strip(hi["c"][0]) or {}).get("n") == pvar:
            rep.violation("T-roots", "foreign-page-scanned-whole", where,
                          "the range scanned for foreign page %s ends at `%s`, not at the end of the page: the rest of the page is "
                          "not looked at, and a block referenced only from there is freed while reachable" % (idx, render(hi)[:40]))
        else:
            raise AnalysisBroken("%s: the range handed to stoGcMarkRange for a foreign page is not [page, page + PgSize) (`%s` .. `%s`): "
                                 "whether every foreign page is scanned whole has to be re-derived by hand"
                                 % (where, render(lo)[:40] if lo else "?", render(hi)[:40] if hi else "?"))
    rep.floor("scans of foreign pages in stoGcMark (%s)" % config, n, 1)


def run(tier):
    rep = common.Report("C10", tier, EXPLANATION)
    for config in ("compiler", "runtime"):
        check_config(rep, config)
        check_lookup_init(rep, config)
        check_section_sizing(rep, config)
        check_carving(rep, config)
        check_btree_handles(rep, config)
        check_sweep_marks(rep, config)
        check_asserted_ranges(rep, config)
        check_stale_across_collection(rep, config)
        check_split_quantum(rep, config)
        check_foreign_roots(rep, config)
    from . import c20_containers
    c20_containers.v16(rep, rule="T-slide")        # the free-piece index is this B-tree
    c20_containers.v11(rep, rule="T-branch-run")
    rep.floor("C10 table obligations", rep.obligations, 60)
    rep.assumptions.append("allocation, free, resize and collection histories are not analysed")
    return rep
