"""C10 (thin): the size-class tables of store.c are well formed.

Decides only the table clause: the lookup "request size -> size class" returns
a class at least as large as the request, suitably aligned, and the
division-by-shift / division-by-lookup encoding in fixedSizeLog matches the
class sizes.  Allocation histories are NOT decided.
"""
import os
from . import common
from .common import AnalysisBroken

EXPLANATION = (
    "C10-T: from the constant-evaluated initialisers of store.c (both the compiler and the -DFOAM_RTS configuration): "
    "fixedSize[] strictly increasing, every entry a non-zero multiple of sizeof(Pointer) and alignof(MostAlignedType), "
    "last entry == FixedSizeMax == MixedSizeQuantum, FixedSizeMax < PgSize; fixedSizeLog[] has FixedSizeCount entries; "
    "entry k>=0 at i means sizeof(Pointer)<<k == fixedSize[i] (division by shift), entry k<0 selects row -(k+1) of "
    "stoDivTable (rows distinct and inside the table, columns >= PgSize, quotient fits the element type); the lookup arrays "
    "fixedSizeFor/fixedSizeIndexFor have FixedSizeMax+1 entries and element types wide enough for the values stored. "
    "Behaviour over allocation histories is not decided.")


def array_values(var):
    init = var.get("init")
    if init is None or init["k"] != "InitListExpr":
        raise AnalysisBroken("%s has no initialiser list" % var["n"])
    vals = []
    for e in init["c"]:
        v = common.const_value(e)
        if v is None:
            raise AnalysisBroken("%s: element at line %d is not a constant" % (var["n"], e["l"]))
        vals.append((v, e["l"]))
    return vals


def check_config(rep, config):
    probe = os.path.join(common.VERIF, "witness", "store_probe.c")
    facts = common.extract(probe, config)
    P = facts.enum_values("verif_store_probe")
    fs = array_values(facts.var("fixedSize"))
    fl = array_values(facts.var("fixedSizeLog"))
    where = "store.c[%s]" % config
    rep.analysed_count("tables", 2)
    rep.analysed_count("table entries", len(fs) + len(fl))
    ptr = P["VP_sizeofPointer"]
    align = P["VP_alignofMost"]

    def ob(rule, inst, cond, msg, line=None, sample=None):
        w = "%s:%s" % (where, line) if line else where
        if cond:
            rep.ok(rule, "%s:%s" % (config, inst), sample=sample)
        else:
            rep.violation(rule, "%s:%s" % (config, inst), w, msg)

    if len(fs) < 4:
        raise AnalysisBroken("fixedSize has only %d entries" % len(fs))
    for i, (v, line) in enumerate(fs):
        ob("T-align", "fixedSize[%d]" % i, v > 0 and v % ptr == 0 and v % align == 0,
           "fixedSize[%d]=%d is not a positive multiple of sizeof(Pointer)=%d and alignof(MostAlignedType)=%d" % (i, v, ptr, align),
           line, sample={"value": v})
        if i > 0:
            ob("T-monotone", "fixedSize[%d]" % i, v > fs[i - 1][0],
               "fixedSize[%d]=%d is not greater than fixedSize[%d]=%d: the class lookup built by stoInit would hand out a "
               "smaller block than requested" % (i, v, i - 1, fs[i - 1][0]), line)
    ob("T-max", "last", fs[-1][0] == P["VP_FixedSizeMax"],
       "last fixedSize entry %d != FixedSizeMax %d" % (fs[-1][0], P["VP_FixedSizeMax"]), fs[-1][1])
    ob("T-max", "quantum", P["VP_MixedSizeQuantum"] % align == 0 and P["VP_MixedSizeQuantum"] >= P["VP_FixedSizeMax"],
       "MixedSizeQuantum %d not aligned or smaller than FixedSizeMax" % P["VP_MixedSizeQuantum"])
    ob("T-max", "page", P["VP_FixedSizeMax"] < P["VP_PgSize"], "FixedSizeMax %d >= PgSize %d" % (P["VP_FixedSizeMax"], P["VP_PgSize"]))
    ob("T-len", "fixedSizeLog", len(fl) == len(fs) == P["VP_FixedSizeCount"] == P["VP_fixedSizeLogLen"],
       "fixedSizeLog has %d entries, fixedSize has %d" % (len(fl), len(fs)))
    ob("T-len", "fixedSizeFor", P["VP_fixedSizeForLen"] >= fs[-1][0] + 1 and P["VP_fixedSizeIndexForLen"] >= fs[-1][0] + 1,
       "lookup arrays have %d/%d entries but sizes go up to %d" % (P["VP_fixedSizeForLen"], P["VP_fixedSizeIndexForLen"], fs[-1][0]))
    ob("T-len", "fixedSizeFor-elt", fs[-1][0] <= P["VP_fixedSizeForEltMax"] and len(fs) - 1 <= P["VP_fixedSizeIndexForEltMax"],
       "lookup array element type too narrow for the values stored")
    rows = []
    for i, (k, line) in enumerate(fl[: len(fs)]):
        size = fs[i][0]
        if k >= 0:
            ob("T-log", "fixedSizeLog[%d]" % i, (ptr << k) == size,
               "fixedSizeLog[%d]=%d says size %d, fixedSize[%d]=%d: piece numbers would be computed by a wrong shift" % (
                   i, k, ptr << k, i, size), line, sample={"log": k, "size": size})
        else:
            row = -(k + 1)
            ob("T-div", "fixedSizeLog[%d]" % i, 0 <= row < P["VP_stoDivTableRows"] and row not in rows,
               "fixedSizeLog[%d]=%d selects division-table row %d which is outside the table (%d rows) or already used" % (
                   i, k, row, P["VP_stoDivTableRows"]), line, sample={"row": row, "size": size})
            rows.append(row)
    ob("T-div", "cols", P["VP_stoDivTableCols"] >= P["VP_PgSize"], "stoDivTable has fewer columns than PgSize")
    ob("T-div", "elt", P["VP_PgSize"] // fs[0][0] <= P["VP_stoDivTableEltMax"], "stoDivTable element type too narrow")


def run(tier):
    rep = common.Report("C10", tier, EXPLANATION)
    for config in ("compiler", "runtime"):
        check_config(rep, config)
    rep.floor("C10 table obligations", rep.obligations, 60)
    rep.assumptions.append("allocation, free, resize and collection histories are not analysed")
    return rep
