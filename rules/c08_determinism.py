"""C08 (partial): compiler output is a function of its input - no address- or
environment-derived value reaches an order or an output.

D1  every iteration over a hash table happens at a frozen site whose table is
    content- or integer-keyed, or whose body is order-insensitive; the hash
    function given when such a table is created stays what was confirmed;
D2  the comparators handed to the sort routine (and their callees to depth 2)
    never order by address;
D3  clock, random, process-id and environment sources are called directly only
    from a frozen, justified set of functions.
"""
import json
import os

from . import common
from .common import AnalysisBroken, strip, walk, calls, render, const_value

EXPLANATION_D4 = (
    " D4 (state carried across the files of one invocation): every file-scope or function-static integer variable of the compiler "
    "that is incremented somewhere, never decremented and never assigned (so it can never return to its initial value between two "
    "files) must be listed in frozen/c08_batch_counters.json with the reason its value cannot reach an output file or a message "
    "(debug trace numbering, statistics, run-time library); any other such counter is a violation. Does not find state carried in "
    "tables, lists or flags.")

EXPLANATION = (
    "D1: instances are all calls of _tblITER (expansion of tblITER), tblPrint, tblColumnPrint, tblRemoveIf and tblNMap outside "
    "table.c. For each, the tblNew sites that create the iterated table are located (same function for locals, same unit "
    "for globals and fields) and their hash function is classified from its body: address-based if it is the default "
    "pointer hash or if it, or a callee to depth 2, converts a pointer to an integer (symHash, ptrCanon, ptrToLong); "
    "content-based otherwise. Iteration over a content-hashed table is accepted; iteration over an address-hashed or "
    "unresolvable table must be listed in frozen/c08_table_iterations.json with the reason its order cannot leak (integer "
    "keys, order-insensitive body, debug printing). D2: for every call of lisort the comparator (resolved "
    "function argument) and its callees to depth 2 contain no relational operator or subtraction on pointer operands and no "
    "pointer-to-integer conversion. D3: the direct callers of time, clock, gettimeofday, times, rand, srand, random, getpid, "
    "tmpnam, mkstemp, getenv and the wrappers osGetEnv, osDate, osCpuTime, osRandom are exactly the frozen set "
    "(frozen/c08_ambient_callers.json, one reason each: statistics timers, collector tuning, search paths and external "
    "compiler configuration that are documented inputs, terminal colours, temp-file names, facilities offered to interpreted "
    "programs). Not decided: byte equality of outputs; uninitialised-memory leakage into objects.")

FROZEN = os.path.join(os.path.dirname(__file__), "frozen")
ITER = {"_tblITER": 2, "tblPrint": 2, "tblColumnPrint": 2, "tblRemoveIf": 1, "tblNMap": 2}
AMBIENT = {"time", "clock", "gettimeofday", "times", "rand", "srand", "random", "srandom", "getpid", "tmpnam", "mkstemp",
           "getenv", "osGetEnv", "osDate", "osCpuTime", "osRandom", "localtime", "ctime", "gmtime", "getrusage",
           # where the process runs and who runs it: the working directory, links on the way to it, host and user
           "getcwd", "getwd", "get_current_dir_name", "realpath", "canonicalize_file_name", "readlink", "gethostname", "uname",
           "getuid", "geteuid", "getlogin", "cuserid", "ttyname",
           # the repository's own way to ask where the process runs (fills a buffer with the working directory)
           "osDirSwap"}


EXPLANATION = EXPLANATION + EXPLANATION_D4


def tname(n):
    s = strip(n)
    if s is None:
        return "?"
    if s["k"] == "DeclRefExpr":
        return s["n"]
    if s["k"] == "MemberExpr":
        return "." + s["n"] if not s.get("arrow") else "->" + s["n"]
    return render(s)


def digest(f):
    out = {"iters": [], "news": [], "ambient": [], "sorts": [], "funcs": {}, "gwrites": {}, "sets": []}
    for name, fn in f.funcs.items():
        if "body" not in fn:
            continue
        own = not fn["file"].endswith(".h")
        # function summaries for D2 (pointer ordering)
        ptrord = []
        callees = set()
        for x in walk(fn["body"]):
            if x["k"] == "BinaryOperator" and x["op"] in ("<", "<=", ">", ">=", "-"):
                a, b = x["c"]
                if a.get("tc") == "ptr" and b.get("tc") == "ptr":
                    ptrord.append((x["l"], render(x)[:60]))
            if x["k"] in ("CStyleCastExpr", "ImplicitCastExpr") and x.get("ck") == "PointerToIntegral":
                ptrord.append((x["l"], "(integer) " + render(x["c"][0])[:50]))
            if x["k"] == "CallExpr" and x.get("callee"):
                callees.add(x["callee"])
        out["funcs"][name] = {"ptrord": ptrord, "callees": sorted(callees)}
        if not own:
            continue
        # D4 facts: writes to file-scope / function-static integer variables
        for x in walk(fn["body"]):
            tgt = kind = None
            if x["k"] == "UnaryOperator" and x["op"] in ("++", "post++", "pre++"):
                tgt, kind = strip(x["c"][0]), "inc"
            elif x["k"] == "UnaryOperator" and x["op"] in ("--", "post--", "pre--"):
                tgt, kind = strip(x["c"][0]), "dec"
            elif x["k"] == "CompoundAssignOperator":
                tgt, kind = strip(x["c"][0]), {"+=": "inc", "-=": "dec"}.get(x["op"], "set")
            elif x["k"] == "BinaryOperator" and x["op"] == "=":
                tgt, kind = strip(x["c"][0]), "set"
            if tgt is not None and tgt["k"] == "DeclRefExpr" and tgt.get("g") and tgt.get("dk") == "var" \
                    and tgt.get("tc") in ("i32", "u32", "i64", "u64", "i16", "u16", "i8", "u8"):
                out["gwrites"].setdefault(tgt["n"], []).append((f.unit, name, kind, x["l"]))
        par = None
        for c in calls(fn["body"]):
            cal = c.get("callee")
            if cal in ITER and f.unit not in ("table.c",):
                idx = ITER[cal]
                if len(c["c"]) > idx:
                    out["iters"].append((f.unit, name, cal, tname(c["c"][idx]), c["l"]))
            if cal == "tblNew" and len(c["c"]) >= 3:
                if par is None:
                    par = common.parents(fn["body"])
                p = par.get(c["id"])
                while p is not None and p["k"] in ("ParenExpr", "ImplicitCastExpr", "CStyleCastExpr"):
                    p = par.get(p["id"])
                target = None
                if p is not None and p["k"] == "BinaryOperator" and p["op"] == "=":
                    target = tname(p["c"][0])
                elif p is not None and p["k"] == "DeclStmt":
                    for dd in p.get("decls", []):
                        if dd.get("init") is not None and any(y["id"] == c["id"] for y in walk(dd["init"])):
                            target = dd["n"]
                h = strip(c["c"][1])
                hname = h["n"] if h is not None and h["k"] == "DeclRefExpr" else ("NULL" if common.const_value(c["c"][1]) == 0 else render(h))
                out["news"].append((f.unit, name, target, hname, c["l"]))
            if cal == "tblSetElt" and len(c["c"]) >= 4:
                k = c["c"][2]
                while k is not None and k["k"] in ("ParenExpr", "ImplicitCastExpr", "CStyleCastExpr"):
                    k = k["c"][0]
                out["sets"].append((f.unit, name, tname(c["c"][1]), (k or {}).get("tc"), render(c["c"][2])[:50], c["l"]))
            if cal == "emitSetFileIdName":
                out.setdefault("idsets", []).append((f.unit, name, c["l"]))
            if cal in AMBIENT and name not in AMBIENT:
                out["ambient"].append((f.unit, name, cal, c["l"]))
            if cal in ("lisort", "qsort") and len(c["c"]) >= 5:          # both take (base, n, size, comparator)
                cmpf = strip(c["c"][4])
                out["sorts"].append((f.unit, name, cmpf["n"] if cmpf is not None and cmpf["k"] == "DeclRefExpr" else None, c["l"]))
    return out


def d9(rep):
    """The C file may be written under a temporary name (a stale object file in the way: `cr<pid in base 36>00.c`) and moved to
    its requested name afterwards; what is written *into* it must not know that name.  emitTheC starts the file with
    `#line 1 "<name>.as"`: the name is the source file's, which is the same in every run, not the output file's, which carries
    the process id.  Every `#line` text printed by emit.c takes its file name from the source file name (emitSrcFile)."""
    f = common.extract("emit.c", all_trees=True)
    n = 0
    for name, fn in sorted(f.funcs.items()):
        if "body" not in fn or not fn.get("file", "").endswith("emit.c"):
            continue
        src_vars = set()
        for x in walk(fn["body"]):
            if x["k"] == "BinaryOperator" and x["op"] == "=" and (strip(x["c"][0]) or {}).get("k") == "DeclRefExpr":
                if any(y["k"] == "CallExpr" and y.get("callee") == "emitSrcFile" for y in walk(x["c"][1])) or \
                        any((y.get("mac") or "") == "emitSrcFile" for y in walk(x["c"][1])):
                    src_vars.add(strip(x["c"][0])["n"])
            elif x["k"] == "DeclStmt":
                for d in x.get("decls", []):
                    if d.get("init") is not None and any((y["k"] == "CallExpr" and y.get("callee") == "emitSrcFile") or
                                                         (y.get("mac") or "") == "emitSrcFile" for y in walk(d["init"])):
                        src_vars.add(d["n"])
        for c in calls(fn["body"]):
            fmts = [a for a in c["c"][1:] if (common.string_value(a) or "").find("#line") >= 0 and "%s" in (common.string_value(a) or "")]
            if not fmts:
                continue
            n += 1
            names = set(y["n"] for a in c["c"][1:] for y in walk(a) if y["k"] == "DeclRefExpr" and y.get("dk") in ("var", "parm"))
            names -= set(["fout", "hout"])
            key = "line-directive-names-the-source:%s" % name
            if names and names <= src_vars:
                rep.ok("D9", key, sample={"from": sorted(names)})
            else:
                rep.violation("D9", key, "emit.c:%d (%s)" % (c["l"], name),
                              "the file name of the `#line` written at the head of the C file comes from `%s`, the name the C file "
                              "is being written under: with a stale object file in the way that is a temporary name made from the "
                              "process id (`cr07A700`), so the kept .c differs from run to run (and names a source file that does "
                              "not exist)" % ", ".join(sorted(names - src_vars)))
    rep.floor("#line directives written by emit.c", n, 1)


def d10(rep):
    """The properties given with -D are state of the invocation; each source file of a command line starts from them and may
    change them for itself (#assert, #unassert -- aldor.as itself unasserts one).  includeFile therefore hands the includer a
    *copy* of the invocation's list.  Handing it the list itself `because #assert only pushes in front` lets the destructive
    #unassert of one file edit what the next file starts from: the second file's `#if` takes another branch when it is compiled
    after a file that unasserted the property than when it is compiled alone.  In includeFile the per-file list is assigned
    the result of a copying call, never the invocation's list itself.  (includeLine, the interactive reader, shares on
    purpose: a session is one continuing file.)"""
    f = common.extract("include.c", trees=["includeFile"])
    fn = f.func("includeFile")
    ws = [x for x in walk(fn["body"]) if x["k"] == "BinaryOperator" and x["op"] == "=" and (strip(x["c"][0]) or {}).get("n") == "localAssertList"]
    if not ws:
        raise AnalysisBroken("includeFile no longer sets localAssertList")
    for x in ws:
        r = strip(x["c"][1])
        key = "per-file-state-starts-from-a-copy:localAssertList"
        copies = r is not None and r["k"] == "CallExpr" and any(y["k"] == "DeclRefExpr" and y["n"] == "globalAssertList" for a in r["c"][1:] for y in walk(a))
        if copies:
            rep.ok("D10", key)
        elif r is not None and any(y["k"] == "DeclRefExpr" and y["n"] == "globalAssertList" for y in walk(r)):
            rep.violation("D10", key, "include.c:%d (includeFile)" % x["l"],
                          "the per-file list of asserted properties is the invocation's list itself, not a copy: `#unassert P` in "
                          "one source file (or in a file it includes) removes the cell from the list every later file of the same "
                          "command line starts from, so `aldor -DP a.as b.as` compiles b.as differently from `aldor -DP b.as`")
        else:
            rep.ok("D10", key, nontrivial=False)


def d5(rep):
    """The object-file header is built in memory by libNewHeader and written field by field by libPutHeader.  The store the Lib
    lives in is not cleared, so every field the writer emits, for every index it emits, must have been assigned by the
    initialiser; otherwise the bytes of the .ao depend on what the allocator handed out."""
    f = common.extract("lib.c", trees=["libNewHeader", "libPutHeader"])

    def table_fields(fn, writes):
        """{(array field, element field or None): (lo, hi)} for accesses inside `for (i = lo; i < hi; ...)` loops."""
        out = {}
        for x in walk(fn["body"]):
            if x["k"] != "ForStmt" or len(x["c"]) < 4:
                continue
            init, cond = x["c"][0], x["c"][1]
            if init is None or cond is None or init["k"] != "BinaryOperator" or cond["k"] != "BinaryOperator" or cond["op"] != "<":
                raise AnalysisBroken("%s: loop shape not recognised" % fn["n"])
            lo, hi = const_value(init["c"][1]), const_value(cond["c"][1])
            var = (strip(init["c"][0]) or {}).get("n")
            if lo is None or hi is None or var is None:
                raise AnalysisBroken("%s: loop bounds are not constants" % fn["n"])
            body = x["c"][3]
            nodes = []
            if writes:
                for y in walk(body):
                    if y["k"] == "BinaryOperator" and y["op"] == "=":
                        nodes.append(strip(y["c"][0]))
            else:
                nodes = [y for y in walk(body) if y["k"] in ("MemberExpr", "ArraySubscriptExpr")]
            for y in nodes:
                if y is None:
                    continue
                elem = None
                if y["k"] == "MemberExpr":
                    inner = strip(y["c"][0])
                    if inner is not None and inner["k"] == "ArraySubscriptExpr":
                        elem, y = y["n"], inner
                if y["k"] != "ArraySubscriptExpr":
                    continue
                arr, idx = strip(y["c"][0]), strip(y["c"][1])
                if arr is None or arr["k"] != "MemberExpr" or idx is None or idx.get("n") != var:
                    continue
                if not writes and elem is None and arr["n"] == "Section":
                    continue            # the bare subscript under a member access
                k = (arr["n"], elem)
                a, b = out.get(k, (lo, hi))
                out[k] = (min(a, lo), max(b, hi))
        return out
    bulk = [c.get("callee") for c in calls(f.func("libNewHeader")["body"]) if c.get("callee") in ("memset", "bzero", "memcpy", "stoClear")]
    if bulk:
        raise AnalysisBroken("libNewHeader now initialises with %s: field-by-field coverage does not apply" % bulk[0])
    init = table_fields(f.func("libNewHeader"), True)
    put = table_fields(f.func("libPutHeader"), False)
    if len(put) < 3:
        raise AnalysisBroken("libPutHeader: the per-section fields it writes were not recognised (%s)" % sorted(put))
    where = "lib.c:%d (libNewHeader)" % f.func("libNewHeader")["l"]
    for k in sorted(put, key=str):
        key = "header-field-initialised:%s%s" % (k[0], "." + k[1] if k[1] else "")
        lo, hi = put[k]
        if k not in init:
            rep.violation("D5", key, where, "libPutHeader writes %s[i]%s for i in [%d,%d) but libNewHeader never assigns it: the header "
                          "bytes of sections that are not used are whatever the allocator returned, so two compilations of one "
                          "source can differ" % (k[0], "." + k[1] if k[1] else "", lo, hi))
        elif init[k][0] > lo or init[k][1] < hi:
            rep.violation("D5", key, where, "libPutHeader writes %s for i in [%d,%d) but libNewHeader initialises only [%d,%d)"
                          % (key.split(":")[1], lo, hi, init[k][0], init[k][1]))
        else:
            rep.ok("D5", key)
    # scalar header fields
    def scalars(fn, writes):
        out = set()
        for y in walk(fn["body"]):
            if writes and not (y["k"] == "BinaryOperator" and y["op"] == "="):
                continue
            t = strip(y["c"][0]) if writes else y
            if t is not None and t["k"] == "MemberExpr" and (strip(t["c"][0]) or {}).get("n") == "hdr" and t["n"] not in ("Section", "Index"):
                out.add(t["n"])
        return out
    si, sp = scalars(f.func("libNewHeader"), True), scalars(f.func("libPutHeader"), False)
    if len(sp) < 4:
        raise AnalysisBroken("libPutHeader: scalar header fields not recognised (%s)" % sorted(sp))
    for fld in sorted(sp):
        key = "header-field-initialised:" + fld
        if fld in si:
            rep.ok("D5", key)
        else:
            rep.violation("D5", key, where, "libPutHeader writes hdr.%s but libNewHeader does not assign it" % fld)


def d6(rep, dig):
    """emitSetFileIdName sets the unit id for the whole invocation (-Wname).  Only the command-line parser may call it: a phase that
    sets it while compiling one file (restoring the id of a saved unit) changes the names generated for every later file of the
    same command, so `aldor a.ao b.as` and `aldor b.as` write different b.c."""
    n = 0
    sites = []
    for u in sorted(dig):
        for unit, func, line in dig[u].get("idsets", []):
            sites.append((unit, func, line))
    for unit, func, line in sites:
        n += 1
        key = "invocation-wide-id-set:%s:%s" % (unit, func)
        if unit == "cmdline.c":
            rep.ok("D6", key)
        else:
            rep.violation("D6", key, "%s:%d (%s)" % (unit, line, func),
                          "emitSetFileIdName (the invocation-wide unit id behind -Wname) is called while a file is being compiled: the id "
                          "stays in force for the files that follow on the command line, whose generated names then depend on what "
                          "was compiled before them")
    rep.floor("callers of emitSetFileIdName", n, 1)



# --------------------------------------------------------------------------
# D7: write-once function-static memo of a value that depends on the function's arguments
# --------------------------------------------------------------------------
def memo_digest(f):
    base=f.unit.split("/")[-1]; out=[]
    for name,fn in f.funcs.items():
        if "body" not in fn or not fn.get("file","").endswith(base): continue
        statics={}
        for x in walk(fn["body"]):
            if x["k"]=="DeclStmt":
                for d in x.get("decls",[]):
                    if d.get("static") and "const" not in (d.get("t") or ""): statics[d["n"]]=d
        if not statics: continue
        params=set(p["n"] for p in fn.get("params",[]))
        # locals derived from params
        derived=set(params)
        grew=True
        while grew:
            grew=False
            for x in walk(fn["body"]):
                tgt=None; rhs=None
                if x["k"]=="BinaryOperator" and x["op"]=="=":
                    l=strip(x["c"][0])
                    if l is not None and l["k"]=="DeclRefExpr": tgt,rhs=l["n"],x["c"][1]
                elif x["k"]=="DeclStmt":
                    for d in x.get("decls",[]):
                        if d.get("init") is not None and not d.get("static") and d["n"] not in derived and any(y["k"]=="DeclRefExpr" and y["n"] in derived for y in walk(d["init"])):
                            derived.add(d["n"]); grew=True
                if tgt and tgt not in derived and tgt not in statics and any(y["k"]=="DeclRefExpr" and y["n"] in derived for y in walk(rhs)):
                    derived.add(tgt); grew=True
        par=common.parents(fn["body"])
        for x in walk(fn["body"]):
            if x["k"]=="BinaryOperator" and x["op"]=="=":
                l=strip(x["c"][0])
                if l is not None and l["k"]=="DeclRefExpr" and l["n"] in statics:
                    dep=[y["n"] for y in walk(x["c"][1]) if y["k"]=="DeclRefExpr" and y["n"] in derived]
                    # guarded by test that static unset?
                    cur=x; guard=False
                    while cur["id"] in par:
                        p_=par[cur["id"]]
                        if p_["k"]=="IfStmt" and any(y is cur for y in walk(p_["c"][1])):
                            if any(y["k"]=="DeclRefExpr" and y["n"]==l["n"] for y in walk(p_["c"][0])): guard=True
                        cur=p_
                    out.append((name,x["l"],l["n"],sorted(set(dep)),guard,render(x["c"][1])[:50]))
    return out


MEMO_FROZEN = {
    ("cmdline.c", "cmdOneResponse", "firstArgv"): "remembers the process's original argv so that only vectors allocated for response "
                                                  "files are freed: invocation-wide by nature, one command line per process",
}


def d7(rep):
    """A function-local `static` that is assigned, under a test that it is still unset, a value computed from the function's
    parameters keeps the FIRST call's answer for the rest of the invocation.  When the parameters describe the file being
    compiled (an EmitInfo, a file name, a unit), the second file of `aldor a.as b.as` gets the first file's value: its outputs
    differ from `aldor b.as`.  Every such memo in the compiler is an instance; the confirmed invocation-wide ones are frozen with
    the reason, any other is a violation."""
    dig = common.map_units(common.compiler_units(), memo_digest, "compiler", all_trees=True)
    n = 0
    seen = set()
    for u in sorted(dig):
        base = u.split("/")[-1]
        for fn, line, var, dep, guard, rhs in dig[u]:
            if not dep or not guard:
                continue
            n += 1
            key = "static-memo:%s:%s:%s" % (base, fn, var)
            if (base, fn, var) in MEMO_FROZEN:
                seen.add((base, fn, var))
                rep.ok("D7", key, sample={"frozen": MEMO_FROZEN[(base, fn, var)]})
            else:
                rep.violation("D7", key, "%s:%d (%s)" % (base, line, fn),
                              "the function-static `%s` is set once (only while unset) from `%s`, which depends on the arguments %s: "
                              "every later call, for whichever file is then being compiled, gets the value computed for the first; "
                              "with two sources in one invocation the second one's outputs carry the first one's value"
                              % (var, rhs, ", ".join(dep)))
    for k in MEMO_FROZEN:
        if k not in seen:
            rep.note("D7: frozen memo %s no longer exists" % (k,))
    rep.floor("write-once static memos of argument-derived values", n, 1)


# --------------------------------------------------------------------------
# D8: set-once flags in the per-file output generators
# --------------------------------------------------------------------------
def latch_digest(f):
    base=f.unit.split("/")[-1]
    writes={}
    decl={}
    for n,v in f.vars.items():
        if v.get("file","").endswith(base) and (v.get("static") or True):
            decl[n]=("global",v)
    for name,fn in f.funcs.items():
        if "body" not in fn or not fn.get("file","").endswith(base): continue
        for x in walk(fn["body"]):
            if x["k"]=="DeclStmt":
                for d in x.get("decls",[]):
                    if d.get("static"): decl[name+"::"+d["n"]]=("local",d); 
        loc={k.split("::")[1]:k for k in decl if k.startswith(name+"::")}
        for x in walk(fn["body"]):
            if x["k"]=="BinaryOperator" and x["op"]=="=":
                l=strip(x["c"][0])
                if l is not None and l["k"]=="DeclRefExpr":
                    key=loc.get(l["n"]) or (l["n"] if l["n"] in decl else None)
                    if key: writes.setdefault(key,[]).append((name,x["l"],const_value(x["c"][1])))
            elif x["k"]=="CompoundAssignOperator" or (x["k"]=="UnaryOperator" and x["op"] in ("++","--","post++","post--","&")):
                l=strip(x["c"][0])
                if l is not None and l["k"]=="DeclRefExpr":
                    key=loc.get(l["n"]) or (l["n"] if l["n"] in decl else None)
                    if key: writes.setdefault(key,[]).append((name,x["l"],"op"))
    out=[]
    for k,ws in writes.items():
        kind,d=decl[k]
        t=(d.get("t") or "")
        if t not in("int","Bool","BPack(Bool)","long","short","char","unsigned int") and "Bool" not in t: continue
        vals=[w[2] for w in ws]
        init=const_value(d.get("init")) if d.get("init") is not None else 0
        if all(isinstance(v,int) for v in vals) and all(v!=init for v in vals):
            out.append((k,t,init,ws[:3]))
    return out


LATCH_FROZEN = {
    ("genlisp.c", "glimixedCase"): "set by the -L option handler (genLispOption): a command-line setting, the same for every file",
    ("emit.c", "emitSelect::isInit"): "first call of the -F option handler clears the selection tables: command-line processing, before any file",
    ("gencpp.c", "basicHasBeenUsrDefined"): "set by the -P option handler (cppOption): a command-line setting",
}


def d8(rep):
    """A flag of a generator or printer that is set to a constant different from its initial value and never put back is a
    latch: after the first file of an invocation that sets it, every later file is generated as if it had happened for that
    file too ("this declaration has already been written").  `aldor -Fc a.as b.as` then writes a b.c that lacks a declaration
    which `aldor -Fc b.as` writes.  Instances: every file-scope or function-static integer/Bool variable of the units that
    generate per-file output, all of whose assignments store constants different from the initial value.  Command-line settings
    are frozen with their reason; any other latch is a violation."""
    gen = [u for u in common.compiler_units() if u in ("genc.c", "ccode.c", "genlisp.c", "gencpp.c", "genfoam.c", "emit.c") or
           u.startswith(("java/", "gf_"))]
    dig = common.map_units(gen, latch_digest, "compiler", all_trees=True)
    n = 0
    for u in sorted(dig):
        base = u.split("/")[-1]
        for var, t, init, ws in dig[u]:
            n += 1
            key = "generator-latch:%s:%s" % (base, var)
            if (base, var) in LATCH_FROZEN:
                rep.ok("D8", key, sample={"frozen": LATCH_FROZEN[(base, var)]})
            else:
                fn, line, val = ws[0]
                rep.violation("D8", key, "%s:%d (%s)" % (base, line, fn),
                              "`%s` starts as %s, is set to %s in %s and is never put back: once the first file of an invocation has "
                              "set it, the generator treats every later file as if the event had happened for it as well (a "
                              "declaration written 'already', an initialisation 'done'), so a file compiled second in a batch gets "
                              "different -- here: incomplete -- output" % (var, init, val, fn))
    rep.floor("generator units scanned for set-once flags", len(gen), 10)
    if n == 0:
        rep.ok("D8", "generator-latch:none")


def run(tier, only=None):
    rep = common.Report("C08", tier, EXPLANATION)
    units = common.compiler_units()
    dig = common.map_units(units, digest, all_trees=True)
    rep.analysed_count("translation units", len(units))
    frozen_it = json.load(open(os.path.join(FROZEN, "c08_table_iterations.json")))
    news = [x for d in dig.values() for x in d["news"]]
    # ---- D1 ----
    funcs = {}
    for d in dig.values():
        for name, sm in d["funcs"].items():
            if name not in funcs or sm["ptrord"] or sm["callees"]:
                funcs[name] = sm

    def hash_class(hname):
        """'content' if the hash function reads through its argument, 'address' if it (or a callee to depth 2)
        turns a pointer into an integer, or if it is the default pointer hash."""
        if hname in ("NULL", "ptrHashFn", None):
            return "address", "default pointer hash"
        if hname not in funcs:
            return "unknown", "hash function %s not found" % hname
        seen, frontier = {hname}, [hname]
        for depth in range(3):
            nxt = []
            for fn in frontier:
                sm = funcs.get(fn)
                if sm is None:
                    continue
                casts = [t for l, t in sm["ptrord"] if t.startswith("(integer)")]
                if casts:
                    return "address", "%s converts a pointer to an integer: %s" % (fn, casts[0])
                for c in sm["callees"]:
                    if c not in seen and c in funcs:
                        seen.add(c)
                        nxt.append(c)
            frontier = nxt
        return "content", "%s and its callees (depth 2) only read through their argument" % hname

    n = 0
    seen_keys = set()
    for u in sorted(dig):
        for unit, func, cal, table, line in dig[u]["iters"]:
            key = "%s:%s:%s" % (unit, func, table)
            if key in seen_keys:
                continue
            seen_keys.add(key)
            n += 1
            where = "%s:%d (%s)" % (unit, line, func)
            # creation sites of this table: same function for locals, same unit for globals/fields
            made = [x for x in news if x[2] == table and (x[1] == func or (x[0] == unit and not table == "tbl"))]
            classes = [(hash_class(x[3]), x) for x in made]
            ent = frozen_it.get(key)
            if classes and all(c[0][0] == "content" for c in classes):
                rep.ok("D1", "iteration:" + key, sample={"site": where, "hash": classes[0][1][3], "why": classes[0][0][1]} if n <= 4 else None)
                continue
            why = classes[0][0][1] if classes else "the table's creation site is not visible from here"
            if ent is not None and ent.get("requires") == "integer-keys":
                sets = [x for d_ in dig.values() for x in d_["sets"] if x[0] == unit and x[2] == table]
                if not sets:
                    raise AnalysisBroken("%s: no tblSetElt on '%s' found to confirm that its keys are integers" % (unit, table))
                bad = [x for x in sets if not (x[3] or "").startswith(("i", "u", "enum", "char"))]
                if bad:
                    rep.violation("D1", "iteration:" + key, "%s:%d (%s)" % (unit, bad[0][5], bad[0][1]),
                                  "table '%s' uses the default pointer hash and is iterated to emit output (%s); that was acceptable "
                                  "because its keys were integers, but `%s` stores a key of class %s: the order of the emitted "
                                  "entries now follows heap addresses and differs from run to run" % (table, where, bad[0][4], bad[0][3]))
                    continue
            if ent is not None:
                rep.ok("D1", "iteration:" + key, nontrivial=True)
                rep.note("D1 frozen %s (%s): %s" % (key, why, ent["reason"]))
                continue
            rep.violation("D1", "iteration:" + key, where,
                          "%s iterates over hash table '%s' whose order is address-dependent (%s) and the site is not a "
                          "confirmed order-insensitive one: anything emitted from this loop differs from run to run" % (cal, table, why))
    rep.floor("table iteration sites", n, 8)
    # ---- D2 ----
    ns = 0
    for u in sorted(dig):
        for unit, func, cmpf, line in dig[u]["sorts"]:
            ns += 1
            where = "%s:%d (%s)" % (unit, line, func)
            key = "comparator:%s" % cmpf
            if cmpf is None or cmpf not in funcs:
                rep.violation("D2", "comparator:%s:%s" % (unit, func), where, "the comparator passed to the sort routine could not be resolved to a function")
                continue
            seen, frontier, bad = {cmpf}, [cmpf], []
            for depth in range(3):
                nxt = []
                for fn in frontier:
                    s = funcs.get(fn)
                    if s is None:
                        continue
                    for l, txt in s["ptrord"]:
                        bad.append("%s (line %d): %s" % (fn, l, txt))
                    for c in s["callees"]:
                        if c not in seen and c in funcs:
                            seen.add(c)
                            nxt.append(c)
                frontier = nxt
            if bad:
                rep.violation("D2", key, where, "sorting with %s orders by address: %s" % (cmpf, "; ".join(bad[:3])))
            else:
                rep.ok("D2", key, sample={"site": where, "comparator": cmpf, "functions_inspected": len(seen)})
    rep.floor("sort call sites", ns, 4)
    # ---- D3 ----
    frozen_amb = json.load(open(os.path.join(FROZEN, "c08_ambient_callers.json")))
    na = 0
    for u in sorted(dig):
        for unit, func, cal, line in dig[u]["ambient"]:
            na += 1
            key = "%s:%s" % (unit, func)
            if key in frozen_amb:
                rep.ok("D3", "ambient:%s:%s" % (key, cal), nontrivial=False)
            else:
                rep.violation("D3", "ambient:%s:%s" % (key, cal), "%s:%d (%s)" % (unit, line, func),
                              "%s is called from %s, which is not one of the confirmed places that may look at the clock, "
                              "the process id, random numbers or the environment: the value can reach an output" % (cal, func))
    rep.floor("ambient-source call sites", na, 25)
    # ---- D4 ----
    frozen_cnt = json.load(open(os.path.join(FROZEN, "c08_batch_counters.json")))
    gw = {}
    for u in sorted(dig):
        for v, l in dig[u]["gwrites"].items():
            gw.setdefault(v, []).extend(l)
    nc = 0
    for v in sorted(gw):
        kinds = {k for _, _, k, _ in gw[v]}
        if kinds != {"inc"}:
            continue                  # reset somewhere, or a depth counter that is also decremented
        nc += 1
        sites = sorted({(u, f) for u, f, _, _ in gw[v]})
        key = "batch-counter:%s:%s" % (sites[0][0], v)
        where = "%s:%d (%s)" % (gw[v][0][0], gw[v][0][3], gw[v][0][1])
        ent = frozen_cnt.get("%s:%s" % (sites[0][0], v))
        if ent is not None:
            rep.ok("D4", key, nontrivial=False)
            rep.note("D4 frozen %s: %s" % (key, ent))
        else:
            rep.violation("D4", key, where,
                          "the counter '%s' is only ever incremented (in %s) and never reset, so it keeps counting from one file of a "
                          "batch to the next; it is not one of the counters confirmed never to reach an output or a message, so "
                          "`aldor a.as b.as` and `aldor b.as` can write different files for b.as" % (v, ", ".join(f for _, f in sites[:3])))
    rep.floor("monotone never-reset integer counters examined", nc, 15)
    d5(rep)
    d9(rep)
    d10(rep)
    d6(rep, dig)
    d7(rep)
    d8(rep)
    rep.assumptions += ["calls through function pointers are not followed in D3",
                        "lisort is the only sort routine applied to output-relevant data (no qsort in the compiler units)"]
    return rep
