"""Shared plumbing for the static checks of pippijn/aldor.

Everything here works on /repo's *current working tree*: the compilation
database is rebuilt from Makefile.am, the derived sources are regenerated when
stale, and facts are re-extracted by the LibTooling tool on every run.
Nothing is cached between runs.
"""
import concurrent.futures
import hashlib
import json
import os
import re
import shutil
import subprocess
import sys
import time

VERIF = os.path.dirname(os.path.dirname(os.path.abspath(__file__)))
REPO = os.environ.get("ALDOR_REPO", "/repo")
SRC = os.path.join(REPO, "aldor", "aldor", "src")
JAVA_RT = os.path.join(REPO, "aldor", "aldor", "lib", "java", "src", "foamj")
BUILD = os.path.join(VERIF, ".build")
TOOL = os.path.join(BUILD, "aldorfacts")
TOOL_SRC = os.path.join(VERIF, "tools", "aldorfacts.cc")
KNOWN = os.path.join(VERIF, "known_findings.txt")
OUT = os.path.join(VERIF, "out")
EVID = os.path.join(VERIF, "evidence")

EXIT_OK, EXIT_VIOLATION, EXIT_BROKEN = 0, 1, 2


class AnalysisBroken(Exception):
    """An anchor vanished / a construct could not be analysed: exit 2."""


# --------------------------------------------------------------------------
# tool + compilation database
# --------------------------------------------------------------------------

def build_tool(force=False):
    os.makedirs(BUILD, exist_ok=True)
    if (not force and os.path.exists(TOOL)
            and os.path.getmtime(TOOL) >= os.path.getmtime(TOOL_SRC)):
        return
    cxxflags = subprocess.check_output(["llvm-config-14", "--cxxflags"], text=True).split()
    tmp = TOOL + ".tmp.%d" % os.getpid()
    cmd = (["clang++"] + cxxflags + ["-fno-rtti", "-O1", TOOL_SRC, "-o", tmp,
           "/usr/lib/llvm-14/lib/libclang-cpp.so.14", "/usr/lib/llvm-14/lib/libLLVM-14.so"])
    subprocess.check_call(cmd)
    os.replace(tmp, TOOL)


def _am_sources(makefile_am):
    """Parse NAME_SOURCES = a \\ b \\ ... variables of a Makefile.am."""
    text = open(makefile_am).read()
    text = text.replace("\\\n", " ")
    out = {}
    for m in re.finditer(r"^([A-Za-z0-9_]+)_SOURCES\s*\+?=\s*(.*)$", text, re.M):
        out.setdefault(m.group(1), []).extend(m.group(2).split())
    for m in re.finditer(r"^([A-Za-z0-9_]+)\s*=\s*(.*)$", text, re.M):
        out.setdefault("$" + m.group(1), []).extend(m.group(2).split())
    return out


COMPILER_TARGETS = ["aldor", "javagen", "libport_a", "libgen_a", "libstruct_a", "libphase_a"]


def compiler_units():
    am = _am_sources(os.path.join(SRC, "Makefile.am"))
    units = []
    for t in COMPILER_TARGETS:
        if t not in am:
            raise AnalysisBroken("Makefile.am: no %s_SOURCES" % t)
        for s in am[t]:
            if s.endswith(".c") and s not in units:
                units.append(s)
    if len(units) < 150:
        raise AnalysisBroken("only %d compiler units found in Makefile.am" % len(units))
    return units


def runtime_units():
    am = _am_sources(os.path.join(REPO, "aldor", "aldor", "lib", "libfoam", "Makefile.am"))
    units = [s for s in am.get("$runtime_CSOURCES", []) if s.endswith(".c")]
    for s in am.get("libfoam_a", []):
        if s.endswith(".c") and "/" not in s and s not in units:
            units.append(s)
    if len(units) < 12:
        raise AnalysisBroken("only %d runtime units found" % len(units))
    return units


def flags(config):
    # __NO_CTYPE: glibc then declares isdigit()/tolower() as functions instead of expanding them to its
    # internal table look-ups, so the trees name the ISO C function (same semantics by the C standard).
    f = ["-std=c99", "-I" + SRC, "-DVCSVERSION=\"verif\"", "-w", "-D__NO_CTYPE"]
    if config == "runtime":
        f.append("-DFOAM_RTS")
    return f


# --------------------------------------------------------------------------
# derived sources (comsgdb.[ch], axl_y.c): regenerate when stale
# --------------------------------------------------------------------------

def ensure_derived():
    """Regenerate the two ignored build products exactly as the repository's
    make rules do, replacing them only when the content differs."""
    tooldir = os.path.join(REPO, "aldor", "aldor", "tools", "unix")
    tmp = os.path.join(BUILD, "derived.%d" % os.getpid())
    os.makedirs(tmp, exist_ok=True)
    try:
        msgcat = os.path.join(tooldir, "msgcat")
        if os.path.exists(msgcat):
            shutil.copy(os.path.join(SRC, "comsgdb.msg"), os.path.join(tmp, "comsgdb.msg"))
            subprocess.run([msgcat, "-h", "-c", "-detab", "comsgdb"], cwd=tmp, check=True,
                           stdout=subprocess.DEVNULL, stderr=subprocess.DEVNULL)
            for fn in ("comsgdb.h", "comsgdb.c"):
                _replace_if_differs(os.path.join(tmp, fn), os.path.join(SRC, fn))
        elif not os.path.exists(os.path.join(SRC, "comsgdb.h")):
            raise AnalysisBroken("comsgdb.h missing and msgcat not built")
        zacc = os.path.join(tooldir, "zacc")
        if os.path.exists(zacc):
            subprocess.run([zacc, "-p", "-y", os.path.join(tmp, "axl_y.yt"), "-c",
                            os.path.join(tmp, "axl_y.c"), os.path.join(SRC, "axl.z")],
                           cwd=tmp, check=True, stdout=subprocess.DEVNULL, stderr=subprocess.DEVNULL)
            sed = subprocess.run(["sed", "-f", os.path.join(SRC, "axl_y.sed"), os.path.join(tmp, "axl_y.c")],
                                 check=True, capture_output=True)
            with open(os.path.join(tmp, "axl_y.c"), "wb") as f:
                f.write(sed.stdout)
            _replace_if_differs(os.path.join(tmp, "axl_y.c"), os.path.join(SRC, "axl_y.c"))
        elif not os.path.exists(os.path.join(SRC, "axl_y.c")):
            raise AnalysisBroken("axl_y.c missing and zacc not built")
    finally:
        shutil.rmtree(tmp, ignore_errors=True)


def _replace_if_differs(new, old):
    try:
        same = open(new, "rb").read() == open(old, "rb").read()
    except FileNotFoundError:
        same = False
    if not same:
        t = old + ".verif.%d" % os.getpid()
        shutil.copy(new, t)
        os.replace(t, old)


# --------------------------------------------------------------------------
# extraction
# --------------------------------------------------------------------------

def extract(unit, config="compiler", trees=(), cfg=(), all_trees=False, all_cfg=False, extra_flags=()):
    """Run the extractor on SRC/unit (or an absolute path) and return facts."""
    build_tool()
    path = unit if os.path.isabs(unit) else os.path.join(SRC, unit)
    if not os.path.exists(path):
        raise AnalysisBroken("source file vanished: %s" % path)
    fdir = os.path.join(BUILD, "facts")
    os.makedirs(fdir, exist_ok=True)
    key = hashlib.sha1(repr((path, config, sorted(trees), sorted(cfg), all_trees, all_cfg,
                             tuple(extra_flags), os.getpid(), time.time())).encode()).hexdigest()[:16]
    out = os.path.join(fdir, "%s.%s.json" % (os.path.basename(path), key))
    cmd = [TOOL, "--out=" + out]
    if all_trees:
        cmd.append("--trees=all")
    elif trees:
        cmd.append("--trees=" + ",".join(sorted(trees)))
    if all_cfg:
        cmd.append("--cfg=all")
    elif cfg:
        cmd.append("--cfg=" + ",".join(sorted(cfg)))
    cmd += [path, "--"] + flags(config) + list(extra_flags)
    p = subprocess.run(cmd, cwd=SRC, capture_output=True, text=True)
    if p.returncode != 0 or not os.path.exists(out):
        raise AnalysisBroken("extractor failed on %s (%s): %s" % (unit, config, p.stderr[-2000:]))
    try:
        with open(out) as f:
            facts = json.load(f)
    finally:
        os.unlink(out)
    return Facts(facts, unit, config)


def extract_many(units, config="compiler", workers=16, **kw):
    with concurrent.futures.ThreadPoolExecutor(max_workers=workers) as ex:
        futs = {u: ex.submit(extract, u, config, **kw) for u in units}
        return {u: f.result() for u, f in futs.items()}


def _map_one(args):
    unit, config, fn_mod, fn_name, kw = args
    import importlib
    f = extract(unit, config, **kw)
    worker = getattr(importlib.import_module(fn_mod), fn_name)
    return unit, worker(f)


def map_units(units, worker, config="compiler", workers=16, **kw):
    """Extract every unit in a separate process and return {unit: worker(facts)}.
    The worker must be a module-level function returning a picklable digest."""
    build_tool()
    jobs = [(u, config, worker.__module__, worker.__name__, kw) for u in units]
    with concurrent.futures.ProcessPoolExecutor(max_workers=workers) as ex:
        out = {}
        for unit, res in ex.map(_map_one, jobs, chunksize=2):
            out[unit] = res
        return out


class Facts:
    def __init__(self, raw, unit, config):
        self.raw = raw
        self.unit = unit
        self.config = config
        self.funcs = {}
        for f in raw["functions"]:
            if f.get("def") or f["n"] not in self.funcs:
                self.funcs[f["n"]] = f
        self.vars = {}
        for v in raw["vars"]:
            if v.get("init") is not None or v["n"] not in self.vars:
                self.vars[v["n"]] = v
        self.enums = {e["n"]: e for e in raw["enums"] if e["n"]}
        self.enum_by_const = {}
        for e in raw["enums"]:
            for n, v in e["e"]:
                self.enum_by_const[n] = (e["n"], v)
        self.records = {r["n"]: r for r in raw["records"] if r["n"]}
        for f in self.funcs.values():
            if "body" in f:
                _normalise_steps(f["body"])

    def func(self, name, need_body=True):
        f = self.funcs.get(name)
        if f is None or (need_body and "body" not in f):
            raise AnalysisBroken("anchor function %s not found (with body) in %s" % (name, self.unit))
        return f

    def var(self, name):
        v = self.vars.get(name)
        if v is None:
            raise AnalysisBroken("anchor variable %s not found in %s" % (name, self.unit))
        return v

    def enum(self, name):
        e = self.enums.get(name)
        if e is None:
            raise AnalysisBroken("anchor enum %s not found in %s" % (name, self.unit))
        return e

    def enum_values(self, name):
        return dict((n, v) for n, v in self.enum(name)["e"])


# --------------------------------------------------------------------------
# tree helpers
# --------------------------------------------------------------------------

def _normalise_steps(body):
    """`x += 1`, `x -= 1` and `x = x + 1` are the same statement as `++x` / `--x` (same effect, same value): the rules speak of
    increments, so the three spellings are brought to the one form in place (node ids are kept, so the CFG still refers to them)."""
    stack = [body]
    while stack:
        n = stack.pop()
        if n is None:
            continue
        stack.extend(c for c in n.get("c", []) if c is not None)
        if n["k"] == "DeclStmt":
            stack.extend(d["init"] for d in n.get("decls", []) if d.get("init") is not None)
        if n["k"] not in ("BinaryOperator", "CompoundAssignOperator") or len(n.get("c", [])) != 2:
            continue
        op = n.get("op")
        if op in ("+=", "-=") and const_value(n["c"][1]) == 1:
            n["k"], n["op"], n["c"] = "UnaryOperator", ("++" if op == "+=" else "--"), [n["c"][0]]
            n.pop("cv", None)
        elif op == "=":
            l, r = strip(n["c"][0]), strip(n["c"][1])
            if l is not None and l["k"] == "DeclRefExpr" and r is not None and r["k"] == "BinaryOperator" and r["op"] in ("+", "-"):
                a = strip(r["c"][0])
                if a is not None and a["k"] == "DeclRefExpr" and a["n"] == l["n"] and const_value(r["c"][1]) == 1:
                    n["k"], n["op"], n["c"] = "UnaryOperator", ("++" if r["op"] == "+" else "--"), [n["c"][0]]
                    n.pop("cv", None)


def kids(n):
    return [c for c in n.get("c", []) if c is not None]


def walk(n):
    """Pre-order walk over a statement/expression tree, including initialisers
    of local declarations."""
    if n is None:
        return
    stack = [n]
    while stack:
        x = stack.pop()
        if x is None:
            continue
        yield x
        ch = list(x.get("c", []))
        for d in x.get("decls", []):
            if d.get("init") is not None:
                ch.append(d["init"])
        stack.extend(reversed(ch))


def find(n, kind):
    return [x for x in walk(n) if x["k"] == kind]


def calls(n, name=None):
    return [x for x in walk(n) if x["k"] == "CallExpr" and (name is None or x.get("callee") == name)]


TRANSPARENT = ("ParenExpr", "ConstantExpr")


def strip(n, casts=True):
    """Strip parentheses and (optionally) all casts."""
    while n is not None:
        if n["k"] in TRANSPARENT:
            n = n["c"][0]
        elif casts and n["k"] in ("ImplicitCastExpr", "CStyleCastExpr"):
            n = n["c"][0]
        else:
            break
    return n


def strip_noop(n):
    """Strip parens and casts that do not change the value class
    (lvalue-to-rvalue, no-op, decay)."""
    while n is not None:
        if n["k"] in TRANSPARENT:
            n = n["c"][0]
        elif n["k"] == "ImplicitCastExpr" and n.get("ck") in (
                "LValueToRValue", "NoOp", "ArrayToPointerDecay", "FunctionToPointerDecay"):
            n = n["c"][0]
        else:
            break
    return n


def index_ids(root):
    return {x["id"]: x for x in walk(root)}


def parents(root):
    par = {}
    for x in walk(root):
        ch = list(x.get("c", []))
        for d in x.get("decls", []):
            if d.get("init") is not None:
                ch.append(d["init"])
        for c in ch:
            if c is not None:
                par[c["id"]] = x
    return par


def switch_cases(sw):
    """Return list of (labels, stmts) groups for a SwitchStmt whose body is a
    CompoundStmt. labels: list of (name|None, value) or ('default', None).
    A group is the maximal run of statements following a run of labels; the
    flag 'falls' says whether control can fall into the next group (last stmt
    is not break/return/continue/goto)."""
    body = sw["c"][-1]
    if body["k"] != "CompoundStmt":
        raise AnalysisBroken("switch body is not a compound statement (line %d)" % sw["l"])
    groups = []
    cur = None
    for st in body["c"]:
        labels = []
        s = st
        while s is not None and s["k"] in ("CaseStmt", "DefaultStmt"):
            if s["k"] == "CaseStmt":
                labels.append((s.get("lon"), s.get("lo"), s.get("hi")))
            else:
                labels.append(("default", None, None))
            s = s["c"][0] if s["c"] else None
        if labels:
            if cur is not None and not cur["stmts"]:
                cur["labels"].extend(labels)   # case A: case B: on separate statements
            else:
                cur = {"labels": labels, "stmts": [], "line": st["l"]}
                groups.append(cur)
            if s is not None:
                cur["stmts"].append(s)
        else:
            if cur is None:
                cur = {"labels": [], "stmts": [], "line": st["l"]}
                groups.append(cur)
            cur["stmts"].append(st)
    for g in groups:
        last = g["stmts"][-1] if g["stmts"] else None
        g["falls"] = not (last is not None and ends_flow(last))
    return groups


NORETURN_CALLS = {"bug", "bugBadCase", "bugUnimpl", "exit", "abort", "exitFailure", "exitSuccess",
                  "comsgFatal", "comsgVFatal", "longjmp", "siglongjmp", "fintWhere_and_exit",
                  "compSignalHandler", "_do_assert", "__assert_fail", "fiHalt", "fiRaiseException",
                  "fiUnwind", "osFatal"}


def ends_flow(st):
    k = st["k"]
    if k in ("BreakStmt", "ReturnStmt", "ContinueStmt", "GotoStmt"):
        return True
    if k == "CompoundStmt":
        return bool(st["c"]) and ends_flow(st["c"][-1])
    if k == "IfStmt":
        c = st["c"]
        return c[1] is not None and c[2] is not None and ends_flow(c[1]) and ends_flow(c[2])
    if k == "CallExpr" and st.get("callee") in NORETURN_CALLS:
        return True
    if k == "DoStmt":
        # do { ...; } while (0) macro wrappers
        return ends_flow(st["c"][0])
    return False


def const_value(n):
    """Integer constant value of an expression node if the front end could
    evaluate it."""
    if n is None:
        return None
    if "cv" in n:
        return n["cv"]
    s = strip(n)
    if s is not None and "cv" in s:
        return s["cv"]
    return None


def string_value(n):
    s = strip(n)
    if s is not None and s["k"] == "StringLiteral":
        return s.get("v")
    return None


def enum_name(n):
    s = strip(n)
    if s is not None and s["k"] == "DeclRefExpr" and s.get("dk") == "enum":
        return s["n"]
    return None


def table_rows(var, facts=None):
    """Rows of a global array-of-struct initialiser as list of lists of nodes."""
    init = var.get("init")
    if init is None or init["k"] != "InitListExpr":
        raise AnalysisBroken("table %s has no initialiser list" % var["n"])
    rows = []
    for r in init["c"]:
        if r is None:
            continue
        if r["k"] != "InitListExpr":
            raise AnalysisBroken("table %s: row at line %d is not a brace list" % (var["n"], r["l"]))
        rows.append(r)
    return rows


def render(n, depth=0):
    """Readable one-line rendering of an expression tree (for reports)."""
    if n is None:
        return "<null>"
    k = n["k"]
    c = n.get("c", [])
    if k in TRANSPARENT:
        return "(" + render(c[0]) + ")" if k == "ParenExpr" else render(c[0])
    if k == "ImplicitCastExpr":
        return render(c[0])
    if k == "CStyleCastExpr":
        return "(%s)%s" % (n.get("t"), render(c[0]))
    if k == "DeclRefExpr":
        return n["n"]
    if k == "MemberExpr":
        return render(c[0]) + ("->" if n.get("arrow") else ".") + n["n"]
    if k in ("IntegerLiteral", "CharacterLiteral"):
        return str(n["v"])
    if k == "FloatingLiteral":
        return str(n["v"])
    if k == "StringLiteral":
        return json.dumps(n.get("v"))
    if k in ("BinaryOperator", "CompoundAssignOperator"):
        return "%s %s %s" % (render(c[0]), n["op"], render(c[1]))
    if k == "UnaryOperator":
        op = n["op"]
        return render(c[0]) + op[4:] if op.startswith("post") else op + render(c[0])
    if k == "CallExpr":
        return "%s(%s)" % (n.get("callee") or render(c[0]), ", ".join(render(a) for a in c[1:]))
    if k == "ArraySubscriptExpr":
        return "%s[%s]" % (render(c[0]), render(c[1]))
    if k == "ConditionalOperator":
        return "%s ? %s : %s" % (render(c[0]), render(c[1]), render(c[2]))
    if k == "UnaryExprOrTypeTraitExpr":
        return "sizeof(...)"
    return "<%s>" % k


# --------------------------------------------------------------------------
# CFG helpers
# --------------------------------------------------------------------------

class CFG:
    def __init__(self, func):
        if not func.get("cfg"):
            raise AnalysisBroken("no CFG for %s" % func["n"])
        self.func = func
        self.ids = index_ids(func["body"])
        g = func["cfg"]
        self.entry, self.exit = g["entry"], g["exit"]
        self.blocks = {b["id"]: b for b in g["blocks"]}
        self.succ = {b["id"]: [s for s in b["succs"] if s is not None] for b in g["blocks"]}
        self.pred = {i: [] for i in self.blocks}
        for i, ss in self.succ.items():
            for s in ss:
                self.pred[s].append(i)
        # events: ordered list of (block, index, node)
        self.where = {}
        for b in g["blocks"]:
            for j, e in enumerate(b["elems"]):
                self.where.setdefault(e, (b["id"], j))
        self._cut_noreturn()

    def _cut_noreturn(self):
        """Calls to the repository's non-returning functions end the path."""
        self.noreturn_blocks = set()
        for bid, b in self.blocks.items():
            for j, e in enumerate(b["elems"]):
                n = self.ids.get(e)
                if n is not None and n["k"] == "CallExpr" and n.get("callee") in NORETURN_CALLS:
                    self.noreturn_blocks.add(bid)
                    # truncate: remember index
                    b.setdefault("cut", j)
                    break
        for bid in self.noreturn_blocks:
            for s in self.succ[bid]:
                if bid in self.pred[s]:
                    self.pred[s].remove(bid)
            self.succ[bid] = []

    def elems(self, bid):
        b = self.blocks[bid]
        es = b["elems"]
        if "cut" in b:
            es = es[: b["cut"] + 1]
        return [self.ids[e] for e in es if e in self.ids]

    def events(self, pred):
        """All (block, idx, node) where pred(node)."""
        out = []
        for bid in self.blocks:
            for j, n in enumerate(self.elems(bid)):
                if pred(n):
                    out.append((bid, j, n))
        return out

    def reachable_from_entry(self):
        seen, st = set(), [self.entry]
        while st:
            b = st.pop()
            if b in seen:
                continue
            seen.add(b)
            st.extend(self.succ[b])
        return seen

    def path_avoiding(self, src, dst_pred, avoid_pred, src_idx=-1, edge_ok=None):
        """Is there a path from just after element src_idx of block src to an
        element satisfying dst_pred (or, if dst_pred is None, to the exit
        block) on which no element satisfies avoid_pred?  Returns a witness
        list of block ids or None."""
        # search state: block id, with scanning from index
        start = (src, src_idx + 1)
        seen = set()
        stack = [(start, [src])]
        while stack:
            (bid, idx), path = stack.pop()
            if (bid, idx) in seen:
                continue
            seen.add((bid, idx))
            blocked = False
            es = self.elems(bid)
            for j in range(idx, len(es)):
                n = es[j]
                if avoid_pred(n):
                    blocked = True
                    break
                if dst_pred is not None and dst_pred(n):
                    return path
            if blocked:
                continue
            if dst_pred is None and bid == self.exit:
                return path
            if dst_pred is None and not self.succ[bid] and bid in self.noreturn_blocks:
                continue   # path died in a noreturn call: not an exit
            for k, s in enumerate(self.succ[bid]):
                if edge_ok is not None and not edge_ok(bid, s):
                    continue
                stack.append(((s, 0), path + [s]))
        return None

    def cond_edges(self, bid):
        """(cond node, true successor, false successor) of a two-way branch."""
        b = self.blocks[bid]
        if b.get("cond") is None or len(b["succs"]) != 2:
            return None
        cond = self.ids.get(b["cond"])
        # the value that decides this branch is the right-most operand of a &&/|| chain:
        # the operands to its left were decided by earlier blocks
        while cond is not None:
            c = cond
            while c is not None and c["k"] in ("ParenExpr", "ImplicitCastExpr"):
                c = c["c"][0]
            if c is not None and c["k"] == "BinaryOperator" and c["op"] in ("&&", "||"):
                cond = c["c"][1]
            else:
                break
        return cond, b["succs"][0], b["succs"][1]

    def return_blocks(self):
        out = []
        for bid in self.blocks:
            for j, n in enumerate(self.elems(bid)):
                if n["k"] == "ReturnStmt":
                    out.append((bid, j, n))
        return out


# --------------------------------------------------------------------------
# macro table of a header (clang -E -dM), used for fi* macros
# --------------------------------------------------------------------------

def macro_defs(header, config="compiler"):
    p = subprocess.run(["clang", "-E", "-dM", "-x", "c"] + flags(config) + [os.path.join(SRC, header)],
                       capture_output=True, text=True, cwd=SRC)
    if p.returncode != 0:
        raise AnalysisBroken("clang -E -dM failed on %s: %s" % (header, p.stderr[-500:]))
    out = {}
    for line in p.stdout.splitlines():
        m = re.match(r"#define (\w+)(\(([^)]*)\))?\s?(.*)$", line)
        if m:
            params = None
            if m.group(2) is not None:
                params = [x.strip() for x in m.group(3).split(",")] if m.group(3).strip() else []
            out[m.group(1)] = (params, m.group(4))
    return out


# --------------------------------------------------------------------------
# reporting
# --------------------------------------------------------------------------

def load_known():
    """known_findings.txt: 'finding: property=<id> key=<key> <text>' and
    'fixed: property=<id> <commit> <text>' lines."""
    findings = {}
    if os.path.exists(KNOWN):
        for line in open(KNOWN):
            line = line.strip()
            m = re.match(r"finding:\s+property=(\S+)\s+key=(\S+)\s*(.*)$", line)
            if m:
                findings[(m.group(1), m.group(2))] = m.group(3)
    return findings


class Report:
    def __init__(self, pid, tier, explanation):
        self.pid = pid
        self.tier = tier
        self.explanation = explanation
        self.t0 = time.time()
        self.obligations = 0
        self.discharged = 0
        self.nontrivial = set()
        self.samples = []
        self.violations = []     # dicts
        self.known_hits = []
        self.notes = []
        self.rule_counts = {}
        self.analysed = {}
        self.assumptions = []
        self.trusted = ["clang 14 front end (parser, type checker, constant evaluator, CFG builder)",
                        "the rule tables and normaliser in /verif/rules"]
        self.known = load_known()
        self.floors = []

    # an obligation = one (rule, instance) decided
    def ok(self, rule, instance, nontrivial=True, sample=None):
        self.obligations += 1
        self.discharged += 1
        self.rule_counts[rule] = self.rule_counts.get(rule, 0) + 1
        if nontrivial:
            self.nontrivial.add((rule, str(instance)))
        if sample is not None and len(self.samples) < 12:
            self.samples.append({"rule": rule, "instance": str(instance), "detail": sample})

    def violation(self, rule, key, where, msg, detail=None):
        """key identifies the instance independent of line numbers."""
        self.obligations += 1
        self.rule_counts[rule] = self.rule_counts.get(rule, 0) + 1
        self.nontrivial.add((rule, str(key)))
        full = "%s:%s" % (rule, key)
        v = {"rule": rule, "key": full, "where": where, "message": msg}
        if detail is not None:
            v["detail"] = detail
        if (self.pid, full) in self.known:
            self.known_hits.append(v)
        else:
            self.violations.append(v)

    def note(self, msg):
        self.notes.append(msg)

    def analysed_count(self, what, n):
        self.analysed[what] = self.analysed.get(what, 0) + n

    def floor(self, what, got, minimum):
        self.floors.append((what, got, minimum))
        if got < minimum:
            raise AnalysisBroken("%s: matched %d instances, floor confirmed by hand is %d" % (what, got, minimum))

    def finish(self):
        wall = time.time() - self.t0
        os.makedirs(OUT, exist_ok=True)
        os.makedirs(EVID, exist_ok=True)
        for v in self.known_hits:
            print("KNOWN-FINDING: property=%s %s -- %s (%s)" % (self.pid, v["key"], v["message"], v["where"]))
        noev = bool(os.environ.get("VERIF_NO_EVIDENCE"))
        replay = os.path.join(OUT, "%s.violations%s.json" % (self.pid, ".selftest" if noev else ""))
        if self.violations:
            with open(replay, "w") as f:
                json.dump({"property": self.pid, "violations": self.violations}, f, indent=1)
            for v in self.violations:
                print("violation: %s at %s: %s" % (v["key"], v["where"], v["message"]))
        elif os.path.exists(replay):
            os.unlink(replay)
        ev = {
            "property_id": self.pid,
            "tier": self.tier,
            "seed": int(os.environ.get("VERIF_SEED", "0") or 0),
            "level": "other",
            "coverage": {
                "explanation": self.explanation,
                "obligations": self.obligations,
                "discharged": self.discharged,
                "evaluations": self.obligations,
                "distinct_nontrivial": len(self.nontrivial),
                "rule": "one obligation per (rule, syntactic instance) enumerated from the type-checked AST/CFG of /repo's "
                        "working tree; an instance is non-trivial when the rule had something to compare or a path to search "
                        "(counted as distinct (rule, instance) pairs)",
                "samples": self.samples or [{"note": "no sample recorded"}],
                "per_rule": self.rule_counts,
                "analysed": self.analysed,
                "floors": [{"what": w, "matched": g, "floor": m} for w, g, m in self.floors],
                "known_findings_seen": [v["key"] for v in self.known_hits],
                "notes": self.notes[:60],
                "trusted_base": self.trusted,
                "checker_cmd": "./check %s --tier %s" % (self.pid, self.tier),
                "exhaustive": True,
            },
            "assumptions": self.assumptions,
            "wall_s": round(wall, 3),
            "violations": len(self.violations),
        }
        if not noev:
            with open(os.path.join(EVID, "%s.json" % self.pid), "w") as f:
                json.dump(ev, f, indent=1)
        print("%s: %d obligations over %s; %d discharged, %d known findings, %d violations (%.1fs)" % (
            self.pid, self.obligations, json.dumps(self.rule_counts), self.discharged,
            len(self.known_hits), len(self.violations), wall))
        if self.violations:
            print("VIOLATION property=%s replay=%s" % (self.pid, replay))
            return EXIT_VIOLATION
        return EXIT_OK


def broken_evidence(pid, tier, msg, t0):
    os.makedirs(EVID, exist_ok=True)
    ev = {"property_id": pid, "tier": tier, "seed": 0, "level": "other",
          "coverage": {"explanation": "ANALYSIS BROKEN (exit 2): " + msg, "obligations": 0, "discharged": 0},
          "wall_s": round(time.time() - t0, 3), "violations": 0}
    with open(os.path.join(EVID, "%s.json" % pid), "w") as f:
        json.dump(ev, f, indent=1)
