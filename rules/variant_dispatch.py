"""A dispatcher switches on the tag of a FOAM node and hands the node to one
handler per tag; FOAM nodes are a C union with one struct member per tag
(foam->foamSFlo, foam->foamDFlo, ...).  A handler that is reached for exactly
one group of tags may read, through its node parameter, only the members that
belong to those tags (and the common header / generic argument vector):
reading another tag's member reinterprets the bytes (a double's first half as
a float).  Handlers reached from several groups, or from `default`, are
sub-dispatchers and are not judged.
"""
from .common import AnalysisBroken, walk, strip, calls
from . import common

GENERIC = ("hdr", "foamGen")


def survey(f, dispatcher):
    fn = f.func(dispatcher)
    if not fn["params"]:
        raise AnalysisBroken("%s has no node parameter" % dispatcher)
    node = fn["params"][0]["n"]
    sws = [x for x in walk(fn["body"]) if x["k"] == "SwitchStmt"]
    if not sws:
        raise AnalysisBroken("%s: no switch" % dispatcher)
    reached = {}
    for g in common.switch_cases(sws[0]):
        labs = tuple(sorted(l[0] for l in g["labels"] if l[0]))
        for st in g["stmts"]:
            for c in calls(st):
                cal = c.get("callee")
                a0 = strip(c["c"][1]) if len(c["c"]) > 1 else None
                if cal and a0 is not None and a0["k"] == "DeclRefExpr" and a0["n"] == node:
                    reached.setdefault(cal, set()).add(labs)
    out = []
    for cal, groups in sorted(reached.items()):
        h = f.funcs.get(cal)
        if h is None or "body" not in h or not h["params"] or len(groups) != 1:
            continue
        labs = next(iter(groups))
        if "default" in labs or not all(l.startswith("FOAM_") for l in labs):
            continue
        p = h["params"][0]["n"]
        mem = {}
        for x in walk(h["body"]):
            if x["k"] == "MemberExpr":
                b = strip(x["c"][0])
                if b is not None and b["k"] == "DeclRefExpr" and b["n"] == p:
                    mem.setdefault(x["n"], x["l"])
        out.append((labs, cal, h, mem))
    return out


def report(rep, rule, f, unit, dispatcher, floor):
    n = 0
    for labs, cal, h, mem in survey(f, dispatcher):
        allowed = set(GENERIC) | {"foam" + l[5:] for l in labs}
        n += 1
        key = "variant:%s:%s" % (unit, cal)
        bad = sorted(m for m in mem if m not in allowed)
        if not bad:
            rep.ok(rule, key, nontrivial=bool(mem))
        else:
            rep.violation(rule, key, "%s:%d (%s)" % (unit, mem[bad[0]], cal),
                          "%s is the handler of %s in %s but reads the node through the member `%s`: the node's data lives in `%s`, so "
                          "the handler reinterprets another variant's bytes (for a float constant: the wrong value in the generated "
                          "program)" % (cal, "/".join(labs), dispatcher, bad[0], "/".join(sorted(allowed - set(GENERIC)))))
    rep.floor("single-tag handlers of %s" % dispatcher, n, floor)
