"""A dispatcher switches on the tag of a FOAM node and hands the node to one
handler per tag; FOAM nodes are a C union with one struct member per tag
(foam->foamSFlo, foam->foamDFlo, ...).  A handler that is reached for exactly
one group of tags may read, through its node parameter, only the members that
belong to those tags (and the common header / generic argument vector):
reading another tag's member reinterprets the bytes (a double's first half as
a float).  Handlers reached from several groups, or from `default`, are
sub-dispatchers and are not judged.
"""
from .common import AnalysisBroken, walk, strip, calls
from . import common

GENERIC = ("hdr", "foamGen")


def survey(f, dispatcher):
    fn = f.func(dispatcher)
    if not fn["params"]:
        raise AnalysisBroken("%s has no node parameter" % dispatcher)
    node = fn["params"][0]["n"]
    sws = [x for x in walk(fn["body"]) if x["k"] == "SwitchStmt"]
    if not sws:
        raise AnalysisBroken("%s: no switch" % dispatcher)
    reached = {}
    for g in common.switch_cases(sws[0]):
        labs = tuple(sorted(l[0] for l in g["labels"] if l[0]))
        for st in g["stmts"]:
            for c in calls(st):
                cal = c.get("callee")
                a0 = strip(c["c"][1]) if len(c["c"]) > 1 else None
                if cal and a0 is not None and a0["k"] == "DeclRefExpr" and a0["n"] == node:
                    reached.setdefault(cal, set()).add(labs)
    out = []
    for cal, groups in sorted(reached.items()):
        h = f.funcs.get(cal)
        if h is None or "body" not in h or not h["params"] or len(groups) != 1:
            continue
        labs = next(iter(groups))
        if "default" in labs or not all(l.startswith("FOAM_") for l in labs):
            continue
        p = h["params"][0]["n"]
        mem = {}
        for x in walk(h["body"]):
            if x["k"] == "MemberExpr":
                b = strip(x["c"][0])
                if b is not None and b["k"] == "DeclRefExpr" and b["n"] == p:
                    mem.setdefault(x["n"], x["l"])
        out.append((labs, cal, h, mem))
    return out


def report(rep, rule, f, unit, dispatcher, floor):
    n = 0
    for labs, cal, h, mem in survey(f, dispatcher):
        allowed = set(GENERIC) | {"foam" + l[5:] for l in labs}
        n += 1
        key = "variant:%s:%s" % (unit, cal)
        bad = sorted(m for m in mem if m not in allowed)
        if not bad:
            rep.ok(rule, key, nontrivial=bool(mem))
        else:
            rep.violation(rule, key, "%s:%d (%s)" % (unit, mem[bad[0]], cal),
                          "%s is the handler of %s in %s but reads the node through the member `%s`: the node's data lives in `%s`, so "
                          "the handler reinterprets another variant's bytes (for a float constant: the wrong value in the generated "
                          "program)" % (cal, "/".join(labs), dispatcher, bad[0], "/".join(sorted(allowed - set(GENERIC)))))
    rep.floor("single-tag handlers of %s" % dispatcher, n, floor)


# --------------------------------------------------------------------------
# AbSyn handlers, dispatched by AB_SWITCH to <prefix><Tag>(…, AbSyn node, …)
# --------------------------------------------------------------------------
import re as _re

AB_GENERIC = ("abHdr", "abGen")


def _ab_digest(f, prefixes=("tibup", "titdn", "tisef", "scobind", "abCheck", "abn", "mac")):
    out = {"handlers": [], "layouts": {}}
    base = f.unit.split("/")[-1]
    tags = set()
    for e in f.raw["enums"]:
        for n_, _ in e["e"]:
            if n_.startswith("AB_"):
                tags.add(n_[3:])
    for rn, r in f.records.items():
        if rn.startswith("ab") and rn[2:3].isupper():
            out["layouts"][rn] = [tuple(x[:2]) for x in r["f"]]
    pat = _re.compile(r"^(%s)([A-Z][A-Za-z]*)$" % "|".join(prefixes))
    for name, fn in f.funcs.items():
        if "body" not in fn or not fn.get("file", "").endswith(base) or not fn["params"]:
            continue
        m = pat.match(name)
        if not m or m.group(2) not in tags:
            continue
        ps = [p["n"] for p in fn["params"] if (p.get("t") or "").startswith("AbSyn")]
        if not ps:
            continue
        mem = {}
        for x in walk(fn["body"]):
            if x["k"] == "MemberExpr" and x["n"].startswith("ab") and x["n"][2:3].isupper():
                b = strip(x["c"][0])
                if b is not None and b["k"] == "DeclRefExpr" and b["n"] == ps[0]:
                    mem.setdefault(x["n"], x["l"])
        out["handlers"].append((name, m.group(2), mem, fn["l"]))
    return out


def report_absyn(rep, rule, units, floor):
    dig = common.map_units(units, _ab_digest, all_trees=True)
    n = 0
    for u in sorted(dig):
        lay = dig[u]["layouts"]
        for name, tag, mem, line in dig[u]["handlers"]:
            n += 1
            own = "ab" + tag
            bad = []
            for m_ in sorted(mem):
                if m_ in AB_GENERIC or m_ == own:
                    continue
                if own in lay and m_ in lay and lay[own] == lay[m_]:
                    rep.note("%s: %s reads its %s node through `%s`, a struct with the identical layout" % (rule, name, tag, m_))
                    continue
                bad.append(m_)
            key = "absyn-variant:%s:%s" % (u, name)
            if not bad:
                rep.ok(rule, key, nontrivial=False)
            else:
                rep.violation(rule, key, "%s:%d (%s)" % (u, mem[bad[0]], name),
                              "%s handles %s nodes but reads its node through the member `%s`, which lays the node out as a "
                              "different kind: a field of the wrong meaning (or beyond the node) is used" % (name, tag, bad[0]))
    rep.floor("AbSyn handlers named after their node kind", n, floor)
