"""C15: diagnostics point at the right place (structural part).

P1 layout of the packed position is self-consistent (constants evaluated by
   clang from the current srcpos.c);
P2 every value packed into the column field is bounded below the field width
   before the shift, so it cannot carry into the line number;
P3 the two look-ups that decode file and line search the global line table
   with the same interval test and the same rows;
P4 #line: the directive's line and file reach the fields that every position
   of include.c is built from, and the global line table is told.
"""
import os

from . import common, trees
from .common import AnalysisBroken, strip, strip_noop, walk, calls, const_value, render

EXPLANATION = (
    "P1: SPOS_* shifts/widths/masks evaluated by clang: fields adjacent (LNO_SHIFT == CNO_SHIFT + CNO_NBITS, CNO_SHIFT == "
    "MAC_SHIFT + MAC_NBITS), masks pairwise disjoint, masks plus the stack bit fill the word, END_LINE_NO fits its field, "
    "SPOS_CNO_MAX is the field maximum. P2: in srcpos.c every expansion of sposSet and the repacking in sposOffset shifts "
    "into the column field only a constant below 2^CNO_NBITS or a variable clamped by a preceding `if (v > K) v = K` "
    "(K <= field maximum, no write in between), a mask or a modulus. P3: sposFile and sposLine have equal loop headers, equal "
    "interval conditions and use the same table rows (i, gloArgc-1, 0) in corresponding returns. P4: inclHandleLine stores "
    "a value depending on its lno parameter into fileState.lineNumber and fnameParse(fname) into fileState.curFname, then "
    "calls sposGrowGloLineTbl with exactly those fields and the serial line; every sposNew in include.c takes file, line and "
    "serial line from the same three places. P5: comsgReportLine prints one source excerpt, taken from its first message, "
    "for the whole group it is given; the test that ends a group in comsgReportFile must therefore compare a key that "
    "identifies a physical line: sposGlobalLine (serial line number over all included files), or both sposFile and "
    "sposLine; sposLine or sposChar alone is a violation, any other key is reported as unknown to the rule. Not decided: which token a message is attached to.")


def var_const(facts, name):
    v = facts.var(name)
    c = const_value(v.get("init"))
    if c is None:
        raise AnalysisBroken("%s is not a constant" % name)
    return c & 0xFFFFFFFFFFFFFFFF


def p1(rep):
    f = common.extract(os.path.join(common.VERIF, "witness", "srcpos_probe.c"))
    P = f.enum_values("verif_srcpos_probe")
    mac, cno, lno, stk = (var_const(f, "verif_%s_MASK" % n) for n in ("MAC", "CNO", "LNO", "STK"))
    endl, cmax = var_const(f, "verif_END_LINE"), var_const(f, "verif_CNO_MAX")
    word = P["VP_SRCPOS_BITS"]

    def ob(key, cond, msg):
        if cond:
            rep.ok("P1", key)
        else:
            rep.violation("P1", key, "srcpos.c (layout macros)", msg)

    ob("adjacent:cno-lno", P["VP_LNO_SHIFT"] == P["VP_CNO_SHIFT"] + P["VP_CNO_NBITS"],
       "line field starts at bit %d but the column field ends at bit %d" % (P["VP_LNO_SHIFT"], P["VP_CNO_SHIFT"] + P["VP_CNO_NBITS"]))
    ob("adjacent:mac-cno", P["VP_CNO_SHIFT"] == P["VP_MAC_SHIFT"] + P["VP_MAC_NBITS"], "column field does not follow the macro bit")
    ob("mask:cno", cno == ((1 << P["VP_CNO_NBITS"]) - 1) << P["VP_CNO_SHIFT"],
       "SPOS_CNO_MASK %#x is not %d bits at shift %d" % (cno, P["VP_CNO_NBITS"], P["VP_CNO_SHIFT"]))
    ob("mask:lno", lno == ((1 << P["VP_LNO_NBITS"]) - 1) << P["VP_LNO_SHIFT"], "SPOS_LNO_MASK does not match its width/shift")
    ob("mask:mac", mac == ((1 << P["VP_MAC_NBITS"]) - 1) << P["VP_MAC_SHIFT"], "SPOS_MAC_MASK does not match its width/shift")
    ob("disjoint", (mac & cno) == 0 and (cno & lno) == 0 and (mac & lno) == 0, "field masks overlap")
    ob("fill", P["VP_LNO_SHIFT"] + P["VP_LNO_NBITS"] + P["VP_STK_NBITS"] == P["VP_WORD_BITS"] and word >= P["VP_WORD_BITS"],
       "fields plus the stack bit do not fill the word")
    ob("end-line", endl == (1 << P["VP_LNO_NBITS"]) - 1, "END_LINE_NO does not fit / is not the maximum of the line field")
    ob("cno-max", cmax == (1 << P["VP_CNO_NBITS"]) - 1, "SPOS_CNO_MAX %d is not the maximum of a %d-bit field" % (cmax, P["VP_CNO_NBITS"]))
    return P


def _cmp_var(cond, did):
    """normalise `v OP K` / `K OP v` to (op as if v were on the left, K)"""
    c = strip(cond)
    if c is None or c["k"] != "BinaryOperator" or c["op"] not in ("<", "<=", ">", ">="):
        return None
    a, b = strip(c["c"][0]), strip(c["c"][1])
    flip = {"<": ">", "<=": ">=", ">": "<", ">=": "<="}
    if a is not None and a.get("did") == did and const_value(c["c"][1]) is not None:
        return c["op"], const_value(c["c"][1])
    if b is not None and b.get("did") == did and const_value(c["c"][0]) is not None:
        return flip[c["op"]], const_value(c["c"][0])
    return None


def _single(st):
    while st is not None and st["k"] == "CompoundStmt" and len(st["c"]) == 1:
        st = st["c"][0]
    return st


def _clamp_if(st, did, limit):
    """`if (v > K) v = K2;` (either operand order) -> text when the survivors and K2 are within the limit, "bad" when not;
    `if (v < L) v = L2;` alone -> "lower"; `if (v < L) v = L2; else if (v > K) v = K2;` -> as the upper clamp when L2 is within
    the limit; anything else -> None (not a clamp)"""
    if st is None or st["k"] != "IfStmt":
        return None
    cv = _cmp_var(st["c"][0], did)
    then = _single(st["c"][1])
    els = _single(st["c"][2]) if len(st["c"]) > 2 else None
    assign = then is not None and then["k"] == "BinaryOperator" and then["op"] == "=" and strip(then["c"][0]).get("did") == did
    if cv is None or not assign:
        return None
    op, k = cv
    k2 = const_value(then["c"][1])
    if op in (">", ">="):
        if els is not None or k2 is None:
            return None
        reach = k if op == ">" else k - 1
        return ("clamped to %d by the guard at line %d" % (max(reach, k2), st["l"])) if max(reach, k2) <= limit else "bad"
    # lower clamp
    if els is None:
        return "lower"
    if k2 is None or not (0 <= k2 <= limit):
        return None
    return _clamp_if(els, did, limit)


def clamped(fn, par, use, did, limit):
    """Is the variable clamped (if (v > K) v = K', K' <= limit) by a preceding
    sibling statement with no write in between?"""
    node = use
    while True:
        p = par.get(node["id"])
        if p is None:
            return None
        if p["k"] == "CompoundStmt":
            sibs = p["c"]
            idx = [i for i, st in enumerate(sibs) if st is not None and st["id"] == node["id"]][0]
            for i in range(idx - 1, -1, -1):
                st = sibs[i]
                if st is None:
                    continue
                verdict = _clamp_if(st, did, limit)
                if verdict == "lower":
                    continue
                if verdict is not None:
                    return verdict if verdict != "bad" else None
                for x in walk(st):
                    tgt = None
                    if x["k"] in ("BinaryOperator", "CompoundAssignOperator") and x.get("op", "").endswith("=") and x["op"] not in ("==", "!=", "<=", ">="):
                        tgt = strip(x["c"][0])
                    elif x["k"] == "UnaryOperator" and x["op"] in ("++", "--", "post++", "post--"):
                        tgt = strip(x["c"][0])
                    if tgt is not None and tgt.get("did") == did:
                        return None
        node = p


def bounded(fn, par, e, use, limit):
    v = const_value(e)
    if v is not None:
        return ("constant %d" % v) if 0 <= v <= limit else None
    s = strip(e)
    if s is None:
        return None
    if s["k"] == "BinaryOperator" and s["op"] == "&":
        for m in (s["c"][0], s["c"][1]):
            mv = const_value(m)
            if mv is not None and 0 <= mv <= limit:
                return "masked with %d" % mv
    if s["k"] == "BinaryOperator" and s["op"] == "%":
        mv = const_value(s["c"][1])
        if mv is not None and 0 < mv <= limit + 1:
            return "reduced modulo %d" % mv
    if s["k"] == "DeclRefExpr" and s.get("dk") in ("var", "parm"):
        return clamped(fn, par, use, s["did"], limit)
    return None


def p2(rep, f, P):
    cshift, cbits = P["VP_CNO_SHIFT"], P["VP_CNO_NBITS"]
    limit = (1 << cbits) - 1
    n = 0
    for name, fn in f.funcs.items():
        if "body" not in fn or not fn["file"].endswith("srcpos.c"):
            continue
        par = common.parents(fn["body"])
        for x in walk(fn["body"]):
            if x["k"] != "BinaryOperator" or x["op"] != "|":
                continue
            shifts = []
            for side in x["c"]:
                s = strip(side)
                if s is not None and s["k"] == "BinaryOperator" and s["op"] == "<<" and const_value(s["c"][1]) == cshift:
                    shifts.append(s)
            if not shifts:
                continue
            if x.get("mac") not in ("sposSet",) and name != "sposOffset":
                continue     # e.g. sposMacroExpanded ORs a single bit
            for s in shifts:
                n += 1
                key = "%s:column-field" % name
                where = "srcpos.c:%d (%s)" % (x["l"], name)
                why = bounded(fn, par, s["c"][0], x, limit)
                if why:
                    rep.ok("P2", key + "@%d" % x["l"], sample={"site": where, "operand": render(s["c"][0]), "why": why})
                else:
                    rep.violation("P2", key, where,
                                  "'%s' is shifted into the %d-bit column field without being bounded by %d: a larger column "
                                  "carries into the line number and every later message of that line names the wrong line"
                                  % (render(s["c"][0]), cbits, limit))
    # global initialisers using sposSet (sposNone)
    for vname, v in f.vars.items():
        if v.get("init") is None or not v.get("file", "").endswith("srcpos.c"):
            continue
        for x in walk(v["init"]):
            if x["k"] == "BinaryOperator" and x["op"] == "|" and x.get("mac") == "sposSet":
                for side in x["c"]:
                    s = strip(side)
                    if s is not None and s["k"] == "BinaryOperator" and s["op"] == "<<" and const_value(s["c"][1]) == cshift:
                        n += 1
                        cv = const_value(s["c"][0])
                        if cv is not None and 0 <= cv <= limit:
                            rep.ok("P2", "%s:column-field" % vname)
                        else:
                            rep.violation("P2", "%s:column-field" % vname, "srcpos.c:%d" % x["l"], "column of %s not a bounded constant" % vname)
    rep.floor("packed-position constructions in srcpos.c", n, 5)


def p3(rep, f):
    a, b = f.func("sposFile"), f.func("sposLine")

    def shape(fn):
        env = trees.Env()
        out = []
        for x in walk(fn["body"]):
            if x["k"] == "ForStmt":
                out.append(("for-init", trees.norm(x["c"][0], env)))
                out.append(("for-cond", trees.norm(x["c"][1], env)))
                out.append(("for-inc", trees.norm(x["c"][2], env)))
            elif x["k"] == "IfStmt":
                out.append(("if", trees.norm(x["c"][0], env)))
        rows = []
        for r in common.find(fn["body"], "ReturnStmt"):
            idx = set()
            for s in common.find(r, "ArraySubscriptExpr"):
                base = strip(s["c"][0])
                if base is not None and base.get("n") == "gloLineTbl":
                    idx.add(trees.show(trees.norm(s["c"][1], env)))
            rows.append(tuple(sorted(idx)))
        return out, rows

    sa, ra = shape(a)
    sb, rb = shape(b)
    if not any(k == "for-cond" for k, _ in sa):
        raise AnalysisBroken("sposFile has no table-search loop any more")
    if sa == sb:
        rep.ok("P3", "search-conditions", sample={"conditions": [(k, trees.show(t)) for k, t in sa]})
    else:
        diff = [(k1, trees.show(t1), trees.show(t2)) for (k1, t1), (k2, t2) in zip(sa, sb) if t1 != t2]
        rep.violation("P3", "search-conditions", "srcpos.c:%d/%d (sposFile/sposLine)" % (a["l"], b["l"]),
                      "sposFile and sposLine search the global line table differently: %s" % (diff or "different number of tests"))
    ra2 = [r for r in ra if r]
    rb2 = [r for r in rb if r]
    # sposLine's special-position return has no table row; compare the rows of the table-search returns
    if ra2[-3:] == rb2[-3:] and len(ra2) >= 3:
        rep.ok("P3", "rows", sample={"rows": ra2})
    else:
        rep.violation("P3", "rows", "srcpos.c:%d/%d (sposFile/sposLine)" % (a["l"], b["l"]),
                      "the file and the line of a position are taken from different table rows: %s vs %s" % (ra2, rb2))


def member_path(n):
    s = strip(n)
    if s is not None and s["k"] == "MemberExpr":
        b = strip(s["c"][0])
        if b is not None and b["k"] == "DeclRefExpr":
            return "%s.%s" % (b["n"], s["n"])
    if s is not None and s["k"] == "DeclRefExpr":
        return s["n"]
    return None


def p4(rep, f):
    fn = f.func("inclHandleLine")
    pnames = {p["did"]: p["n"] for p in fn["params"]}
    if set(pnames.values()) != {"lno", "fname"}:
        raise AnalysisBroken("inclHandleLine parameters changed: %s" % sorted(pnames.values()))
    stores = {}
    for x in walk(fn["body"]):
        if x["k"] == "BinaryOperator" and x["op"] == "=":
            mp = member_path(x["c"][0])
            if mp:
                deps = set(y["n"] for y in walk(x["c"][1]) if y["k"] == "DeclRefExpr" and y.get("dk") == "parm")
                stores.setdefault(mp, set()).update(deps)
    where = "include.c:%d (inclHandleLine)" % fn["l"]
    for field, parm in (("fileState.lineNumber", "lno"), ("fileState.curFname", "fname")):
        if parm in stores.get(field, set()):
            rep.ok("P4", "store:" + field)
        else:
            rep.violation("P4", "store:" + field, where, "#line: %s is not set from the directive's %s" % (field, parm))
    grow = calls(fn["body"], "sposGrowGloLineTbl")
    want = ["fileState.curFname", "fileState.lineNumber", "inclSerialLineNo"]
    if grow and [member_path(a) for a in grow[0]["c"][1:4]] == want:
        rep.ok("P4", "line-table-told")
    else:
        rep.violation("P4", "line-table-told", where,
                      "#line: sposGrowGloLineTbl must be called with (%s) so that sposLine/sposFile decode the renumbered "
                      "position" % ", ".join(want))
    # every renumbering reaches the line table: from the store to fileState.lineNumber every path to the exit passes the call
    fc = common.extract("include.c", cfg=["inclHandleLine"])
    cfg = common.CFG(fc.func("inclHandleLine"))

    def is_line_store(nd):
        return nd["k"] == "BinaryOperator" and nd["op"] == "=" and member_path(nd["c"][0]) == "fileState.lineNumber"
    ev = cfg.events(is_line_store)
    if not ev:
        raise AnalysisBroken("inclHandleLine: the store to fileState.lineNumber is not in the CFG")
    esc = None
    for b, j, _ in ev:
        esc = esc or cfg.path_avoiding(b, None, lambda nd: nd["k"] == "CallExpr" and nd.get("callee") == "sposGrowGloLineTbl", src_idx=j)
    if esc is None:
        rep.ok("P4", "line-table-told-on-every-path")
    else:
        rep.violation("P4", "line-table-told-on-every-path", where,
                      "#line: after the line number has been changed a path leaves inclHandleLine without sposGrowGloLineTbl (for example "
                      "a directive without a file name): later positions decode to the physical line, not the renumbered one",
                      detail={"cfg_path": esc[:10]})
    n = 0
    for name, g in f.funcs.items():
        if "body" not in g or not g["file"].endswith("include.c"):
            continue
        for c in calls(g["body"], "sposNew"):
            n += 1
            got = [member_path(a) for a in c["c"][1:4]]
            key = "sposNew:%s@%d" % (name, n)
            if got == want:
                rep.ok("P4", key, nontrivial=False)
            else:
                rep.violation("P4", "sposNew:%s" % name, "include.c:%d (%s)" % (c["l"], name),
                              "a position is built from (%s) instead of the current file/line/serial-line fields" % got)
    rep.floor("sposNew calls in include.c", n, 3)


def p6(rep):
    """inclFile switches the include state (file, directory, line 0) to the file it is about to read.  A message about the
    *directive* (file not found, circular include) is positioned by inclError from the current state, so the saved state of the
    including file must be back in place before it: otherwise the error names line 0 of the included file."""
    f = common.extract("include.c", trees=["inclFile"], cfg=["inclFile"])
    fn = f.func("inclFile")
    cfg = common.CFG(fn)
    where = "include.c:%d (inclFile)" % fn["l"]

    def whole(n, lhs_global):
        if n["k"] != "BinaryOperator" or n["op"] != "=":
            return None
        a, b = strip(n["c"][0]), strip(n["c"][1])
        if a is None or b is None or a["k"] != "DeclRefExpr" or b["k"] != "DeclRefExpr":
            return None
        g, l = (a, b) if lhs_global else (b, a)
        if g["n"] == "fileState" and g.get("g") and not l.get("g"):
            return l["n"]
        return None
    saves = cfg.events(lambda n: whole(n, False) is not None)
    if len(saves) != 1:
        raise AnalysisBroken("inclFile: expected one `saved = fileState`, found %d" % len(saves))
    sb, sj, sn = saves[0]
    saved = whole(sn, False)

    def is_restore(n):
        return whole(n, True) == saved

    def is_switch(n):
        return n["k"] == "BinaryOperator" and n["op"] == "=" and (member_path(n["c"][0]) or "").startswith("fileState.")
    switches = cfg.events(is_switch)
    if not switches:
        raise AnalysisBroken("inclFile: no store to a field of fileState")
    errs = cfg.events(lambda n: n["k"] == "CallExpr" and n.get("callee") == "inclError")
    rep.floor("inclError calls in inclFile", len(errs), 2)
    esc = None
    for b, j, _ in switches:
        esc = esc or cfg.path_avoiding(b, lambda n: n["k"] == "CallExpr" and n.get("callee") == "inclError", is_restore, src_idx=j)
    if esc is None:
        rep.ok("P6", "directive-error-at-includer")
    else:
        rep.violation("P6", "directive-error-at-includer", where,
                      "after inclFile has switched fileState to the file being included, a path reaches inclError without "
                      "`fileState = %s`: the message about the #include directive is positioned in the included file (line 0), not at "
                      "the directive" % saved, detail={"cfg_path": esc[:12]})
    # and the state is restored on the way out
    esc = None
    for b, j, _ in switches:
        esc = esc or cfg.path_avoiding(b, None, is_restore, src_idx=j)
    if esc is None:
        rep.ok("P6", "state-restored-at-exit")
    else:
        rep.violation("P6", "state-restored-at-exit", where,
                      "inclFile can return with fileState still describing the included file: every later position in the including "
                      "file is attributed to the wrong file and line", detail={"cfg_path": esc[:12]})


def p7(rep, f):
    """A position packs the global line number above the 14-bit column: `line << 15`.  The shift must be evaluated in the width of
    the packed word: computed in int it overflows from line 65536 on and the sign-extended result decodes to a negative line."""
    n = 0
    for name, fn in sorted(f.funcs.items()):
        if "body" not in fn or not fn.get("file", "").endswith("srcpos.c"):
            continue
        for x in walk(fn["body"]):
            if x["k"] == "BinaryOperator" and x["op"] == "<<" and x.get("mac") == "sposSet" and const_value(x["c"][0]) is None \
                    and (const_value(x["c"][1]) or 0) >= 15:
                n += 1
                key = "pack-shift-wide:%s@%d" % (name, n)
                if x.get("tc") in ("i64", "u64"):
                    rep.ok("P7", key)
                else:
                    rep.violation("P7", "pack-shift-wide:%s" % name, "srcpos.c:%d (%s)" % (x["l"], name),
                                  "`%s` is evaluated in %s: the packed position has 48 bits for the line, but a line number of "
                                  "65536 or more overflows the narrow shift and diagnostics beyond that line carry a garbage "
                                  "(negative) line number" % (common.render(x)[:50], x.get("tc")))
    rep.floor("line-number packing shifts in srcpos.c", n, 1)


LINE_KEYS_INJECTIVE = {"sposGlobalLine"}           # serial number of the physical line over all included files
LINE_KEYS_PARTIAL = {"sposLine", "sposChar"}       # line within one file / column: equal for different physical lines


def p5(rep):
    """Messages printed under one source excerpt are on one physical line."""
    f = common.extract("comsg.c", trees=["comsgReportFile", "comsgReportLine"])
    fl = f.func("comsgReportLine")
    heads = [c for c in common.calls(fl["body"], "comsgPrintLine")]
    if len(heads) != 1 or "[0]" not in common.render(heads[0]["c"][2]):
        raise AnalysisBroken("comsgReportLine no longer prints one excerpt taken from its first message")
    fn = f.func("comsgReportFile")
    par = common.parents(fn["body"])
    groups = [c for c in common.calls(fn["body"], "comsgReportLine")]
    if len(groups) != 1:
        raise AnalysisBroken("comsgReportFile: expected one call of comsgReportLine")
    # the loop that extends a group: a for statement whose body breaks on a comparison
    outer = par.get(groups[0]["id"])
    while outer is not None and outer["k"] != "ForStmt":
        outer = par.get(outer["id"])
    if outer is None:
        raise AnalysisBroken("comsgReportFile: grouping loop not found")
    keys, tests = set(), 0
    for x in common.walk(outer["c"][3]):
        if x["k"] == "IfStmt" and any(y["k"] == "BreakStmt" for y in common.walk(x["c"][1])):
            tests += 1
            for c in common.calls(x["c"][0]):
                keys.add(c.get("callee"))
            # a variable compared: the key it was assigned from
            for v in common.walk(x["c"][0]):
                if v["k"] == "DeclRefExpr" and v.get("dk") == "var":
                    for a in common.walk(outer["c"][3]):
                        if a["k"] == "BinaryOperator" and a["op"] == "=" and common.strip(a["c"][0]) is not None \
                                and common.strip(a["c"][0]).get("did") == v.get("did"):
                            for c in common.calls(a["c"][1]):
                                keys.add(c.get("callee"))
    keys.discard(None)
    where = "comsg.c:%d (comsgReportFile)" % outer["l"]
    if tests != 1 or not keys:
        raise AnalysisBroken("comsgReportFile: the test that ends a group of messages was not recognised")
    if keys & LINE_KEYS_INJECTIVE or {"sposFile", "sposLine"} <= keys:
        rep.ok("P5", "group-key-identifies-line", sample={"keys": sorted(keys)})
    elif keys <= LINE_KEYS_PARTIAL | {"sposFile"}:
        rep.violation("P5", "group-key-identifies-line", where,
                      "consecutive messages are grouped under one `\"file\", line N: text` excerpt when %s agree; that does not "
                      "identify a physical line (same line number in an included file or after #line), so a message is shown "
                      "under another file's name and text" % sorted(keys))
    else:
        raise AnalysisBroken("comsgReportFile groups messages by %s, which this rule does not know" % sorted(keys))


def p9(rep):
    """A position packs the GLOBAL (serial) line number; sposLine/sposFile decode it through the line table as
    `file line = table.flno + (global - table.glno)`, which is right only while the file's own line counter and the serial counter
    advance together between two table entries.  In include.c every increment of `fileState.lineNumber` is therefore followed, on
    every path to the function's exit, by an increment of `inclSerialLineNo` (and conversely): a physical line that advances one
    counter and not the other -- a line skipped by #if, say -- shifts every later diagnostic of the file."""
    f = common.extract("include.c", all_trees=True, all_cfg=True)

    def inc_of(what):
        def pred(n):
            if n["k"] == "UnaryOperator" and n["op"] in ("++", "post++"):
                t = strip(n["c"][0])
            elif n["k"] == "CompoundAssignOperator" and n["op"] == "+=" and const_value(n["c"][1]) == 1:
                t = strip(n["c"][0])
            else:
                return False
            if t is None:
                return False
            if what == "file":
                return t["k"] == "MemberExpr" and t["n"] == "lineNumber"
            return t["k"] == "DeclRefExpr" and t["n"] == "inclSerialLineNo"
        return pred
    n = 0
    for name, fn in sorted(f.funcs.items()):
        if "body" not in fn or not fn.get("file", "").endswith("include.c"):
            continue
        if not any(inc_of("file")(x) or inc_of("serial")(x) for x in walk(fn["body"])):
            continue
        cfg = common.CFG(fn)
        for a, b, txt in (("file", "serial", "the file's line counter advances but the serial line number may not"),
                          ("serial", "file", "the serial line number advances but the file's line counter may not")):
            for bb, bj, node in cfg.events(inc_of(a)):
                n += 1
                key = "line-counters-in-step:%s:%s" % (name, a)
                # the partner either follows on every path, or precedes it in the same straight-line run
                after = cfg.path_avoiding(bb, None, inc_of(b), src_idx=bj) is None
                before = any(inc_of(b)(e) for e in cfg.elems(bb)[:bj])
                if after or before:
                    rep.ok("P9", key)
                else:
                    rep.violation("P9", key, "include.c:%d (%s)" % (node["l"], name),
                                  "%s: positions are decoded as table line + (global - table global), so every later diagnostic of "
                                  "the file is reported as many lines too early as there were such lines (the excerpt shown is the "
                                  "wrong text too), until the next #include return or #line" % txt)
    rep.floor("line-counter increments in include.c", n, 2)


def p11(rep):
    """The global line table maps a run of global line numbers to one file.  sposNew starts a new run when the file of the line
    it is given is not the file of the last run -- that is the only way the return from an #include (or a #line naming another
    file) is noticed, and the file name must be compared for it: line numbers that run on prove nothing (the included file's
    last line may have the number of the directive's line).  On the CFG of sposNew every path from the entry to the creation
    of the position (sposSet) passes the comparison of the file names (fnameEqual) or starts a new run (sposGrowGloLineTbl)."""
    f = common.extract("srcpos.c", trees=["sposNew"], cfg=["sposNew"])
    fn = f.func("sposNew")
    cfg = common.CFG(fn)
    is_set = lambda e: e["k"] == "CallExpr" and e.get("callee") == "sposSet" or (e.get("mac") == "sposSet" and e["k"] in ("BinaryOperator", "ParenExpr"))
    decided = lambda e: e["k"] == "CallExpr" and e.get("callee") in ("fnameEqual", "sposGrowGloLineTbl")
    rets = [r for _, _, r in cfg.return_blocks() if r.get("c") and r["c"][0] is not None and any(is_set(y) for y in walk(r["c"][0]))]
    if not rets or not cfg.events(decided):
        raise AnalysisBroken("sposNew: the return of sposSet(..) or the file-name comparison was not found")
    n = 0
    for r in rets:
        n += 1
        p = cfg.path_avoiding(cfg.entry, lambda e, r=r: e is r, decided)
        if p is None:
            rep.ok("P11", "new-run-decided-by-file-name@%d" % n)
        else:
            rep.violation("P11", "new-run-decided-by-file-name", "srcpos.c:%d (sposNew)" % r["l"],
                          "a position is created on a path that neither compares the file name of the line with that of the last "
                          "run nor starts a new run: when an #include returns to a line whose numbers happen to run on from the "
                          "included file's last line, the includer's lines stay attributed to the included file -- right line "
                          "number, wrong file", detail={"cfg_path": p[:10]})


def p12(rep):
    """A run of the global line table stands for three things: a file, a first global line, and the offset between global and
    local line numbers (sposLine decodes `flno0 + (glno - glno0)`).  sposNew is handed all three for the line it makes a
    position for, and starts a new run when the last one does not cover the line.  The test must therefore look at the local
    line as well: a line of the *same* file that does not continue the run's offset -- the includer's next line after an
    included file that named the includer in a `#line` -- otherwise decodes to a wrong line number.  The condition under which
    sposNew calls sposGrowGloLineTbl mentions its local-line parameter and the run's flno."""
    f = common.extract("srcpos.c", trees=["sposNew"])
    fn = f.func("sposNew")
    params = [p_["n"] for p_ in fn.get("params", [])]
    if len(params) < 3:
        raise AnalysisBroken("sposNew no longer takes (file, local line, global line, column)")
    flno = params[1]
    conds = []
    for x in walk(fn["body"]):
        if x["k"] == "IfStmt" and calls(x["c"][1], "sposGrowGloLineTbl"):
            conds.append(x)
    # the innermost condition is the test itself
    conds = [x for x in conds if not any(y is not x and any(z is y for z in walk(x["c"][1])) for y in conds)]
    if len(conds) != 1:
        raise AnalysisBroken("sposNew: expected one guarded call of sposGrowGloLineTbl, found %d" % len(conds))
    cond = conds[0]["c"][0]
    # locals that hold the run's flno
    holders = set()
    for x in walk(fn["body"]):
        if x["k"] == "BinaryOperator" and x["op"] == "=" and (strip(x["c"][0]) or {}).get("k") == "DeclRefExpr":
            if any(y["k"] == "MemberExpr" and y["n"] == "flno" for y in walk(x["c"][1])):
                holders.add(strip(x["c"][0])["n"])
    uses_param = any(y["k"] == "DeclRefExpr" and y["n"] == flno for y in walk(cond))
    uses_run = any((y["k"] == "MemberExpr" and y["n"] == "flno") or (y["k"] == "DeclRefExpr" and y["n"] in holders) for y in walk(cond))
    if uses_param and uses_run:
        rep.ok("P12", "new-run-when-offset-breaks")
    else:
        rep.violation("P12", "new-run-when-offset-breaks", "srcpos.c:%d (sposNew)" % conds[0]["l"],
                      "the test for starting a new run of the line table compares the file and the global line only: a line of "
                      "the same file whose local number does not continue the run (after an included file that ends in "
                      "`#line N \"<includer>\"`) is decoded with the old offset -- right file, wrong line number in every later "
                      "diagnostic of the includer")


def p13(rep):
    """A position is made from a pair (local line, global line) of the *same* line.  While a file is read, fileState.lineNumber
    and inclSerialLineNo advance together (P9), so the pair is always current.  When an include returns, inclFile restores
    fileState -- the local line goes back to the directive's line -- while the global counter keeps the number of the included
    file's last line: until both have been stepped again the two do not belong to one line.  Handing them to sposNew /
    sposGrowGloLineTbl at that point claims the included file's last line for the includer (a diagnostic there is reported at
    the #include line).  In include.c no call that is given both counters is reachable from a restore `fileState = <saved>`
    without passing an increment of inclSerialLineNo."""
    f = common.extract("include.c", all_trees=True, all_cfg=True)
    n = 0
    for name, fn in sorted(f.funcs.items()):
        if "body" not in fn or not fn.get("file", "").endswith("include.c") or not fn.get("cfg"):
            continue
        restores = [x for x in walk(fn["body"]) if x["k"] == "BinaryOperator" and x["op"] == "=" and
                    (strip(x["c"][0]) or {}).get("k") == "DeclRefExpr" and strip(x["c"][0])["n"] == "fileState" and
                    (strip(x["c"][1]) or {}).get("k") == "DeclRefExpr"]
        if not restores:
            continue
        cfg = common.CFG(fn)

        def pair_call(e):
            if e["k"] != "CallExpr":
                return False
            txt = [y for a in e["c"][1:] for y in walk(a)]
            return any(y["k"] == "MemberExpr" and y["n"] == "lineNumber" for y in txt) and \
                any(y["k"] == "DeclRefExpr" and y["n"] == "inclSerialLineNo" for y in txt)

        def steps(e):
            return e["k"] == "UnaryOperator" and e["op"] in ("++", "post++") and (strip(e["c"][0]) or {}).get("n") == "inclSerialLineNo"
        for r in restores:
            ev = cfg.events(lambda e: e.get("id") == r["id"])
            if not ev:
                raise AnalysisBroken("%s: the restore of fileState is not in the CFG" % name)
            b, i, _ = ev[0]
            n += 1
            p = cfg.path_avoiding(b, pair_call, steps, src_idx=i)
            key = "counters-paired-after-restore:%s" % name
            if p is None:
                rep.ok("P13", key + "@%d" % r["l"])
            else:
                rep.violation("P13", key, "include.c:%d (%s)" % (r["l"], name),
                              "after `%s` the local line is the #include directive's, the global line still the included file's "
                              "last: a call given both reaches the line table with a pair that belongs to no single line, so the "
                              "last line of the included file decodes as the includer's #include line" % render(r)[:40],
                              detail={"cfg_path": p[:10]})
    rep.floor("restores of the reader's state in include.c", n, 1)


def p14(rep):
    """The column of a token is the tab-expanded column the scanner keeps in scLineChar while it steps through the line.
    Stepping onto a character moves the column forward: by one for an ordinary character, to the last cell before the next tab
    stop for a TAB -- which is 8 cells further when the TAB itself starts on a tab stop.  A formula that gives such a TAB no
    width (`ROUND_UP(c+1, 8) - 1` is c when c+1 is already a multiple of 8) reports every later token of the line 8 columns
    too far left, while the excerpt printed under the message expands the tab properly.  The TAB branch of scAdvance0 is
    evaluated for every column 0..63 (rules/peval.py): the new column is larger than the old one and is the cell before a
    tab stop."""
    from .peval import peval
    f = common.extract("scan.c", all_trees=True)
    branch = None
    for fn in f.funcs.values():
        if "body" not in fn or branch is not None:
            continue
        for x in walk(fn["body"]):
            if x["k"] == "IfStmt" and (x.get("mac") == "scAdvance0" or any((y.get("mac") == "scAdvance0") for y in walk(x["c"][0]))):
                c = strip(x["c"][0])
                if c is not None and c["k"] == "BinaryOperator" and c["op"] in ("==", "!=") and const_value(c["c"][1]) == 9 and \
                        any(y["k"] == "DeclRefExpr" and y["n"] == "scLine" for y in walk(c["c"][0])):
                    # `!= '\t'` with the branches exchanged is the same test
                    tab_side = x["c"][1] if c["op"] == "==" else (x["c"][2] if len(x["c"]) > 2 else None)
                    if tab_side is not None:
                        branch = dict(x, c=[x["c"][0], tab_side])
                    break
    if branch is None:
        raise AnalysisBroken("scan.c: the TAB branch of scAdvance0 was not found")
    tabstop = None
    for y in walk(branch["c"][1]):
        if (y.get("imac") or y.get("mac")) == "TABSTOP" and const_value(y) is not None:
            tabstop = const_value(y)
    if not tabstop:
        raise AnalysisBroken("scan.c: TABSTOP could not be read")

    def run(st, env):
        if st is None:
            return
        k = st["k"]
        if k == "CompoundStmt":
            for c in st["c"]:
                run(c, env)
        elif k == "IfStmt":
            v = peval(st["c"][0], env)
            if v is None:
                raise AnalysisBroken("scan.c: a condition in the TAB branch is not a function of the column")
            run(st["c"][1] if v else (st["c"][2] if len(st["c"]) > 2 else None), env)
        elif k in ("BinaryOperator", "CompoundAssignOperator") and st["op"] in ("=", "+=", "-=") and (strip(st["c"][0]) or {}).get("n") == "scLineChar":
            v = peval(st["c"][1], env)
            if v is None:
                raise AnalysisBroken("scan.c: the new column in the TAB branch is not a function of the old one")
            env["scLineChar"] = v if st["op"] == "=" else env["scLineChar"] + (v if st["op"] == "+=" else -v)
        elif k == "UnaryOperator" and st["op"] in ("++", "post++") and (strip(st["c"][0]) or {}).get("n") == "scLineChar":
            env["scLineChar"] += 1
        elif k in ("ParenExpr", "NullStmt"):
            if k == "ParenExpr":
                run(st["c"][0], env)
        else:
            raise AnalysisBroken("scan.c: statement kind %s in the TAB branch" % k)
    bad = []
    for c in range(0, 8 * tabstop):
        env = {"scLineChar": c}
        run(branch["c"][1], env)
        n = env["scLineChar"]
        if not (n > c and (n + 1) % tabstop == 0 and n - c <= tabstop):
            bad.append((c, n))
    if not bad:
        rep.ok("P14", "a-tab-has-a-width", sample={"columns evaluated": 8 * tabstop, "tab stop": tabstop})
    else:
        c, n = bad[0]
        rep.violation("P14", "a-tab-has-a-width", "scan.c:%d (scAdvance0)" % branch["l"],
                      "a TAB met at column %d leaves the column at %d (%d of %d columns evaluated are wrong): the tab has no width "
                      "there, so every later token of the line is reported %d columns too far left, while the quoted source line "
                      "expands the tab" % (c, n, len(bad), 8 * tabstop, tabstop))


def p10(rep):
    """sposNew starts a new line-table segment -- which is what makes a message name the file it is in -- when the file name of
    the next line differs from the previous entry's (fnameEqual -> osFnameDirEqual for the directory parts).  osFnameDirEqual
    ignores leading "." components.  It must ignore a dot only when it IS a component: a step over a leading FCURDIR character
    has to be conditional on the character after it (end of string or a separator), otherwise "../" and ".x/" lose their first
    character too, "../foo.as" equals "foo.as", and an included file of the same name in the parent directory gets no segment:
    its diagnostics carry the includer's name and a wrong line."""
    f = common.extract("opsys.c", trees=["osFnameDirEqual"])
    fn = f.func("osFnameDirEqual")
    par = common.parents(fn["body"])
    params = [p_["n"] for p_ in fn["params"]]
    n = 0
    for x in walk(fn["body"]):
        if not (x["k"] == "UnaryOperator" and x["op"] in ("++", "post++")):
            continue
        v = strip(x["c"][0])
        if v is None or v["k"] != "DeclRefExpr" or v["n"] not in params:
            continue
        conds = []
        cur = x
        while cur["id"] in par:
            p_ = par[cur["id"]]
            if p_["k"] in ("IfStmt", "WhileStmt") and p_["c"][0] is not cur and not any(y is cur for y in walk(p_["c"][0])):
                conds.append(p_["c"][0])
            cur = p_

        def tests_first_dot(c):
            for y in walk(c):
                if y["k"] == "BinaryOperator" and y["op"] == "==" and const_value(y["c"][1]) == ord("."):
                    l = strip(y["c"][0])
                    if l is not None and ((l["k"] == "UnaryOperator" and l["op"] == "*" and (strip(l["c"][0]) or {}).get("n") == v["n"]) or
                                          (l["k"] == "ArraySubscriptExpr" and (strip(l["c"][0]) or {}).get("n") == v["n"] and const_value(l["c"][1]) == 0)):
                        return True
            return False

        def tests_next(c):
            for y in walk(c):
                if y["k"] == "ArraySubscriptExpr" and (strip(y["c"][0]) or {}).get("n") == v["n"] and const_value(y["c"][1]) == 1:
                    return True
                if y["k"] == "UnaryOperator" and y["op"] == "*":
                    inner = strip(y["c"][0])
                    if inner is not None and inner["k"] == "BinaryOperator" and inner["op"] == "+" and \
                            (strip(inner["c"][0]) or {}).get("n") == v["n"] and const_value(inner["c"][1]) == 1:
                        return True
            return False
        # only the step that skips the dot itself (the innermost enclosing condition tests the first character)
        if not conds or not tests_first_dot(conds[0]):
            continue
        n += 1
        key = "curdir-component-only:%s" % v["n"]
        if any(tests_next(c) for c in conds):
            rep.ok("P10", key)
        else:
            rep.violation("P10", key, "opsys.c:%d (osFnameDirEqual)" % x["l"],
                          "a leading `.` of %s is skipped without looking at the character after it: `../` and `.x/` are stripped as "
                          "well, so \"../\", \"./\" and \"\" are the same directory and `../foo.as` included from `foo.as` is taken for "
                          "the same file: no new line-table segment is started, its diagnostics carry the includer's name and line "
                          "numbers that run on" % v["n"])
    rep.floor("steps over a leading current-directory marker", n, 2)


def run(tier, only=None):
    rep = common.Report("C15", tier, EXPLANATION)
    P = p1(rep)
    f = common.extract("srcpos.c", all_trees=True)
    p2(rep, f, P)
    p3(rep, f)
    try:
        p7(rep, f)
    except AnalysisBroken as e:
        if not rep.violations:          # a layout violation already reported by P1/P2 explains a vanished packing shift
            raise
        rep.note("P7 not evaluated: %s" % e)
    fi = common.extract("include.c", all_trees=True)
    p4(rep, fi)
    p5(rep)
    p6(rep)
    p9(rep)
    p10(rep)
    p11(rep)
    p12(rep)
    p13(rep)
    p14(rep)
    rep.analysed_count("translation units", 3)
    return rep
