"""A computed word that is overwritten before anyone looks at it.

In straight-line arithmetic over words (the double-word and big-integer primitives) every assignment computes a piece of the
result.  `x = E1; ...; x = E2;` in one statement list with no read of x between the two -- not in an operand, not through a
macro, not by address -- means the first piece was meant for another variable: the classic slip is the high half of a quotient
stored into the low half's variable and then overwritten (the high word is lost and reported as 0).

Instances: every pair of consecutive plain assignments to the same local in one statement list of the units given, the first
not an initialisation to a constant.  Rule: something reads the variable between them.
"""
from . import common
from .common import walk, strip, render, const_value


def _assigned_var(st):
    """name of the local a statement assigns by plain `=` at top level (also inside a macro block of one assignment)"""
    if st is None:
        return None
    if st["k"] == "BinaryOperator" and st["op"] == "=":
        l = strip(st["c"][0])
        if l is not None and l["k"] == "DeclRefExpr" and l.get("dk") in ("var", None) :
            return l["n"]
    return None


def _reads(st, var, skip_lhs_of=None):
    for y in walk(st):
        if y["k"] == "DeclRefExpr" and y["n"] == var:
            if skip_lhs_of is not None and y is strip(skip_lhs_of["c"][0]):
                continue
            return True
    return False


def digest(f):
    base = f.unit.split("/")[-1]
    out = []
    for name, fn in f.funcs.items():
        if "body" not in fn or not fn.get("file", "").endswith(base):
            continue
        locs = set()
        for x in walk(fn["body"]):
            if x["k"] == "DeclStmt":
                for d in x.get("decls", []):
                    if not d.get("static"):
                        locs.add(d["n"])
        for blk in walk(fn["body"]):
            if blk["k"] != "CompoundStmt":
                continue
            sts = [s for s in blk["c"] if s is not None]
            last = {}            # var -> (index, stmt) of a pending unread assignment
            for i, st in enumerate(sts):
                v = _assigned_var(st)
                # reads in this statement (the right-hand side of its own assignment included)
                for var in list(last):
                    if _reads(st, var, skip_lhs_of=st if v == var else None):
                        del last[var]
                if st["k"] not in ("BinaryOperator", "CompoundStmt", "DeclStmt", "NullStmt", "CallExpr", "UnaryOperator", "CompoundAssignOperator"):
                    last = {}                  # control flow: give up on what is pending
                    continue
                if v is not None and v in locs:
                    if v in last:
                        j, prev = last[v]
                        if const_value(prev["c"][1]) is None:
                            out.append((name, prev["l"], st["l"], v, render(prev)[:60]))
                    last[v] = (i, st)
    return out


def report(rep, rule, units, config="runtime", floor_units=1):
    dig = common.map_units(list(units), digest, config, all_trees=True)
    n = 0
    for u in sorted(dig):
        base = u.split("/")[-1]
        for fn, l1, l2, var, txt in dig[u]:
            n += 1
            rep.violation(rule, "computed-word-read-before-overwritten:%s:%s:%s" % (base, fn, var), "%s:%d (%s)" % (base, l1, fn),
                          "`%s` is overwritten at line %d before anything reads it: the word computed here is lost (in the "
                          "double-word division: the high word of the quotient, reported as 0 for divisors below 2^32)" % (txt, l2))
    rep.floor("units scanned for overwritten words", len(dig), floor_units)
    if n == 0:
        rep.ok(rule, "computed-word-read-before-overwritten:none", sample={"units": sorted(dig)})
    return n
