"""Possible-value evaluation of small decision functions of a node's tag.

Many decisions in the compiler have the shape

    Bool f(Foam x, int k) { if (k < 0) return false; if (TAGTEST(x)) return true; ... switch (foamTag(x)) {...} ... }

For a FIXED tag of the argument (and fixed values of some integer parameters)
the set of values the function can return is computable from the AST: tests of
the tag are decided, calls of other local decision functions on the same
argument are evaluated recursively, everything else is *unknown* and makes
both continuations possible.  The result is the set of possible return
values; `None` in the set means "a value the evaluator cannot determine".

The evaluator never runs the repository's code; it walks the function's
syntax tree.  Loops and statements it does not model are skipped, and
variables they may write become unknown.
"""
from .common import strip, walk, const_value, switch_cases, render
from .peval import peval

UNKNOWN = None


class TagEval:
    def __init__(self, facts, tag_value, tag_macro_names=("foamTag",), max_depth=4):
        self.f = facts
        self.tag = tag_value
        self.max_depth = max_depth

    # ---- expressions -------------------------------------------------------
    def _is_tag_read(self, n, pname):
        """foamTag(p) expands to (p)->hdr.tag"""
        s = strip(n)
        if s is None or s["k"] != "MemberExpr" or s["n"] != "tag":
            return False
        t = render(s).replace(" ", "")
        return t.endswith("hdr.tag") and ("(%s)" % pname in t or t.startswith(pname + "->") or "(%s->" % pname in t)

    def expr(self, n, env, pname, depth):
        def lookup(node, env_):
            if self._is_tag_read(node, pname):
                return self.tag
            if node["k"] == "CallExpr":
                cal = node.get("callee")
                g = self.f.funcs.get(cal)
                args = node["c"][1:]
                if g is not None and "body" in g and depth < self.max_depth and args:
                    a0 = strip(args[0])
                    if a0 is not None and a0["k"] == "DeclRefExpr" and a0["n"] == pname and g.get("params"):
                        sub_env = {}
                        for p_, a in zip(g["params"][1:], args[1:]):
                            v = peval(a, env_, lookup)
                            if v is not None:
                                sub_env[p_["n"]] = v
                        vals = self.run(cal, sub_env, depth + 1)
                        if len(vals) == 1 and UNKNOWN not in vals:
                            return next(iter(vals))
                return None
            return None
        return peval(n, env, lookup)

    # ---- statements --------------------------------------------------------
    def run(self, fname, env=None, depth=0):
        fn = self.f.funcs.get(fname)
        if fn is None or "body" not in fn or not fn.get("params"):
            return {UNKNOWN}
        pname = fn["params"][0]["n"]
        env = dict(env or {})
        out = set()
        self._block(fn["body"]["c"], env, pname, depth, out)
        return out or {UNKNOWN}

    def _block(self, stmts, env, pname, depth, out):
        """executes stmts; returns 'fall' | 'return' | 'break'; adds returned values to out"""
        for i, st in enumerate(stmts):
            if st is None:
                continue
            k = st["k"]
            if k == "CompoundStmt":
                r = self._block(st["c"], env, pname, depth, out)
                if r != "fall":
                    return r
            elif k == "ReturnStmt":
                v = self.expr(st["c"][0], env, pname, depth) if st.get("c") and st["c"][0] is not None else 0
                out.add(v)
                return "return"
            elif k == "BreakStmt":
                return "break"
            elif k == "DeclStmt":
                for d in st.get("decls", []):
                    if d.get("init") is not None:
                        v = self.expr(d["init"], env, pname, depth)
                        if v is not None:
                            env[d["n"]] = v
                        else:
                            env.pop(d["n"], None)
            elif k == "IfStmt":
                c = self.expr(st["c"][0], env, pname, depth)
                then_, else_ = st["c"][1], st["c"][2] if len(st["c"]) > 2 else None
                if c is None:
                    # both continuations are possible
                    rest = stmts[i + 1:]
                    e1, e2 = dict(env), dict(env)
                    r1 = self._block([then_], e1, pname, depth, out)
                    if r1 == "fall":
                        r1 = self._block(rest, e1, pname, depth, out)
                    r2 = self._block([else_] if else_ is not None else [], e2, pname, depth, out)
                    if r2 == "fall":
                        r2 = self._block(rest, e2, pname, depth, out)
                    if r1 == r2:
                        return r1
                    return "return" if "fall" not in (r1, r2) else "fall"
                br = then_ if c else else_
                if br is not None:
                    r = self._block([br], env, pname, depth, out)
                    if r != "fall":
                        return r
            elif k == "SwitchStmt":
                sel = self.expr(st["c"][0], env, pname, depth)
                groups = switch_cases(st)
                if sel is None:
                    rest = stmts[i + 1:]
                    for g in groups:
                        e1 = dict(env)
                        r = self._block(g["stmts"], e1, pname, depth, out)
                        if r in ("fall", "break"):
                            self._block(rest, e1, pname, depth, out)
                    return "return"
                chosen = None
                for g in groups:
                    if any(l[1] == sel for l in g["labels"] if l[0] != "default"):
                        chosen = g
                if chosen is None:
                    for g in groups:
                        if any(l[0] == "default" for l in g["labels"]):
                            chosen = g
                if chosen is not None:
                    # fall-through between groups is not modelled: the repository's decision switches end every group
                    r = self._block(chosen["stmts"], env, pname, depth, out)
                    if r == "return":
                        return r
            elif k in ("ForStmt", "WhileStmt", "DoStmt"):
                for x in walk(st):
                    if x["k"] in ("BinaryOperator", "CompoundAssignOperator") and x["op"].endswith("=") and x["op"] not in ("==", "!=", "<=", ">="):
                        l = strip(x["c"][0])
                        if l is not None and l["k"] == "DeclRefExpr":
                            env.pop(l["n"], None)
                    if x["k"] == "ReturnStmt":
                        out.add(UNKNOWN)
            elif k == "BinaryOperator" and st["op"] == "=":
                l = strip(st["c"][0])
                if l is not None and l["k"] == "DeclRefExpr":
                    v = self.expr(st["c"][1], env, pname, depth)
                    if v is not None:
                        env[l["n"]] = v
                    else:
                        env.pop(l["n"], None)
            else:
                # expression statements, macros expanding to loops, ...: forget what they may assign
                for x in walk(st):
                    if x["k"] in ("BinaryOperator", "CompoundAssignOperator") and x["op"].endswith("=") and x["op"] not in ("==", "!=", "<=", ">="):
                        l = strip(x["c"][0])
                        if l is not None and l["k"] == "DeclRefExpr":
                            env.pop(l["n"], None)
                    if x["k"] == "ReturnStmt":
                        out.add(UNKNOWN)
        return "fall"
