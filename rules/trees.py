"""Normalised expression trees (DESIGN.md appendix A) and the fixed rewrite
list used to compare the copies of a builtin's definition.

T ::= ('arg',k) | ('int',n) | ('flt',s) | ('str',s) | ('sym',NAME)
    | ('un',op,T) | ('bin',op,T,T) | ('cast',cls,T) | ('call',NAME,T...)
    | ('cond',T,T,T) | ('mem',NAME,T) | ('idx',T,T) | ('addr',T) | ('deref',T)
    | ('opaque',why)
"""
from .common import AnalysisBroken

INT_WIDTH = {"u1": 1, "char": 8, "schar": 8, "i8": 8, "u8": 8, "i16": 16, "u16": 16, "i32": 32, "u32": 32,
             "i64": 64, "u64": 64, "enum": 32}
COMMUTATIVE = {"+", "*", "&", "|", "^", "==", "!=", "&&", "||"}
RELOPS = {"==", "!=", "<", "<=", ">", ">="}
NOOP_CASTS = {"LValueToRValue", "NoOp", "ArrayToPointerDecay", "FunctionToPointerDecay", "BitCast",
              "BuiltinFnToFnPtr"}


def is_int(tc):
    return tc in INT_WIDTH


def is_float(tc):
    return tc in ("f32", "f64", "f80", "f128")


def mk_cast(dst, src, inner):
    if dst == src or dst in ("void",):
        return inner
    if is_int(dst) and is_int(src):
        if INT_WIDTH[dst] >= INT_WIDTH[src]:
            return inner          # widening / same-width reinterpretation keeps the mathematical value (or bits)
        return ("cast", dst, inner)
    if is_float(dst) and is_float(src):
        if int(dst[1:]) >= int(src[1:]):
            return inner
        return ("cast", dst, inner)
    if dst in ("ptr", "fnptr") and src in ("ptr", "fnptr", "array", "func"):
        return inner
    return ("cast", dst, inner)


class Env:
    """How to recognise operands and what may be substituted/inlined."""

    def __init__(self, arg_of=None, locals_=None, inline=None, depth=2, unknown=None):
        self.arg_of = arg_of or (lambda n: None)
        self.locals = locals_ if locals_ is not None else {}
        self.inline = inline or {}
        self.depth = depth
        self.used_rewrites = set()
        self.unknown = unknown if unknown is not None else set()


def norm(n, env):
    if n is None:
        return ("opaque", "null")
    k = n["k"]
    a = env.arg_of(n)
    if a is not None:
        return a
    if "cv" in n and k not in ("IntegerLiteral", "CharacterLiteral") and not _mentions_operand(n, env):
        return ("int", n["cv"])
    c = n.get("c", [])
    if k in ("ParenExpr", "ConstantExpr"):
        return norm(c[0], env)
    if k in ("ImplicitCastExpr", "CStyleCastExpr"):
        ck = n.get("ck")
        inner = norm(c[0], env)
        if ck in NOOP_CASTS:
            return inner
        if ck == "NullToPointer":
            return ("int", 0)
        if ck == "ToVoid":
            return inner
        return mk_cast(n.get("tc"), c[0].get("tc"), inner)
    if k == "DeclRefExpr":
        if n.get("dk") == "enum":
            return ("int", n["v"])
        if n.get("did") in env.locals:
            return env.locals[n["did"]]
        return ("sym", n["n"])
    if k == "MemberExpr":
        return ("mem", n["n"], norm(c[0], env))
    if k in ("IntegerLiteral", "CharacterLiteral"):
        return ("int", n["v"])
    if k == "FloatingLiteral":
        return ("flt", float(n["v"]))
    if k == "StringLiteral":
        return ("str", n.get("v"))
    if k == "BinaryOperator":
        op = n["op"]
        return ("bin", op, norm(c[0], env), norm(c[1], env))
    if k == "UnaryOperator":
        op = n["op"]
        x = norm(c[0], env)
        if op == "+":
            return x
        if op == "&":
            return ("addr", x)
        if op == "*":
            return ("deref", x)
        if op in ("-", "~", "!"):
            return ("un", op, x)
        return ("opaque", "unary " + op)
    if k == "ConditionalOperator":
        return ("cond", norm(c[0], env), norm(c[1], env), norm(c[2], env))
    if k == "ArraySubscriptExpr":
        return ("idx", norm(c[0], env), norm(c[1], env))
    if k == "CallExpr":
        name = n.get("callee")
        args = [norm(x, env) for x in c[1:]]
        if name is None:
            return ("opaque", "indirect call")
        if name in env.inline and env.depth > 0:
            params, body = env.inline[name]
            if len(params) == len(args):
                sub = Env(arg_of=None, locals_=dict(zip(params, args)), inline=env.inline, depth=env.depth - 1,
                          unknown=env.unknown)
                sub.used_rewrites = env.used_rewrites
                env.used_rewrites.add("inline:" + name)
                return norm(body, sub)
        return ("call", name) + tuple(args)
    if k == "UnaryExprOrTypeTraitExpr":
        return ("opaque", "sizeof")
    if k == "StmtExpr":
        return ("opaque", "statement expression")
    env.unknown.add(k)
    return ("opaque", k)


def _mentions_operand(n, env):
    return False   # a node with a constant value cannot depend on an operand


# --------------------------------------------------------------------------
# rewrites: each is an identity of C on the operand class
# --------------------------------------------------------------------------

FLIP = {"==": "!=", "!=": "=="}


def truth(t, used):
    """Canonical form of 't is non-zero'."""
    if t[0] == "bin" and t[1] in RELOPS:
        return t
    if t[0] == "bin" and t[1] in ("&&", "||"):
        return ("bin", t[1], truth(t[2], used), truth(t[3], used))
    if t[0] == "un" and t[1] == "!":
        return lnot(t[2], used)
    if t[0] == "cond" and t[2] == ("int", 1) and t[3] == ("int", 0):
        used.add("c?1:0 -> c")
        return truth(t[1], used)
    if t[0] == "cond" and t[2] == ("int", 0) and t[3] == ("int", 1):
        used.add("c?0:1 -> !c")
        return lnot(t[1], used)
    if t[0] == "int":
        return ("int", 1 if t[1] else 0)
    if t[0] == "cast" and is_int(t[1]) and False:
        return truth(t[2], used)
    if t[0] == "bin" and t[1] == "&" and t[3] == ("int", 1):
        used.add("(x&1) -> x%2!=0")
        return ("bin", "!=", ("bin", "%", t[2], ("int", 2)), ("int", 0))
    return ("bin", "!=", t, ("int", 0))


def lnot(t, used):
    tt = truth(t, used)
    if tt[0] == "bin" and tt[1] in FLIP:
        used.add("!(a==b) -> a!=b")
        return ("bin", FLIP[tt[1]], tt[2], tt[3])
    if tt[0] == "int":
        return ("int", 0 if tt[1] else 1)
    return ("un", "!", tt)


def simp(t, used, boolargs=False):
    """Bottom-up simplification with the fixed rewrite list."""
    if not isinstance(t, tuple):
        return t
    h = t[0]
    if h in ("arg", "int", "flt", "str", "sym", "opaque"):
        return t
    if h == "un":
        x = simp(t[2], used, boolargs)
        if t[1] == "!":
            return lnot(x, used)
        if t[1] == "-" and x[0] == "int":
            return ("int", -x[1])
        if t[1] == "-" and x[0] == "flt":
            return ("flt", -x[1])
        return ("un", t[1], x)
    if h == "bin":
        op = t[1]
        a = simp(t[2], used, boolargs)
        b = simp(t[3], used, boolargs)
        if boolargs and op in ("&&", "||"):
            used.add("Bool operands are 0/1: && -> &, || -> |")
            op = {"&&": "&", "||": "|"}[op]
        elif op in ("&&", "||"):
            a, b = truth(a, used), truth(b, used)
        if op == ",":
            return b
        # comparisons against 0 of a truth value
        if op in ("==", "!=") and b == ("int", 0) and a[0] == "bin" and a[1] in RELOPS:
            return a if op == "!=" else lnot(a, used)
        if op in ("==", "!=") and b == ("int", 1) and a[0] == "bin" and a[1] == "&" and a[3] == ("int", 1):
            used.add("(x&1)==1 -> x%2!=0")
            a = ("bin", "%", a[2], ("int", 2))
            b = ("int", 0)
            op = "!=" if op == "==" else "=="
        if op in ("==", "!=") and b == ("int", 0) and a[0] == "bin" and a[1] == "&" and a[3] == ("int", 1):
            used.add("(x&1) -> x%2!=0")
            a = ("bin", "%", a[2], ("int", 2))
        # int literal vs float literal in float comparisons/arithmetics: 0 vs 0.0
        if op in COMMUTATIVE:
            if _key(b) < _key(a):
                a, b = b, a
        if op == "^" and ("int", -1) in (a, b):
            used.add("x ^ -1 -> ~x (two's complement)")
            return ("un", "~", b if a == ("int", -1) else a)
        # > and >= to < and <= with swapped operands
        if op == ">":
            used.add("a>b -> b<a")
            op, a, b = "<", b, a
        elif op == ">=":
            used.add("a>=b -> b<=a")
            op, a, b = "<=", b, a
        return ("bin", op, a, b)
    if h == "cast":
        x = simp(t[2], used, boolargs)
        if x[0] == "cast" and x[1] == t[1]:
            return x
        if x[0] == "int" and is_float(t[1]):
            return ("flt", float(x[1]))
        if x[0] == "flt" and t[1] == "f32":
            import struct
            if struct.unpack("f", struct.pack("f", x[1]))[0] == x[1]:
                return x          # exactly representable: the narrowing cast is the identity
        if is_int(t[1]) and x[0] == "un" and x[1] == "-" and x[2][0] == "cast" and x[2][1] == t[1]:
            used.add("(w)-(w)x -> (w)-x  (Z -> Z/2^w is a ring homomorphism)")
            return ("cast", t[1], ("un", "-", x[2][2]))
        if is_int(t[1]) and x[0] == "bin" and x[1] in ("+", "-", "*", "&", "|", "^"):
            a, b = x[2], x[3]
            if a[0] == "cast" and a[1] == t[1]:
                a = a[2]
            if b[0] == "cast" and b[1] == t[1]:
                b = b[2]
            if (a, b) != (x[2], x[3]):
                used.add("(w)((w)a op b) -> (w)(a op b)  (Z -> Z/2^w is a ring homomorphism)")
                return ("cast", t[1], ("bin", x[1], a, b))
        if x[0] == "int" and is_int(t[1]):
            return x
        return ("cast", t[1], x)
    if h == "cond":
        c, a, b = (simp(x, used, boolargs) for x in t[1:])
        if a == ("int", 1) and b == ("int", 0):
            used.add("c?1:0 -> c")
            return truth(c, used)
        if a == ("int", 0) and b == ("int", 1):
            used.add("c?0:1 -> !c")
            return lnot(c, used)
        return ("cond", truth(c, used), a, b)
    if h == "call":
        name = t[1]
        args = tuple(simp(x, used, boolargs) for x in t[2:])
        if name == "strtod" and len(args) == 2 and args[1] == ("int", 0):
            used.add("strtod(s,0) -> atof(s)")
            return ("call", "atof", args[0])
        return ("call", name) + args
    if h == "idx":
        base, ix = simp(t[1], used, boolargs), simp(t[2], used, boolargs)
        if base in (("sym", "__lowercase"), ("sym", "__uppercase")) and ix[0] == "bin" and ix[1] == "+" and (
                ix[2] == ("int", 1) or ix[3] == ("int", 1)):
            used.add("ctype.h0 table look-up -> tolower/toupper (CC_broken_toupper configuration)")
            x = ix[3] if ix[2] == ("int", 1) else ix[2]
            return ("call", "tolower" if base[1] == "__lowercase" else "toupper", x)
        return ("idx", base, ix)
    return (h,) + tuple(simp(x, used, boolargs) if isinstance(x, tuple) else x for x in t[1:])


def _key(t):
    return repr(t)


def strip_result_casts(t, result_tc):
    """The store into the result converts to the result type anyway."""
    while t[0] == "cast":
        if t[1] == result_tc:
            t = t[2]
        elif is_int(t[1]) and is_int(result_tc or "") and INT_WIDTH[t[1]] >= INT_WIDTH[result_tc]:
            t = t[2]
        elif t[1] in ("ptr",) and result_tc == "ptr":
            t = t[2]
        else:
            break
    return t


def float_literals(t):
    """('int',0) and ('flt',0.0) are the same constant in a float context."""
    if not isinstance(t, tuple):
        return t
    if t[0] == "int":
        return ("flt", float(t[1]))
    if t[0] in ("arg", "flt", "str", "sym", "opaque"):
        return t
    return (t[0],) + tuple(float_literals(x) if isinstance(x, tuple) and i >= (2 if t[0] in ("un", "bin", "cast", "call", "mem") else 1)
                           else x for i, x in enumerate(t[1:], 1))


def args_in(t, acc=None):
    acc = set() if acc is None else acc
    if isinstance(t, tuple):
        if t[0] == "arg":
            acc.add(t[1])
        else:
            for x in t[1:]:
                args_in(x, acc)
    return acc


def callees_in(t, acc=None):
    acc = set() if acc is None else acc
    if isinstance(t, tuple):
        if t[0] == "call":
            acc.add(t[1])
        for x in t[1:]:
            callees_in(x, acc)
    return acc


def has_opaque(t):
    if isinstance(t, tuple):
        if t[0] == "opaque":
            return True
        return any(has_opaque(x) for x in t[1:])
    return False


def show(t):
    if not isinstance(t, tuple):
        return repr(t)
    h = t[0]
    if h == "arg":
        return "a%d" % t[1]
    if h == "int":
        return str(t[1])
    if h == "flt":
        return repr(t[1])
    if h == "str":
        return repr(t[1])
    if h == "sym":
        return t[1]
    if h == "un":
        return "%s(%s)" % (t[1], show(t[2]))
    if h == "bin":
        return "(%s %s %s)" % (show(t[2]), t[1], show(t[3]))
    if h == "cast":
        return "(%s)%s" % (t[1], show(t[2]))
    if h == "call":
        return "%s(%s)" % (t[1], ", ".join(show(x) for x in t[2:]))
    if h == "cond":
        return "(%s ? %s : %s)" % tuple(show(x) for x in t[1:])
    if h == "mem":
        return "%s.%s" % (show(t[2]), t[1])
    if h == "idx":
        return "%s[%s]" % (show(t[1]), show(t[2]))
    if h == "addr":
        return "&" + show(t[1])
    if h == "deref":
        return "*" + show(t[1])
    if h == "opaque":
        return "<opaque:%s>" % t[1]
    return repr(t)


def same_shape_diff(a, b):
    """If a and b have the same shape and differ only at leaves/operators,
    return the list of differing positions; None when shapes differ."""
    if not isinstance(a, tuple) or not isinstance(b, tuple):
        return [] if a == b else [(a, b)]
    if a[0] != b[0]:
        if a[0] in ("arg", "int", "flt", "sym", "str") and b[0] in ("arg", "int", "flt", "sym", "str"):
            return [(a, b)]
        return None
    h = a[0]
    if h in ("arg", "int", "flt", "sym", "str", "opaque"):
        return [] if a == b else [(a, b)]
    if len(a) != len(b):
        return None
    diffs = []
    start = 1
    if h in ("un", "bin", "cast", "call", "mem"):
        if a[1] != b[1]:
            diffs.append((a[1], b[1]))
        start = 2
    for x, y in zip(a[start:], b[start:]):
        d = same_shape_diff(x, y)
        if d is None:
            return None
        diffs.extend(d)
    return diffs
