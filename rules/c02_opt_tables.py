"""C02 (partial): optimisation settings never change behaviour - everything the
passes *assume* about builtins and instructions, held in tables.

Q1  peephole tables: (a) each {builtin, type, abstract op} row has the
    builtin's operand type and an abstract op whose meaning is the builtin's
    reference tree (C04); (b) peepBValOpInfo[i].op == i; (c) every cell of the
    algebra table is OpNone or an identity of the commutative ring (integer
    builtins) / an IEEE-safe identity (OpF* rows); (d) float builtins routed to
    ring ops by the 'fast' table inherit identities that are not IEEE-safe:
    each materialising cell is reported (known findings: deliberate fast-math).
Q2  purity flags: a builtin whose runtime implementation can reach I/O or
    process control, or writes through a pointer operand, must have
    hasSideFx set.
Q3  the tag sets of foamHasSideEffect / foamIsControlFlow contain the frozen
    reference sets.
The rewrites of the passes themselves are not decided.
"""
import json
import os

from . import common, bvals, bval_spec, trees
from .common import AnalysisBroken, strip, walk, calls, render, const_value, enum_name
from .c04_builtins import canon

EXPLANATION = (
    "Q1: rows of foamBValOpInfoTableFast/Slow: row type == foamBValInfoTable[builtin].argTypes[0]; the abstract op's tree "
    "(OpPlus = a0+a1, OpLT = a0<a1, OpNext = a0+1, OpIsPos = 0<a0, ...) equals the C04 reference tree of the builtin (bigint "
    "primitives read as the ring operation they implement); peepBValOpInfo rows are in enumerator order; each cell (dual, "
    "l=r, l=1, r=1, l=0, r=0) of a ring-op row is OpNone or a member of the hand-derived set of valid results for that "
    "(op, column) over a commutative ring with total order; cells of OpF* rows must be IEEE-754 safe (NaN, infinities, "
    "signed zero); for float builtins that the fast table routes to ring ops, every cell that is not IEEE-safe and whose "
    "result materialises for that type is a violation keyed by (builtin, column). Q2: effect summary over the -DFOAM_RTS "
    "call graph: a builtin is impure if its runtime entry (transitively) calls an I/O or process-control primitive or "
    "writes through a pointer parameter (directly, via a known writer such as sprintf/strcpy/memcpy, or via a callee that "
    "does); impure => hasSideFx == 1. Q3: tags for which foamHasSideEffect can return true without looking at operands and "
    "tags classified by foamIsControlFlow must include the frozen reference sets. Q4 (guard coverage by three-valued partial "
    "evaluation): every arm of peepMakeUnaryOp's switch that does not mention the operand (the constant results OpZero/OpOne/"
    "OpMOne/OpTrue/OpFalse) must be preceded by a `return NULL` guard whose condition, with op fixed to that label, "
    "peepBValOpInfo[] cells read from the table and peepNoSideFx(operand) := false, evaluates to true; in peepBinaryBCall "
    "every `arg = l|r` selection and in peepNegate the operand swap must sit under a condition that evaluates to false when "
    "foamHasSideEffect := true, peepNoSideFx := false and peepFoamIsValue := false (an impure operand is not a literal). Q5: in of_deadv.c every assignment to a `.used` "
    "usage state is monotone over the states its variable family can have (initial 0 and every constant assigned to the family): for "
    "each state s and each value t the write can store, if the enclosing conditions on the same lvalue hold for s then t >= s. Q6: in of_comex.c every function that both "
    "generates available expressions for a statement (cseGenExp/cseGenExpDeeply) and kills by that statement's definition "
    "(cseKillExpFrDef) does so in that order. Not decided: that any pass preserves "
    "meaning on any program.")

FROZEN = os.path.join(os.path.dirname(__file__), "frozen")
COLS = ["dual", "leqr", "leftOne", "rightOne", "leftZero", "rightZero"]

# meaning of the abstract ops
OP_TREE = {
    "OpPlus": "a0 + a1", "OpMinus": "a0 - a1", "OpTimes": "a0 * a1", "OpDivide": "a0 / a1",
    "OpEQ": "a0 == a1", "OpNE": "a0 != a1", "OpLT": "a0 < a1", "OpLE": "a0 <= a1",
    "OpNeg": "-a0", "OpNext": "a0 + 1", "OpPrev": "a0 - 1", "OpIsZero": "a0 == 0", "OpIsNeg": "a0 < 0", "OpIsPos": "0 < a0",
    "OpFPlus": "a0 + a1", "OpFMinus": "a0 - a1", "OpFTimes": "a0 * a1", "OpFDivide": "a0 / a1",
    "OpFEQ": "a0 == a1", "OpFNE": "a0 != a1", "OpFLT": "a0 < a1", "OpFLE": "a0 <= a1", "OpFNeg": "-a0",
    "OpFIsZero": "a0 == 0.0", "OpFIsNeg": "a0 < 0.0", "OpFIsPos": "0.0 < a0",
}
# bigint primitives read as ring operations (exactness of bigint.c is C11's business)
BINT_AS_RING = {"bintPlus": "+", "bintMinus": "-", "bintTimes": "*"}

# Valid results per (op, column) in a commutative ring with a total order (integers).
# Derivations: x+0=x, 0+x=x, x+1=next x, x-x=0, x-1=prev x, 0-x=-x, x-0=x, 1*x=x, x*1=x, 0*x=0, x*0=0,
# x/x=1 and 0/x=0 (x != 0; x = 0 is a division by zero in the original as well), x/1=x, gcd(1,x)=gcd(x,1)=1,
# x=x, not(x~=x), not(x<x), x<=x, (0=x)=isZero x, (0<x)=isPos x, (x<0)=isNeg x, (0<=x)=not isNeg x, (x<=0)=not isPos x,
# not(a=b) = (b~=a), not(a<=b) = (b<a), not(a<b) = (b<=a)   [peepNegate swaps the operands]
RING = {
    "OpPlus": {"leftOne": {"OpNext"}, "rightOne": {"OpNext"}, "leftZero": {"OpId"}, "rightZero": {"OpId"}},
    "OpMinus": {"leqr": {"OpZero"}, "rightOne": {"OpPrev"}, "leftZero": {"OpNeg"}, "rightZero": {"OpId"}},
    "OpTimes": {"leftOne": {"OpId"}, "rightOne": {"OpId"}, "leftZero": {"OpZero"}, "rightZero": {"OpZero"}},
    "OpDivide": {"leqr": {"OpOne"}, "rightOne": {"OpId"}, "leftZero": {"OpZero"}},
    "OpDivRem": {},
    "OpGCD": {"leftOne": {"OpOne"}, "rightOne": {"OpOne"}},
    "OpEQ": {"dual": {"OpNE"}, "leqr": {"OpTrue"}, "leftZero": {"OpIsZero"}, "rightZero": {"OpIsZero"}},
    "OpNE": {"dual": {"OpEQ"}, "leqr": {"OpFalse"}, "leftZero": {"OpNonZero"}, "rightZero": {"OpNonZero"}},
    "OpLT": {"dual": {"OpLE"}, "leqr": {"OpFalse"}, "leftZero": {"OpIsPos"}, "rightZero": {"OpIsNeg"}},
    "OpLE": {"dual": {"OpLT"}, "leqr": {"OpTrue"}, "leftZero": {"OpNonNeg"}, "rightZero": {"OpNonPos"}},
    # unary rows: 'dual' = inverse (op(dual x) = x); l=1 / l=0 = value of op at the literal
    "OpNeg": {"dual": {"OpNeg"}, "leftOne": {"OpMOne"}, "leftZero": {"OpZero"}},
    "OpNext": {"dual": {"OpPrev"}, "leftZero": {"OpOne"}},
    "OpPrev": {"dual": {"OpNext"}, "leftOne": {"OpZero"}, "leftZero": {"OpMOne"}},
    "OpIsZero": {"leftOne": {"OpFalse"}, "leftZero": {"OpTrue"}},
    "OpIsNeg": {"leftOne": {"OpFalse"}, "leftZero": {"OpFalse"}},
    "OpIsPos": {"leftOne": {"OpTrue"}, "leftZero": {"OpFalse"}},
    "OpNone": {}, "OpZero": {}, "OpOne": {}, "OpMOne": {}, "OpTrue": {}, "OpFalse": {},
}
# IEEE-754 safe results (must hold for NaN, +-inf, +-0): 1*x = x*1 = x, x/1 = x, x-0 = x, not(a==b) = (a!=b),
# not(a!=b) = (a==b), (0==x) = isZero, (0!=x) = not isZero, not(x<x), (0<x) = isPos, (x<0) = isNeg.
# NOT safe: 0+x (x=-0), x+0 (x=-0), 0-x (x=0), x-x, 0*x, x*0, x/x, 0/x, x==x, x<=x, not(a<=b)=(b<a), (0<=x)=not isNeg (NaN).
IEEE = {
    "OpPlus": {}, "OpFPlus": {},
    "OpMinus": {"rightZero": {"OpId"}}, "OpFMinus": {"rightZero": {"OpId"}},
    "OpTimes": {"leftOne": {"OpId"}, "rightOne": {"OpId"}}, "OpFTimes": {"leftOne": {"OpId"}, "rightOne": {"OpId"}},
    "OpDivide": {"rightOne": {"OpId"}}, "OpFDivide": {"rightOne": {"OpId"}},
    "OpEQ": {"dual": {"OpNE", "OpFNE"}, "leftZero": {"OpIsZero", "OpFIsZero"}, "rightZero": {"OpIsZero", "OpFIsZero"}},
    "OpNE": {"dual": {"OpEQ", "OpFEQ"}, "leqr": set(), "leftZero": {"OpNonZero"}, "rightZero": {"OpNonZero"}},
    "OpLT": {"leqr": {"OpFalse"}, "leftZero": {"OpIsPos", "OpFIsPos"}, "rightZero": {"OpIsNeg", "OpFIsNeg"}},
    "OpLE": {},
    "OpNeg": {"dual": {"OpNeg", "OpFNeg"}, "leftOne": {"OpMOne"}}, "OpFNeg": {"dual": {"OpNeg", "OpFNeg"}, "leftOne": {"OpMOne"}},
    "OpIsZero": {"leftOne": {"OpFalse"}, "leftZero": {"OpTrue"}}, "OpIsNeg": {"leftOne": {"OpFalse"}, "leftZero": {"OpFalse"}},
    "OpIsPos": {"leftOne": {"OpTrue"}, "leftZero": {"OpFalse"}},
    "OpFIsZero": {"leftOne": {"OpFalse"}, "leftZero": {"OpTrue"}}, "OpFIsNeg": {"leftOne": {"OpFalse"}, "leftZero": {"OpFalse"}},
    "OpFIsPos": {"leftOne": {"OpTrue"}, "leftZero": {"OpFalse"}},
}
IEEE["OpFEQ"] = IEEE["OpEQ"]
IEEE["OpFNE"] = IEEE["OpNE"]
IEEE["OpFLT"] = IEEE["OpLT"]
IEEE["OpFLE"] = IEEE["OpLE"]
CONST_OPS = {"OpZero", "OpOne", "OpMOne", "OpTrue", "OpFalse", "OpId"}
FAKED = {"OpNonZero": "OpIsZero", "OpNonNeg": "OpIsNeg", "OpNonPos": "OpIsPos"}

IMPURE_PRIMS = {"fputs", "fputc", "putc", "putchar", "puts", "printf", "fprintf", "vfprintf", "vprintf", "fwrite", "fflush",
                "fclose", "fopen", "remove", "system", "fgets", "fgetc", "getc", "fread", "fscanf", "scanf",
                "longjmp", "siglongjmp", "exit", "_exit"}
# The effect graph is cut at the allocator, at assertion/bug reporting and at the routines that end the program or raise
# an Aldor exception: allocation is not an effect, and failure paths are not behaviour that the flag is meant to protect.
CUT = {"stoAlloc", "stoCAlloc", "stoResize", "stoFree", "stoGc", "stoRecode", "fiAlloc", "fiFree", "fi0Alloc", "fi0RecAlloc",
       "fiArrNew", "fi0New", "_do_assert", "bug", "bugBadCase", "bugWarning", "bugUnimpl", "fiRaiseException", "fiHalt",
       "exitFailure", "exitSuccess", "abort", "fiDivideByZero", "osAlloc", "osFree", "stoAllocInner", "stoDefaultError",
       "stoError", "fiUnhandledException", "fiBlock", "fiRegisterExn"}
WRITERS = {"sprintf": 0, "snprintf": 0, "vsprintf": 0, "strcpy": 0, "strncpy": 0, "strcat": 0, "memcpy": 0, "memmove": 0,
           "memset": 0, "fgets": 0}


def ring_tree(t):
    """Read bigint primitives of the C04 reference as ring operations."""
    if not isinstance(t, tuple):
        return t
    if t[0] == "call":
        args = [ring_tree(x) for x in t[2:]]
        if t[1] in BINT_AS_RING and len(args) == 2:
            return ("bin", BINT_AS_RING[t[1]], args[0], args[1])
        if t[1] == "bintNegate" and len(args) == 1:
            return ("un", "-", args[0])
        if t[1] == "bintEQ" and len(args) == 2:
            return ("bin", "==", args[0], args[1])
        if t[1] == "bintLT" and len(args) == 2:
            return ("bin", "<", args[0], args[1])
        if t[1] == "bintIsZero" and len(args) == 1:
            return ("bin", "==", args[0], ("int", 0))
        if t[1] == "bintIsNeg" and len(args) == 1:
            return ("bin", "<", args[0], ("int", 0))
        if t[1] == "bintIsPos" and len(args) == 1:
            return ("bin", "<", ("int", 0), args[0])
        return ("call", t[1]) + tuple(args)
    if t[0] == "bin" and t[1] == "==" and t[3] == ("int", 0) and isinstance(t[2], tuple) and t[2][:2] == ("call", "bintLT") and len(t[2]) == 4:
        # not (y < x)  is  x <= y  in a total order
        return ("bin", "<=", ring_tree(t[2][3]), ring_tree(t[2][2]))
    if t[0] == "bin" and t[1] == "==" and t[3] == ("int", 0) and isinstance(t[2], tuple) and t[2][:2] == ("call", "bintEQ") and len(t[2]) == 4:
        return ("bin", "!=", ring_tree(t[2][2]), ring_tree(t[2][3]))
    if t[0] == "bin" and t[1] == "!=" and t[3] == ("int", 0) and isinstance(t[2], tuple) and t[2][0] == "call" and t[2][1].startswith("bint"):
        return ring_tree(t[2])
    if t == ("sym", "bint1"):
        return ("int", 1)
    if t == ("sym", "bint0"):
        return ("int", 0)
    if t[0] in ("arg", "int", "flt", "sym", "str", "opaque"):
        return t
    return tuple(ring_tree(x) if isinstance(x, tuple) else x for x in t)


def q1(rep, f_peep, info):
    by = {r["tag"]: r for r in info}
    ops = f_peep.enum_values("bvalOp")
    opname = {v: n for n, v in ops.items()}
    used_ops = set()
    for tname in ("foamBValOpInfoTableFast", "foamBValOpInfoTableSlow"):
        for r in common.table_rows(f_peep.var(tname)):
            used_ops.add(opname.get(const_value(r["c"][2])))
    # (b) + (c): algebra table
    rec = f_peep.records.get("_bvalOpInfo")
    if rec is None:
        raise AnalysisBroken("struct _bvalOpInfo not found")
    fields = [x[0] for x in rec["f"]]
    algebra = {}
    for i, r in enumerate(common.table_rows(f_peep.var("peepBValOpInfo"))):
        g = dict(zip(fields, r["c"]))
        opv = const_value(g["op"])
        name = opname.get(opv)
        if opv == -1 or name is None:
            break                      # terminator row { -1, ... }
        where = "of_peep.c:%d (peepBValOpInfo %s)" % (r["l"], name)
        if opv != i:
            rep.violation("Q1", "order:%s" % name, where, "row %d of peepBValOpInfo is for %s (=%d): the table is indexed by op" % (i, name, opv))
        else:
            rep.ok("Q1", "order:%s" % name, nontrivial=False)
        cells = {c: opname.get(const_value(g[c])) for c in COLS}
        algebra[name] = (cells, const_value(g["arity"]), r["l"])
        if name not in RING and name not in IEEE:
            raise AnalysisBroken("peepBValOpInfo has a row for %s, which the rule's algebra does not know" % name)
    rep.floor("rows of peepBValOpInfo", len(algebra), 30)

    judged = set()
    # (a) + (c) + (d): builtin -> op tables
    for tname in ("foamBValOpInfoTableFast", "foamBValOpInfoTableSlow"):
        rows = []
        for r in common.table_rows(f_peep.var(tname)):
            tag, ty, op = enum_name(r["c"][0]), enum_name(r["c"][1]), opname.get(const_value(r["c"][2]))
            if tag == "FOAM_BVAL_LIMIT":
                break
            rows.append((tag, ty, op, r["l"]))
        if tname.endswith("Fast"):
            rep.floor("rows of " + tname, len(rows), 55)
        have = {}
        for tag, ty, op, line in rows:
            have.setdefault(ty, set()).add(op)
        for tag, ty, op, line in rows:
            inf = by.get(tag)
            short = tag[len("FOAM_BVal_"):]
            where = "of_peep.c:%d (%s %s)" % (line, tname, short)
            key = "%s:%s" % (tname[-4:], short)
            if inf is None:
                raise AnalysisBroken("%s names unknown builtin %s" % (tname, tag))
            if inf["argTypes"] and inf["argTypes"][0] != ty:
                rep.violation("Q1", "type:" + key, where, "row says operands of %s are %s, the builtin table says %s" % (short, ty, inf["argTypes"][0]))
            else:
                rep.ok("Q1", "type:" + key, nontrivial=False)
            ref = bval_spec.reference(short)
            if op in OP_TREE and ref is not None:
                used = set()
                a = canon(ring_tree(bval_spec.parse(OP_TREE[op])), inf, used)
                b = canon(ring_tree(ref), inf, used)
                if a == b:
                    rep.ok("Q1", "meaning:" + key, sample={"builtin": short, "op": op, "tree": trees.show(a)} if len(rep.samples) < 9 else None)
                else:
                    rep.violation("Q1", "meaning:" + key, where,
                                  "%s is treated as %s (%s) by the peephole optimiser but means %s: every algebraic rewrite of "
                                  "that op is applied to the wrong builtin" % (short, op, trees.show(a), trees.show(b)))
            else:
                rep.note("Q1: %s -> %s not compared (no reference tree)" % (short, op))
            # (c)+(d) every cell whose result materialises for this type in this table must be an identity of the
            # type's algebra: commutative ring with order for integer types, IEEE-754 for floats
            if op in algebra:
                cells = algebra[op][0]
                isfloat = ty in ("FOAM_SFlo", "FOAM_DFlo")
                valid = IEEE.get(op, {}) if isfloat else RING.get(op, IEEE.get(op, {}))
                for c in COLS:
                    v = cells[c]
                    if v in (None, "OpNone"):
                        continue
                    need = FAKED.get(v, v)
                    if v not in CONST_OPS and need not in have.get(ty, set()):
                        continue        # peepFindFoamOp finds no builtin of this type for the result: no rewrite happens
                    if isfloat:
                        ckey = "%sfloat:%s:%s" % ("fast" if tname.endswith("Fast") else "careful", short, c)
                    else:
                        ckey = "algebra:%s:%s" % (op, c)
                        if ckey in judged:
                            continue
                        judged.add(ckey)
                    if v in valid.get(c, set()):
                        rep.ok("Q1", ckey, sample={"op": op, "column": c, "result": v, "type": ty} if len(rep.samples) < 6 else None)
                    elif isfloat:
                        rep.violation("Q1", ckey, where,
                                      "%s is rewritten by the identity (%s, %s) -> %s, which does not hold for NaN, infinities or "
                                      "signed zero: the program's output depends on the optimisation level" % (short, op, c, v))
                    else:
                        rep.violation("Q1", ckey, "of_peep.c:%d (peepBValOpInfo %s)" % (algebra[op][2], op),
                                      "%s with %s is rewritten to %s, which is not an identity of the ring (valid: %s); reached "
                                      "from %s" % (op, c, v, sorted(valid.get(c, set())) or "none", short))


def q4(rep, f_peep):
    """Operand-dropping rewrites are guarded by purity of the dropped operand."""
    from .peval import peval
    fn = f_peep.func("peepMakeUnaryOp")
    parms = [p["n"] for p in fn.get("params", [])]
    if len(parms) != 3:
        raise AnalysisBroken("peepMakeUnaryOp no longer has the parameters (op, type, arg0)")
    opn, _, argn = parms
    body = fn["body"]
    sw = None
    guards = []          # each guard: list of (condition, polarity) that must all hold for a `return NULL` before the switch
    par_q4 = common.parents(body)
    for st in body["c"]:
        if st is None:
            continue
        if st["k"] == "SwitchStmt" and strip(st["c"][0]) is not None and strip(st["c"][0]).get("n") == opn:
            sw = st
            break
        for r in walk(st):
            if r["k"] == "ReturnStmt" and r["c"] and const_value(r["c"][0]) == 0:
                chain = []
                ch, p = r, par_q4.get(r["id"])
                while p is not None and p["id"] != body["id"]:
                    if p["k"] == "IfStmt":
                        if p["c"][1] is not None and p["c"][1]["id"] == ch["id"]:
                            chain.append((p["c"][0], True))
                        elif p["c"][2] is not None and p["c"][2]["id"] == ch["id"]:
                            chain.append((p["c"][0], False))
                    ch, p = p, par_q4.get(p["id"])
                if chain:
                    guards.append(chain)
    if sw is None:
        raise AnalysisBroken("peepMakeUnaryOp: switch on the op parameter not found")
    rec = f_peep.records.get("_bvalOpInfo")
    fields = [x[0] for x in rec["f"]]
    rows = common.table_rows(f_peep.var("peepBValOpInfo"))

    def lookup(n, env):
        if n["k"] == "CallExpr" and n.get("callee") in ("peepNoSideFx", "foamHasSideEffect"):
            a = strip(n["c"][1])
            if a is not None and a.get("n") == argn:
                return 0 if n["callee"] == "peepNoSideFx" else 1    # the operand is assumed impure
        if n["k"] == "MemberExpr" and n.get("n") in fields:
            arr = strip(n["c"][0])
            if arr is not None and arr["k"] == "ArraySubscriptExpr" and strip(arr["c"][0]).get("n") == "peepBValOpInfo":
                i = peval(arr["c"][1], env, lookup)
                if i is not None and 0 <= i < len(rows):
                    return const_value(rows[i]["c"][fields.index(n["n"])])
        return None

    groups = common.switch_cases(sw)
    ndrop = 0
    for gi, g in enumerate(groups):
        # statements executed for these labels, including groups fallen into
        stmts = list(g["stmts"])
        j = gi
        while groups[j]["falls"] and j + 1 < len(groups):
            j += 1
            stmts += groups[j]["stmts"]
        uses = any(x["k"] == "DeclRefExpr" and x["n"] == argn for st in stmts for x in walk(st))
        if uses:
            continue
        for lon, lo, hi in g["labels"]:
            if lon == "default":
                raise AnalysisBroken("peepMakeUnaryOp: the default arm drops the operand; the rule cannot enumerate the ops it covers")
            ndrop += 1
            key = "purity-guard:peepMakeUnaryOp:%s" % lon
            verdicts = []
            for chain in guards:
                vs = [peval(cond, {opn: lo}, lookup) for cond, pol in chain]
                verdicts.append(1 if all(v is not None and bool(v) == pol for v, (_, pol) in zip(vs, chain)) else
                                (0 if any(v is not None and bool(v) != pol for v, (_, pol) in zip(vs, chain)) else None))
            if any(v is not None and v != 0 for v in verdicts):
                rep.ok("Q4", key, sample={"op": lon, "rule": "with op=%s and an impure operand a preceding `return NULL` guard is true" % lon}
                       if ndrop <= 2 else None)
            else:
                rep.violation("Q4", key, "of_peep.c:%d (peepMakeUnaryOp case %s)" % (g["line"], lon),
                              "the arm for %s builds a constant and drops the operand, but no preceding guard returns NULL when the operand "
                              "has side effects (guards evaluate to %s for op=%s): x*0, x-x, ... lose the effects of x at -Q2 and above"
                              % (lon, verdicts, lon))
    rep.floor("operand-dropping arms of peepMakeUnaryOp", ndrop, 5)

    # Q4b/c: under the assumption that every operand is impure (so it is not a literal either), no rewrite that drops or
    # reorders an operand is enabled
    def impure(n, env):
        if n["k"] == "CallExpr":
            cal = n.get("callee")
            if cal == "foamHasSideEffect":
                return 1
            if cal in ("peepNoSideFx", "peepFoamIsValue", "otIsFoamConst"):
                return 0
        return None

    par_of = {}
    def enclosing_then(fnbody, node):
        par = par_of.setdefault(id(fnbody), common.parents(fnbody))
        ch, p = node, par.get(node["id"])
        while p is not None:
            if p["k"] == "IfStmt" and p["c"][1] is not None and any(y["id"] == ch["id"] for y in [p["c"][1]]):
                return p
            ch, p = p, par.get(p["id"])
        return None

    fb = f_peep.func("peepBinaryBCall")
    nsel = 0
    for x in walk(fb["body"]):
        if x["k"] == "BinaryOperator" and x["op"] == "=" and strip(x["c"][0]).get("n") == "arg":
            nsel += 1
            iff = enclosing_then(fb["body"], x)
            key = "purity-guard:peepBinaryBCall:arg=%s@%s" % (render(x["c"][1]), render(iff["c"][0])[:60] if iff else "?")
            v = peval(iff["c"][0], {}, impure) if iff is not None else None
            if v == 0:
                rep.ok("Q4", key, sample={"site": "of_peep.c:%d" % x["l"], "rule": "condition is false when both operands are impure"} if nsel <= 1 else None)
            else:
                rep.violation("Q4", key, "of_peep.c:%d (peepBinaryBCall)" % x["l"],
                              "one operand is kept (%s) and the other dropped although the enabling condition `%s` can hold for an "
                              "operand with side effects" % (render(x["c"][1]), render(iff["c"][0]) if iff else "none"))
    rep.floor("operand selections in peepBinaryBCall", nsel, 5)
    fnn = f_peep.func("peepNegate")
    nswap = 0
    for c in calls(fnn["body"], "peepMakeBinaryOp"):
        a, b = render(strip(c["c"][3])), render(strip(c["c"][4]))
        if "argv[1]" in a and "argv[0]" in b:
            nswap += 1
            iff = enclosing_then(fnn["body"], c)
            v = peval(iff["c"][0], {}, impure) if iff is not None else None
            key = "purity-guard:peepNegate:swap"
            if v == 0:
                rep.ok("Q4", key)
            else:
                rep.violation("Q4", key, "of_peep.c:%d (peepNegate)" % c["l"],
                              "the operands of the negated comparison are exchanged although both may have side effects: their "
                              "evaluation order changes with the optimisation level")
    rep.floor("operand swaps in peepNegate", nswap, 1)


def q5(rep):
    """Dead-variable elimination: the usage state of a variable only ever rises (Unused < DefinedNoSdEfx < DefinedSdEfx < Keep < Used),
    so 'some definition has side effects' is never forgotten."""
    from .peval import peval
    f = common.extract("of_deadv.c", all_trees=True)
    states = None
    for e in f.raw["enums"]:
        d = dict(e["e"])
        if "DV_DefinedSdEfx" in d:
            states = d
    if states is None:
        raise AnalysisBroken("enumeration usageState (DV_...) not found")
    name_of = {v: n for n, v in states.items()}
    writes = []
    for name, fn in f.funcs.items():
        if "body" not in fn or not fn.get("file", "").endswith("of_deadv.c"):
            continue
        par = None
        for x in walk(fn["body"]):
            if x["k"] == "BinaryOperator" and x["op"] == "=":
                l = strip(x["c"][0])
                if l is None or l["k"] != "MemberExpr" or l.get("n") != "used":
                    continue
                if par is None:
                    par = common.parents(fn["body"])
                base = strip(l["c"][0])
                fam = None
                for y in walk(base):
                    if y["k"] == "DeclRefExpr" and y.get("dk") == "var":
                        fam = y["n"]
                        break
                # possible values
                r = strip(x["c"][1])
                vals = set()
                cv = const_value(r)
                if cv is not None:
                    vals.add(cv)
                elif r is not None and r["k"] == "DeclRefExpr":
                    for y in walk(fn["body"]):
                        if y["k"] == "BinaryOperator" and y["op"] == "=" and strip(y["c"][0]) is not None and strip(y["c"][0]).get("did") == r.get("did"):
                            for z in walk(y["c"][1]):
                                if z["k"] == "DeclRefExpr" and z.get("dk") == "enum":
                                    vals.add(z["v"])
                    if r.get("dk") == "parm":
                        vals = None        # any value: only a `current < new` guard can make it monotone
                # enclosing guards that mention the same lvalue
                target = render(l)
                guards = []
                ch, p = x, par.get(x["id"])
                while p is not None:
                    if p["k"] == "IfStmt" and p["c"][1] is not None and p["c"][1]["id"] == ch["id"]:
                        guards.append((p["c"][0], True))
                    elif p["k"] == "IfStmt" and p["c"][2] is not None and p["c"][2]["id"] == ch["id"]:
                        guards.append((p["c"][0], False))
                    ch, p = p, par.get(p["id"])
                writes.append({"func": name, "line": x["l"], "family": fam, "target": target, "vals": vals, "guards": guards, "rhs": r})
    if len(writes) < 2:
        raise AnalysisBroken("of_deadv.c: assignments to the .used state not found")
    fam_states = {}
    for w in writes:
        fam_states.setdefault(w["family"], {0})
        if w["vals"]:
            fam_states[w["family"]] |= w["vals"]
    n = 0
    for w in writes:
        n += 1
        key = "usage-monotone:%s:%s@%d" % (w["func"], w["family"], n)
        where = "of_deadv.c:%d (%s)" % (w["line"], w["func"])
        if w["vals"] is None:
            # a raw setter (the new state is its parameter): every call of it must sit under `current < new`
            bad_calls = []
            ncalls = 0
            for name2, fn2 in f.funcs.items():
                if "body" not in fn2 or not fn2.get("file", "").endswith("of_deadv.c"):
                    continue
                par2 = None
                for c in common.calls(fn2["body"], w["func"]):
                    ncalls += 1
                    if par2 is None:
                        par2 = common.parents(fn2["body"])
                    newv = render(strip(c["c"][-1]))
                    ok2 = False
                    ch, p = c, par2.get(c["id"])
                    while p is not None:
                        if p["k"] == "IfStmt" and p["c"][1] is not None and p["c"][1]["id"] == ch["id"]:
                            cd = strip(p["c"][0])
                            if cd is not None and cd["k"] == "BinaryOperator" and cd["op"] == "<" and render(strip(cd["c"][1])) == newv:
                                ok2 = True
                            if cd is not None and cd["k"] == "BinaryOperator" and cd["op"] == ">" and render(strip(cd["c"][0])) == newv:
                                ok2 = True
                        ch, p = p, par2.get(p["id"])
                    if not ok2:
                        bad_calls.append("%s:%d" % (name2, c["l"]))
            if ncalls and not bad_calls:
                rep.ok("Q5", key, sample={"setter": w["func"], "calls": ncalls, "rule": "every call under `current < new`"})
            else:
                rep.violation("Q5", key, where, "the raw setter %s is called outside a `current < new` test (%s): the usage state can be lowered"
                              % (w["func"], ", ".join(bad_calls) or "no call found"))
            continue

        def holds(s_, newv):
            def lookup(nd, env):
                if nd["k"] == "MemberExpr" and render(nd) == w["target"]:
                    return s_
                if nd["k"] == "DeclRefExpr" and newv is not None and w["rhs"] is not None and nd.get("did") == w["rhs"].get("did"):
                    return newv
                return None
            res = True
            for cond, pol in w["guards"]:
                v = peval(cond, {}, lookup)
                if v is None:
                    continue              # unrelated condition: may hold
                if bool(v) != pol:
                    res = False
            return res
        bad = None
        cand_new = sorted(w["vals"]) if w["vals"] else sorted(states.values())
        for s_ in sorted(fam_states[w["family"]] if w["vals"] else states.values()):
            for t in cand_new:
                if t < s_ and holds(s_, t):
                    bad = (s_, t)
        if bad is None:
            rep.ok("Q5", key, sample={"site": where, "write": "%s = %s" % (w["target"], render(w["rhs"]))} if n <= 2 else None)
        else:
            rep.violation("Q5", key, where,
                          "`%s = %s` can lower the usage state from %s to %s: a variable already known to have a side-effecting "
                          "definition is demoted, and dvReplaceAssignment then deletes that definition together with its side effects"
                          % (w["target"], render(w["rhs"]), name_of.get(bad[0]), name_of.get(bad[1])))
    rep.floor("writes of the dead-variable usage state", n, 2)


def q6(rep):
    """Available-expression analysis of the CSE pass: for one statement, the expressions it computes are generated before its own
    definition kills the expressions that mention the defined variable -- in the block summary and in the per-statement walk alike."""
    f = common.extract("of_comex.c", all_trees=True)
    n = 0
    for name, fn in sorted(f.funcs.items()):
        if "body" not in fn or not fn.get("file", "").endswith("of_comex.c"):
            continue
        gens = [c for c in calls(fn["body"]) if c.get("callee") in ("cseGenExp", "cseGenExpDeeply") and c.get("callee") != name]
        kills = [c for c in calls(fn["body"], "cseKillExpFrDef")]
        if not gens or not kills:
            continue
        n += 1
        # same operand (the statement) in both
        pairs = [(g, k) for g in gens for k in kills if render(strip(g["c"][1])) == render(strip(k["c"][1]))]
        if not pairs:
            continue
        key = "gen-before-kill:%s" % name
        g, k = pairs[0]
        if g["l"] < k["l"]:
            rep.ok("Q6", key, sample={"function": name, "gen_line": g["l"], "kill_line": k["l"]})
        else:
            rep.violation("Q6", key, "of_comex.c:%d (%s)" % (k["l"], name),
                          "the definition made by a statement kills before the statement's own expressions are generated: for x := x + 7 the "
                          "old x + 7 is reported available after the statement, and a later x + 7 is replaced by the stale value")
    rep.floor("functions combining generation and kill of available expressions", n, 2)


def q3(rep, f_foam):
    frozen = json.load(open(os.path.join(FROZEN, "c02_classifier_tags.json")))
    for fname, want in frozen.items():
        fn = f_foam.func(fname)
        sws = common.find(fn["body"], "SwitchStmt")
        if not sws:
            raise AnalysisBroken("%s is no longer a switch over the tag" % fname)
        got = set()
        for g in common.switch_cases(sws[0]):
            rets = [r for s in g["stmts"] for r in common.find(s, "ReturnStmt") if r["c"] and const_value(r["c"][0]) not in (0,)]
            if rets:
                got.update(l[0] for l in g["labels"] if l[0] and l[0] != "default")
        for t in want:
            key = "%s:%s" % (fname, t)
            if t in got:
                rep.ok("Q3", key)
            else:
                rep.violation("Q3", key, "foam.c:%d (%s)" % (fn["l"], fname),
                              "%s no longer classifies %s: passes guarded by it (dead code, CSE, peephole) would move or drop "
                              "such instructions" % (fname, t))
        for t in sorted(got - set(want)):
            rep.note("Q3: %s also classifies %s (not in the frozen reference)" % (fname, t))


DIAGNOSTIC_IO = json.load(open(os.path.join(FROZEN, "c02_diagnostic_io.json")))


def effects_digest(f):
    """Per runtime unit: call sets and pointer-parameter writes per function."""
    out = {}
    for name, fn in f.funcs.items():
        if "body" not in fn:
            continue
        params = {p["did"]: i for i, p in enumerate(fn["params"]) if p.get("tc") in ("ptr", "array")}
        cs = set()
        writes = set()
        passes = []          # (callee, callee arg index, own param index)
        par = common.parents(fn["body"])

        def discounted(x):
            """I/O in a debug-flag conditional or in a block that ends the program is not a program-visible effect."""
            p = par.get(x["id"])
            while p is not None:
                if p["k"] == "IfStmt":
                    for y in walk(p["c"][0]):
                        if y["k"] == "DeclRefExpr" and y.get("g") and y["n"].lower().endswith("debug"):
                            return True
                        if y.get("mac") in ("DEBUG", "DEBUG_IF") or y.get("imac") in ("DEBUG", "DEBUG_IF"):
                            return True
                if p["k"] == "CompoundStmt":
                    for st in p["c"]:
                        c0 = st if st["k"] == "CallExpr" else None
                        if c0 is not None and c0.get("callee") in ("exit", "abort", "_exit", "exitFailure", "_do_assert", "bug"):
                            return True
                p = par.get(p["id"])
            return False

        for x in walk(fn["body"]):
            if x["k"] == "CallExpr":
                cal = x.get("callee")
                if cal in IMPURE_PRIMS and (discounted(x) or "%s:%s:%s" % (f.unit, name, cal) in DIAGNOSTIC_IO):
                    continue
                if cal:
                    cs.add(cal)
                    for ai, a in enumerate(x["c"][1:]):
                        s = strip(a)
                        while s is not None and s["k"] in ("UnaryOperator", "ArraySubscriptExpr", "MemberExpr", "BinaryOperator"):
                            s = strip(s["c"][0])
                        if s is not None and s["k"] == "DeclRefExpr" and s.get("did") in params:
                            passes.append((cal, ai, params[s["did"]]))
                else:
                    cs.add("<indirect>")
            tgt = None
            if x["k"] in ("BinaryOperator", "CompoundAssignOperator") and x.get("op", "").endswith("=") and x["op"] not in ("==", "!=", "<=", ">="):
                tgt = strip(x["c"][0])
            elif x["k"] == "UnaryOperator" and x["op"] in ("++", "--", "post++", "post--"):
                tgt = strip(x["c"][0])
            if tgt is not None and tgt["k"] in ("UnaryOperator", "ArraySubscriptExpr", "MemberExpr"):
                if tgt["k"] == "MemberExpr" and not tgt.get("arrow"):
                    continue
                if tgt["k"] == "UnaryOperator" and tgt["op"] != "*":
                    continue
                b = strip(tgt["c"][0])
                while b is not None and b["k"] in ("ArraySubscriptExpr", "MemberExpr", "BinaryOperator"):
                    b = strip(b["c"][0])
                if b is not None and b["k"] == "DeclRefExpr" and b.get("did") in params:
                    writes.add(params[b["did"]])
        out[name] = {"calls": sorted(cs), "writes": sorted(writes), "passes": passes, "nparams": len(fn["params"])}
    return out


def q2(rep, info, f_genc):
    units = common.runtime_units()
    dig = common.map_units(units, effects_digest, "runtime", all_trees=True)
    funcs = {}
    for d in dig.values():
        funcs.update(d)
    rep.analysed_count("runtime functions in the effect graph", len(funcs))
    # fixpoint: impure (reaches a primitive) and writes-param summaries
    for n in list(funcs):
        if n in CUT:
            funcs[n] = {"calls": [], "writes": [], "passes": [], "nparams": funcs[n]["nparams"]}
    impure = {n: ((set(f["calls"]) - CUT) & IMPURE_PRIMS) for n, f in funcs.items()}
    writes = {n: set(f["writes"]) for n, f in funcs.items()}
    changed = True
    while changed:
        changed = False
        for n, f in funcs.items():
            for c in f["calls"]:
                if c in funcs and c not in CUT and impure[c] and not impure[c] <= impure[n]:
                    impure[n] |= set("%s" % x for x in impure[c])
                    changed = True
            for cal, ai, pi in f["passes"]:
                w = None
                if cal in WRITERS and ai == WRITERS[cal]:
                    w = True
                elif cal in funcs and ai in writes[cal]:
                    w = True
                if w and pi not in writes[n]:
                    writes[n].add(pi)
                    changed = True
    crows = {r["tag"]: r for r in bvals.ctable_rows(f_genc)}
    checked = 0
    for row in info:
        short = row["tag"][len("FOAM_BVal_"):]
        cr = crows.get(row["tag"])
        if cr is None or cr["cfun"] != "CCO_FCall" or not isinstance(cr["str"], str):
            continue
        entry = cr["str"]
        if entry not in funcs:
            continue          # macro or operator: no body to summarise (C04 compares its tree)
        checked += 1
        argc = row["argCount"]
        why = []
        if impure[entry]:
            why.append("reaches %s" % ", ".join(sorted(impure[entry])[:4]))
        # trailing out-parameters of multi-valued builtins are results; only operands that denote program-visible mutable
        # storage count (arrays, records, raw pointers) - big integers are immutable values
        wr = [i for i in writes[entry] if i < argc and row["argTypes"][i] in ("FOAM_Arr", "FOAM_Rec", "FOAM_Ptr", "FOAM_Word")]
        if wr:
            why.append("writes through pointer operand(s) %s" % wr)
        key = "purity:" + short
        where = "foam.c:%d (foamBValInfoTable %s)" % (row["line"], short)
        if why and not row["hasSideFx"]:
            rep.violation("Q2", key, where,
                          "%s is declared free of side effects but its runtime entry %s %s: the optimiser may delete, "
                          "duplicate or reorder the call" % (short, entry, "; ".join(why)))
        else:
            rep.ok("Q2", key, nontrivial=bool(why),
                   sample={"builtin": short, "entry": entry, "effects": why, "hasSideFx": row["hasSideFx"]} if why and len(rep.samples) < 11 else None)
            if row["hasSideFx"] and not why:
                rep.note("Q2 info: %s is flagged hasSideFx but no effect was found in %s" % (short, entry))
    rep.floor("builtins with a summarised runtime entry", checked, 60)


def _q7_digest(f):
    """Multiple assignment `(a, b, c) := f()`: the analyses walk the targets through a (vector, count) pair taken from the
    Values node.  Returns the pairs found in one unit."""
    out = []
    for name, fn in f.funcs.items():
        if "body" not in fn or not fn["file"].endswith(f.unit):
            continue
        par = None
        for x in walk(fn["body"]):
            if x["k"] != "BinaryOperator" or x["op"] != "=":
                continue
            r = strip(x["c"][1])
            if r is None or r["k"] != "MemberExpr" or r["n"] != "argv":
                continue
            u = strip(r["c"][0])
            if u is None or u["k"] != "MemberExpr" or u["n"] != "foamValues":
                continue
            node = render(strip(u["c"][0]))
            if par is None:
                par = common.parents(fn["body"])
            # the statement list this assignment belongs to (through case labels)
            cur = x
            while cur["id"] in par and par[cur["id"]]["k"] != "CompoundStmt":
                cur = par[cur["id"]]
            blk = par.get(cur["id"])
            if blk is None:
                continue
            flat = []
            for st in blk["c"]:
                while st is not None and st["k"] in ("CaseStmt", "DefaultStmt"):
                    st = st["c"][-1]
                if st is not None:
                    flat.append(st)
            idx = [i for i, st in enumerate(flat) if any(y is x for y in walk(st))]
            if not idx:
                continue
            counts = []
            for st in flat[max(0, idx[0] - 2): idx[0] + 3]:
                st_ = strip(st)
                if st_ is None or st_["k"] != "BinaryOperator" or st_["op"] != "=" or st_ is x:
                    continue
                mentions = [y for y in walk(st_["c"][1]) if y.get("mac") == "foamArgc"]
                if mentions:
                    rhs = strip(st_["c"][1])
                    exact = rhs.get("mac") == "foamArgc" and render(rhs) in ("((%s)->hdr.argc)" % node, "(%s)->hdr.argc" % node)
                    counts.append({"line": st_["l"], "text": render(st_)[:80], "exact": bool(exact)})
            out.append({"func": name, "line": x["l"], "node": node, "counts": counts})
    return out


def q7(rep):
    units = [u for u in common.compiler_units() if u.startswith("of_") or u in ("usedef.c", "flog.c", "dflow.c", "optfoam.c")]
    dig = common.map_units(units, _q7_digest, all_trees=True)
    n = 0
    for u in sorted(dig):
        for s_ in dig[u]:
            if not s_["counts"]:
                continue                   # the vector is indexed directly (bound checked elsewhere)
            n += 1
            key = "values-count:%s:%s@%s" % (u, s_["func"], s_["node"])
            bad = [c for c in s_["counts"] if not c["exact"]]
            if not bad:
                rep.ok("Q7", key, nontrivial=(n <= 3))
            else:
                rep.violation("Q7", key, "%s:%d (%s)" % (u, bad[0]["line"], s_["func"]),
                              "the targets of a multiple assignment are walked with a count that is not foamArgc(%s) (`%s`): a target "
                              "is left out of the analysis, so the optimizer treats a variable that the statement assigns as "
                              "unchanged" % (s_["node"], bad[0]["text"]))
    rep.floor("(vector, count) pairs over the targets of a multiple assignment", n, 10)


def q10(rep):
    """Copy propagation: cpDefIsCopy decides that a statement is a copy (through the macro cpIsCopyableCast: a cast around a local or
    parameter counts) and cpRhsVarFrCopy extracts the copied variable so that the copy can be recorded under it and killed when the
    variable is reassigned.  Both look through casts; they must look through the same number of them, otherwise a statement is
    treated as a copy that is never killed and later uses of the target read the source's new value."""
    f = common.extract("of_cprop.c", all_trees=True)

    def loops_over_casts(fn):
        return any(w["k"] == "WhileStmt" and any(y["k"] == "DeclRefExpr" and y["n"] == "FOAM_Cast" for y in walk(w["c"][0]))
                   for w in walk(fn["body"]))

    def depth_of(e):
        """number of `.foamCast.expr` steps applied to a variable; '*' for a helper or loop that strips them all"""
        e = strip(e)
        k = 0
        while e is not None and e["k"] == "MemberExpr" and e["n"] == "expr":
            inner = strip(e["c"][0])
            if inner is None or inner["k"] != "MemberExpr" or inner["n"] != "foamCast":
                return None
            k += 1
            e = strip(inner["c"][0])
        if e is not None and e["k"] == "DeclRefExpr":
            return k
        if e is not None and e["k"] == "CallExpr" and e.get("callee") in f.funcs and "body" in f.funcs[e["callee"]] \
                and loops_over_casts(f.funcs[e["callee"]]):
            return "*"
        return None
    rec = f.func("cpDefIsCopy")
    tests = [x for x in walk(rec["body"]) if x.get("mac") == "cpIsCopyableCast" and x["k"] == "BinaryOperator" and x["op"] == "==" and
             any(y["k"] == "DeclRefExpr" and y["n"] in ("FOAM_Loc", "FOAM_Par") for y in walk(x["c"][1]))]
    if not tests:
        raise AnalysisBroken("cpDefIsCopy: the variable test of cpIsCopyableCast was not found")
    depths = set()
    for t in tests:
        tagged = [y for y in walk(t["c"][0]) if y["k"] == "MemberExpr" and y["n"] == "tag"]
        if len(tagged) != 1:
            raise AnalysisBroken("cpIsCopyableCast: shape of the tag test changed")
        hdr = strip(tagged[0]["c"][0])
        d = depth_of(hdr["c"][0]) if hdr is not None and hdr["k"] == "MemberExpr" else None
        if d is None:
            raise AnalysisBroken("cpIsCopyableCast: cannot tell how many casts are looked through in `%s`" % render(t)[:60])
        depths.add(d)
    ext = f.func("cpRhsVarFrCopy")
    if loops_over_casts(ext):
        edepth = "*"
    else:
        strips = [i for i in walk(ext["body"]) if i["k"] == "IfStmt" and
                  any(y["k"] == "DeclRefExpr" and y["n"] == "FOAM_Cast" for y in walk(i["c"][0])) and
                  any(y["k"] == "MemberExpr" and y["n"] == "foamCast" for y in walk(i["c"][1]))]
        edepth = len(strips)
    key = "cprop:copy-recogniser-and-extractor-strip-alike"
    where = "of_cprop.c:%d (cpDefIsCopy / cpRhsVarFrCopy)" % rec["l"]
    if depths == {edepth}:
        rep.ok("Q10", key, sample={"casts looked through": edepth})
    else:
        rep.violation("Q10", key, where,
                      "cpIsCopyableCast accepts a variable under %s cast(s) as a copy, cpRhsVarFrCopy finds the variable only under %s: "
                      "a copy through more casts is recorded under no variable, is never killed when its source is reassigned, and "
                      "later uses of its target are rewritten to the source's new value" %
                      ("/".join(str(d) for d in sorted(depths, key=str)), edepth))


def q11(rep):
    """The constant folder evaluates integer builtins with the C operators.  C's / and % on a zero divisor trap: a fold whose
    divisor is an operand constant must decline (`break`) when that constant is zero, otherwise the compiler itself faults at
    -Q2 on a program that, unoptimised, prints its output and then faults at run time."""
    f = common.extract("of_cfold.c", trees=["cfoldBCall"])
    fn = f.func("cfoldBCall")
    n = 0
    for sw in walk(fn["body"]):
        if sw["k"] != "SwitchStmt":
            continue
        try:
            groups = common.switch_cases(sw)
        except AnalysisBroken:
            continue
        for g in groups:
            labs = [l[0] for l in g["labels"] if l[0] and l[0].startswith("FOAM_BVal_")]
            if not labs:
                continue
            guards = set()
            for st in [y_ for top in g["stmts"] for y_ in walk(top)]:
                then_ = st["c"][1] if st["k"] == "IfStmt" else None
                while then_ is not None and then_["k"] == "CompoundStmt" and len(then_["c"]) == 1:
                    then_ = then_["c"][0]
                if st["k"] == "IfStmt" and then_ is not None and then_["k"] == "BreakStmt":
                    for y in walk(st["c"][0]):
                        if y["k"] == "BinaryOperator" and y["op"] == "==" and const_value(y["c"][1]) == 0:
                            guards.add(render(strip(y["c"][0])))
                        elif y["k"] == "BinaryOperator" and y["op"] == "==" and const_value(y["c"][0]) == 0:
                            guards.add(render(strip(y["c"][1])))
                        elif y["k"] == "UnaryOperator" and y["op"] == "!":
                            guards.add(render(strip(y["c"][0])))
            for st in g["stmts"]:
                for x in walk(st):
                    if x["k"] == "BinaryOperator" and x["op"] in ("/", "%") and (x.get("tc") or "")[:1] in ("i", "u"):
                        d = strip(x["c"][1])
                        cv = const_value(d)
                        if cv is not None and cv != 0:
                            continue
                        n += len(labs)                 # one body may serve several builtins (case labels sharing it)
                        key = "fold-divisor-nonzero:%s" % labs[0][len("FOAM_BVal_"):]
                        if render(d) in guards:
                            rep.ok("Q11", key)
                        else:
                            rep.violation("Q11", key, "of_cfold.c:%d (cfoldBCall %s)" % (x["l"], labs[0]),
                                          "the fold of %s computes `%s` with no preceding `if (%s == 0) break;`: with a literal zero "
                                          "divisor the compiler takes the arithmetic exception while optimising, so the program's "
                                          "behaviour at -Q2 (nothing printed) differs from -Q0 (output, then a run-time fault)"
                                          % (labs[0][len("FOAM_BVal_"):], render(x)[:60], render(d)))
    rep.floor("integer divisions by an operand in the constant folder", n, 6)


DFLOW_CLEANUP = ("fprintf", "afprintf", "fputs", "fnewline", "printf", "flogPrint", "flogClearMarks", "dflowFreeGraphInfo", "bitvClassDestroy")


def q12(rep):
    """The passes built on the generic dataflow engine (dflowFwdIterate / dflowRevIterate) give it an iteration limit.  The
    engine returns non-zero when it stopped at the limit: the in/out sets then under-approximate the fixed point (facts travel
    one block per iteration), and a transformation driven by them is wrong for facts that have not arrived.  Every pass must
    therefore drop the results on that outcome.  On the CFG of each caller: from the call, following at every test of the
    returned value only the did-not-converge side, no call other than debugging output and release of the sets is reachable."""
    units = ["usedef.c", "of_comex.c", "of_cprop.c", "of_deada.c", "of_jflow.c", "of_killp.c"]
    n = 0
    for u in units:
        f = common.extract(u, all_trees=True, all_cfg=True)
        for name, fn in sorted(f.funcs.items()):
            if "body" not in fn or not fn.get("file", "").endswith(u):
                continue
            its = [c for c in calls(fn["body"]) if c.get("callee") in ("dflowFwdIterate", "dflowRevIterate")]
            if not its:
                continue
            par = common.parents(fn["body"])
            cfg = common.CFG(fn)
            for it in its:
                n += 1
                # verdict carriers: the variable assigned from the call (non-zero = did not converge), and Booleans derived
                # from it (`converged = (i == 0)`); the call may also be tested directly
                p_ = par.get(it["id"])
                while p_ is not None and p_["k"] in ("ParenExpr", "ImplicitCastExpr", "CStyleCastExpr"):
                    p_ = par.get(p_["id"])
                var = None
                if p_ is not None and p_["k"] == "BinaryOperator" and p_["op"] == "=":
                    l = strip(p_["c"][0])
                    if l is not None and l["k"] == "DeclRefExpr":
                        var = l["n"]
                carriers = {var: True} if var else {}         # name -> True when a true value means NOT converged

                def pol(c, it=it, carriers=carriers):
                    c = strip(c)
                    if c is None:
                        return None
                    if c.get("id") == it["id"]:
                        return True
                    if c["k"] == "DeclRefExpr":
                        return carriers.get(c["n"])
                    if c["k"] == "UnaryOperator" and c["op"] == "!":
                        v = pol(c["c"][0])
                        return None if v is None else (not v)
                    if c["k"] == "BinaryOperator" and c["op"] in ("!=", "==", ">") and const_value(c["c"][1]) == 0:
                        v = pol(c["c"][0])
                        return None if v is None else (v if c["op"] != "==" else (not v))
                    if c["k"] == "BinaryOperator" and c["op"] == "=":
                        return pol(c["c"][1])
                    return None
                grew = True
                while grew:
                    grew = False
                    for x in walk(fn["body"]):
                        tgt = rhs = None
                        if x["k"] == "BinaryOperator" and x["op"] == "=":
                            l = strip(x["c"][0])
                            if l is not None and l["k"] == "DeclRefExpr":
                                tgt, rhs = l["n"], x["c"][1]
                        elif x["k"] == "DeclStmt":
                            for d in x.get("decls", []):
                                if d.get("init") is not None and d["n"] not in carriers and pol(d["init"]) is not None and \
                                        strip(d["init"]).get("id") != it["id"]:
                                    carriers[d["n"]] = pol(d["init"]); grew = True
                        if tgt and tgt not in carriers and rhs is not None and strip(rhs) is not None and strip(rhs).get("id") != it["id"]:
                            v = pol(rhs)
                            if v is not None:
                                carriers[tgt] = v; grew = True
                key = "unconverged-results-dropped:%s:%s" % (u, name)
                where = "%s:%d (%s)" % (u, it["l"], name)
                ev = cfg.events(lambda e, it=it: e.get("id") == it["id"])
                if not ev:
                    raise AnalysisBroken("%s %s: the dataflow call is not in the CFG" % (u, name))
                b0, i0, _ = ev[0]

                def side(bid, succ, pol=pol):
                    """at a test of the verdict follow only the did-not-converge successor"""
                    ce = cfg.cond_edges(bid)
                    if ce is None or ce[0] is None:
                        return True
                    v = pol(ce[0])
                    if v is None:
                        return True
                    return succ == (ce[1] if v else ce[2])

                def reassigned(e, var=var, p_=p_):
                    if var is not None and e["k"] == "BinaryOperator" and e["op"] == "=":
                        l = strip(e["c"][0])
                        return l is not None and l["k"] == "DeclRefExpr" and l["n"] == var and e.get("id") != p_["id"]
                    return False

                def consumer(e):
                    return e["k"] == "CallExpr" and e.get("id") != it["id"] and e.get("callee") not in DFLOW_CLEANUP and \
                        not (e.get("callee") or "").lower().endswith("free") and e.get("callee") is not None
                pth = cfg.path_avoiding(b0, consumer, reassigned, src_idx=i0, edge_ok=side)
                if pth is None:
                    rep.ok("Q12", key, sample={"verdict in": sorted(k for k in carriers if k) or "the condition itself"} if n <= 2 else None)
                else:
                    hit = None
                    for e in cfg.elems(pth[-1]):
                        if consumer(e):
                            hit = e
                            break
                    rep.violation("Q12", key, where,
                                  "when %s stops at its iteration limit (verdict %s) %s still reaches %s (line %s): the "
                                  "reaching sets are incomplete then -- a definition more blocks upstream than the limit has not "
                                  "arrived -- and whatever is computed from them (use/def chains that substitute constants, "
                                  "propagated copies, removed assignments) is wrong for functions with very long chains of blocks "
                                  "only, at the optimisation levels that run this pass"
                                  % (it.get("callee"), ("`%s` non-zero" % var) if var else "non-zero", name, hit.get("callee") if hit else "a consumer", hit["l"] if hit else "?"),
                                  detail={"cfg_path": pth[:10]})
    rep.floor("callers of the iteration-limited dataflow engine", n, 7)


# forms whose value depends on storage that an inlined body can update before the point where a parameter is used
STORAGE_READS = ("FOAM_RElt", "FOAM_IRElt", "FOAM_TRElt", "FOAM_RRElt", "FOAM_AElt", "FOAM_EElt", "FOAM_Lex", "FOAM_Glo", "FOAM_Fluid",
                 "FOAM_CCall", "FOAM_OCall", "FOAM_PCall")


def q13(rep):
    """Inlining replaces a parameter that is used once by the argument expression itself (inlUseParam answers true) instead of
    evaluating the argument into a temporary before the body.  That moves the argument's evaluation to the place of use.  It is
    only meaning-preserving when the argument's value cannot change in between: the inliner already refuses non-local variables
    for that reason.  The same holds for every form that reads updatable storage -- record, array and environment elements,
    fluids -- and for calls (a call without side effects can still read what the body has written).  inlUseParam is evaluated
    by the checker (rules/tageval.py) with the argument's tag fixed to each such form and one use: the only possible answer must
    be false."""
    from . import tageval
    f = common.extract("of_inlin.c", all_trees=True)
    tags = {n: v[1] for n, v in f.enum_by_const.items() if n.startswith("FOAM_")}
    fn = f.func("inlUseParam")
    ps = [p_["n"] for p_ in fn["params"]]
    if len(ps) != 2:
        raise AnalysisBroken("inlUseParam no longer takes (argument, number of uses)")
    where = "of_inlin.c:%d (inlUseParam)" % fn["l"]
    # sanity: the evaluator must still see the decisions it was written for
    if tageval.TagEval(f, tags["FOAM_Loc"]).run("inlUseParam", {ps[1]: 1}) != {1} or \
            tageval.TagEval(f, tags["FOAM_Lex"]).run("inlUseParam", {ps[1]: 1}) != {0}:
        raise AnalysisBroken("inlUseParam: a local variable used once is no longer substituted / a non-local one no longer "
                             "refused -- the function changed shape, Q13 must be re-derived")
    for t in STORAGE_READS:
        vals = tageval.TagEval(f, tags[t]).run("inlUseParam", {ps[1]: 1})
        key = "argument-not-moved-past-body:%s" % t[5:]
        if vals == {0}:
            rep.ok("Q13", key)
        else:
            rep.violation("Q13", key, where,
                          "for an argument of the form (%s ...) used once in the inlined function inlUseParam can answer %s: the "
                          "argument is substituted at its use instead of being evaluated before the body, so `f(r.x, r)` with a body "
                          "`r.x := 10; v` reads r.x after the assignment at the optimisation levels that inline (prints 10), and "
                          "before it otherwise (prints 3)" % (t[5:], sorted("unknown" if v is None else ("true" if v else "false") for v in vals)))


def q14(rep, tier):
    """Constant folding is an optimisation setting (cfold is on from -Q1, float folding from -Q2): a builtin whose folded value
    differs from what the interpreter, the C runtime or the reference computes makes a program's behaviour depend on the
    setting.  The comparison itself is C04's (B3/B4 with the folder as one of the copies); its folder-side reports are repeated
    here under C02."""
    from . import c04_builtins
    try:
        r4 = c04_builtins.run(tier, library=True)
    except AnalysisBroken as e:
        if not rep.violations:
            raise
        rep.note("Q14 not evaluated: %s" % e)
        return
    n = 0
    for rule, inst in sorted(r4.nontrivial):
        if rule in ("B3", "B4") and (":F-vs-" in inst or inst.endswith(":F") or ":F:" in inst):
            n += 1
            rep.ok("Q14", "%s:%s" % (rule, inst), nontrivial=False)
    for v in r4.violations:
        if ":F-vs-" in v["key"] or v["key"].endswith(":F") or ":F:" in v["key"]:
            n += 1
            rep.violation("Q14", v["key"], v["where"], v["message"], detail=v.get("detail"))
    rep.floor("folder copies of builtins compared with another evaluator", n, 100)


def q15(rep):
    """peepAdditiveOp turns `a + (-b)` into `a - b` and back, using peepPositive(x): "x is a negative literal or a negation; here is
    its positive counterpart".  For the literal cases the returned node must really be positive, otherwise the two rewrites
    undo each other for ever: the most negative machine integer has no positive counterpart (-LONG_MIN overflows to LONG_MIN), so
    `x + (-9223372036854775807 - 1)` makes the compiler loop at every setting that runs the peephole, while -Q0 compiles it.
    In peepPositive every `foamNewSInt(-d)` is under a test that excludes the minimum of d's type besides `d < 0`."""
    f = common.extract("of_peep.c", trees=["peepPositive"])
    fn = f.func("peepPositive")
    par = common.parents(fn["body"])
    n = 0
    for x in walk(fn["body"]):
        if x["k"] != "UnaryOperator" or x["op"] != "-":
            continue
        d = strip(x["c"][0])
        if d is None or d["k"] != "MemberExpr" or d["n"] not in ("SIntData", "HIntData"):
            continue
        n += 1
        dtxt = render(d)
        conds = []
        cur = x
        while cur["id"] in par:
            p_ = par[cur["id"]]
            if p_["k"] == "IfStmt" and any(y is cur for y in walk(p_["c"][1])):
                conds.append(p_["c"][0])
            cur = p_
        excl = False
        for c in conds:
            for y in walk(c):
                if y["k"] != "BinaryOperator":
                    continue
                txt = render(y)
                if dtxt not in txt:
                    continue
                # d + MAX >= 0, d > MIN, d != MIN, -d > 0 ...
                if y["op"] in (">=", ">") and any(z["k"] == "BinaryOperator" and z["op"] == "+" for z in walk(y["c"][0])) and const_value(y["c"][1]) == 0:
                    excl = True
                k = const_value(y["c"][1])
                if y["op"] in (">", "!=", ">=") and k is not None and k <= -(1 << 14):
                    excl = True
        key = "positive-counterpart-exists:%s" % d["n"]
        if excl:
            rep.ok("Q15", key)
        else:
            rep.violation("Q15", key, "of_peep.c:%d (peepPositive)" % x["l"],
                          "`-%s` is offered as the positive counterpart of any negative literal: for the most negative value the "
                          "negation overflows and is negative again, so peepAdditiveOp rewrites x + c into x - c and back without "
                          "end -- the compiler does not terminate at the settings that run the peephole" % dtxt)
    rep.floor("negated literals in peepPositive", n, 1)


def q17(rep):
    """The retype pass (-Qcast) gives a variable read several times through the same cast a declaration of that type.  For a
    *parameter* it introduces a local copied from the parameter on entry and redirects every read of (Par i) to it
    (retRearrangeVar consults context->parLocs); assignments to the parameter are not redirected (retRearrangeSet never looks
    at parLocs).  That half is harmless only because no parameter is ever selected: the marking loop of rtcRearrangeProg drops
    every candidate whose declaration's symeIndex differs from -1, a value no declaration carries.  `Correcting` that
    comparison to the real sentinel makes the path live: a function that assigns to its own retyped parameter goes on
    computing with the value it was called with, at -Q2 and above only.  Either the write side redirects like the read side,
    or the selection of parameters stays switched off."""
    f = common.extract("of_retyp2.c", trees=["retRearrangeVar", "retRearrangeSet", "rtcRearrangeProg"])
    var, set_, prog = f.func("retRearrangeVar"), f.func("retRearrangeSet"), f.func("rtcRearrangeProg")
    reads_redirect = any(y["k"] == "MemberExpr" and y["n"] == "parLocs" for y in walk(var["body"]))
    writes_redirect = any(y["k"] == "MemberExpr" and y["n"] == "parLocs" for y in walk(set_["body"]))
    if not reads_redirect:
        rep.ok("Q17", "retyped-parameter:reads-and-writes-together", nontrivial=False)
        return
    guards = [x for x in walk(prog["body"]) if x["k"] == "BinaryOperator" and x["op"] == "!=" and
              (strip(x["c"][0]) or {}).get("k") == "MemberExpr" and strip(x["c"][0])["n"] == "symeIndex"]
    # the parameter loop is the one whose candidates come from parDecls
    dormant = False
    par_guard = None
    for x in walk(prog["body"]):
        if x["k"] == "IfStmt":
            c = strip(x["c"][0])
            if c in guards and any(y["k"] == "MemberExpr" and y["n"] == "parDecls" for y in walk(x["c"][1])):
                par_guard = c
                dormant = const_value(c["c"][1]) == -1
    if par_guard is None:
        raise AnalysisBroken("rtcRearrangeProg: the test that drops parameter candidates by their symeIndex was not found")
    if writes_redirect:
        rep.ok("Q17", "retyped-parameter:reads-and-writes-together", sample={"write side": "redirects"})
    elif dormant:
        rep.ok("Q17", "retyped-parameter:reads-and-writes-together",
               sample={"write side": "does not redirect", "selection": "switched off (symeIndex != -1 holds for every declaration)"})
    else:
        rep.violation("Q17", "retyped-parameter:reads-and-writes-together", "of_retyp2.c:%d (rtcRearrangeProg)" % par_guard["l"],
                      "parameters can now be selected for retyping (`%s`), but only their reads are redirected to the new local "
                      "(retRearrangeVar); `(Set (Par i) ..)` still writes the parameter (retRearrangeSet): a function that assigns "
                      "to its own parameter computes with the value it was called with -- at -Q2 and above only"
                      % render(par_guard)[:60])


def run(tier, only=None):
    rep = common.Report("C02", tier, EXPLANATION)
    f_foam = common.extract("foam.c", trees=["foamHasSideEffect", "foamIsControlFlow"])
    f_peep = common.extract("of_peep.c", trees=["peepMakeUnaryOp", "peepBinaryBCall", "peepNegate"])
    f_genc = common.extract("genc.c")
    info = bvals.info_table(f_foam)
    q1(rep, f_peep, info)
    q2(rep, info, f_genc)
    q3(rep, f_foam)
    q4(rep, f_peep)
    q5(rep)
    q6(rep)
    q7(rep)
    q10(rep)
    q11(rep)
    q12(rep)
    q13(rep)
    q14(rep, tier)
    q15(rep)
    q17(rep)
    from . import lowmask
    opt_units = [u for u in common.compiler_units() if u.startswith("of_") or u in ("usedef.c", "flog.c", "dflow.c", "optfoam.c", "inlutil.c", "loops.c", "bitv.c")]
    lowmask.report(rep, "Q16", opt_units)       # the data-flow iteration's vectors: the last word counts when the size is a multiple of the word
    from . import selfcompare
    selfcompare.report(rep, "Q9", [u for u in common.compiler_units() if u.startswith("of_") or u in ("usedef.c", "flog.c", "dflow.c", "optfoam.c", "inlutil.c", "loops.c", "foam.c")], what="(optimizer)")
    from . import variadic
    variadic.report(rep, "Q8", [u for u in common.compiler_units() if u.startswith("of_") or u in ("usedef.c", "flog.c", "dflow.c", "optfoam.c", "inlutil.c", "loops.c")], floor=200, what="in the optimizer")
    rep.assumptions += ["allocation and errno are not effects",
                        "the meaning of the table columns is the one fixed by peepBinaryBCall/peepUnaryBCall/peepNegate "
                        "(operands of a binary dual are swapped)",
                        "integer division by zero is undefined in the original as well, so x/x -> 1 and 0/x -> 0 are accepted "
                        "for the ring"]
    return rep
