"""The result of a search that may find nothing is looked at before it is used.

strchr, strrchr, strstr, strpbrk and memchr return a null pointer when the text
does not contain what is looked for.  In a reader, "the text" is what the file
holds: a file cut inside a quoted name has an opening quote and no closing one.
Rule, per call site of the units given:
  * the call is not dereferenced directly (`*strchr(..)`, `strchr(..)[k]`, `strchr(..)->`, `strchr(..) + k`);
  * when its value is stored in a local, no dereference of that local (`*v`, `v[..]`, `v + k` ..., `*v++`) is reachable from
    the store without passing a condition that mentions the local.
The second clause is deliberately coarse (any test of the local counts, also `s == t`): it accepts the places where the
text has been classified before the search, and rejects a use with no test at all.
"""
from . import common
from .common import walk, strip, calls, render

SEARCH = ("strchr", "strrchr", "strstr", "strpbrk", "memchr", "index", "rindex")


def _deref_of(e, par, var=None):
    """is node e (a call, or a reference to var) used as the base of a dereference?"""
    cur = e
    while True:
        p_ = par.get(cur["id"])
        if p_ is None:
            return False
        if p_["k"] in ("ParenExpr", "ImplicitCastExpr", "CStyleCastExpr"):
            cur = p_
            continue
        if p_["k"] == "UnaryOperator" and p_["op"] == "*":
            return True
        if p_["k"] == "UnaryOperator" and p_["op"] in ("++", "post++", "--", "post--"):
            cur = p_
            continue
        if p_["k"] == "ArraySubscriptExpr" and (p_["c"][0] is cur or strip(p_["c"][0]) is strip(cur)):
            return True
        if p_["k"] == "MemberExpr" and p_.get("arrow"):
            return True
        if p_["k"] == "BinaryOperator" and p_["op"] in ("+", "-") and (p_["c"][0] is cur or strip(p_["c"][0]) is strip(cur)):
            # pointer arithmetic on the result: `strchr(..) + 1`; a difference of two pointers (`t - s`) is harmless only when tested
            if p_["op"] == "-":
                return False
            cur = p_
            # `v + 1` used as a value: treat as a use that needs the test
            return True
        return False


def digest(f):
    base = f.unit.split("/")[-1]
    out = []
    for name, fn in f.funcs.items():
        if "body" not in fn or not fn.get("file", "").endswith(base) or not fn.get("cfg"):
            continue
        cs = [c for c in calls(fn["body"]) if c.get("callee") in SEARCH]
        if not cs:
            continue
        par = common.parents(fn["body"])
        cfg = common.CFG(fn)
        for c in cs:
            if _deref_of(c, par):
                out.append((name, c["l"], c["callee"], "direct", None))
                continue
            # stored in a local?
            cur = c
            p_ = par.get(cur["id"])
            while p_ is not None and p_["k"] in ("ParenExpr", "ImplicitCastExpr", "CStyleCastExpr"):
                cur, p_ = p_, par.get(p_["id"])
            var = None
            store = None
            if p_ is not None and p_["k"] == "BinaryOperator" and p_["op"] == "=" and (strip(p_["c"][0]) or {}).get("k") == "DeclRefExpr" \
                    and (p_["c"][1] is cur or strip(p_["c"][1]) is strip(cur)):
                var, store = strip(p_["c"][0])["n"], p_
            elif p_ is None or p_["k"] == "DeclStmt":
                pass
            if var is None:
                for x in walk(fn["body"]):
                    if x["k"] == "DeclStmt":
                        for d in x.get("decls", []):
                            if d.get("init") is not None and any(y is c for y in walk(d["init"])) and strip(d["init"]) is c:
                                var, store = d["n"], x
            if var is None:
                out.append((name, c["l"], c["callee"], "value-only", None))
                continue
            # `if ((v = strchr(..)))`: the store is itself the test
            in_cond = False
            for x in walk(fn["body"]):
                cnd = x["c"][0] if x["k"] in ("IfStmt", "WhileStmt", "ConditionalOperator") else x["c"][1] if x["k"] == "ForStmt" else None
                if cnd is not None and any(y is store for y in walk(cnd)):
                    in_cond = True
            if in_cond:
                out.append((name, c["l"], c["callee"], "checked", var))
                continue
            ev = cfg.events(lambda e: e.get("id") == store["id"])
            if not ev:
                ev = cfg.events(lambda e: e.get("id") == c["id"])
            if not ev:
                out.append((name, c["l"], c["callee"], "not-in-cfg", var))
                continue
            b, i, _ = ev[0]

            def is_use(e, var=var):
                return e["k"] == "DeclRefExpr" and e["n"] == var and _deref_of(e, par)
            cond_ids = set()
            for x in walk(fn["body"]):
                cnd = None
                if x["k"] in ("IfStmt", "WhileStmt"):
                    cnd = x["c"][0]
                elif x["k"] == "ForStmt":
                    cnd = x["c"][1]
                elif x["k"] == "ConditionalOperator":
                    cnd = x["c"][0]
                elif x["k"] == "BinaryOperator" and x["op"] in ("&&", "||"):
                    cnd = x["c"][0]
                if cnd is not None:
                    for y in walk(cnd):
                        if y["k"] == "DeclRefExpr" and y["n"] == var:
                            cond_ids.add(y["id"])

            def is_test(e, var=var):
                return e.get("id") in cond_ids or \
                    (e["k"] == "BinaryOperator" and e["op"] == "=" and (strip(e["c"][0]) or {}).get("n") == var and e is not store)
            pth = cfg.path_avoiding(b, is_use, is_test, src_idx=i)
            out.append((name, c["l"], c["callee"], "unchecked-use" if pth is not None else "checked", var))
    return out


def report(rep, rule, units, floor):
    dig = common.map_units(list(units), digest, "compiler", all_trees=True, all_cfg=True)
    n = 0
    for u in sorted(dig):
        base = u.split("/")[-1]
        for fn, line, callee, verdict, var in dig[u]:
            n += 1
            key = "search-result-tested:%s:%s:%s" % (base, fn, callee)
            where = "%s:%d (%s)" % (base, line, fn)
            if verdict in ("checked", "value-only"):
                rep.ok(rule, key + "@%d" % line, nontrivial=(verdict == "checked"))
            elif verdict == "not-in-cfg":
                raise common.AnalysisBroken("%s: the store of the %s result is not in the CFG" % (where, callee))
            else:
                rep.violation(rule, key, where,
                              "the result of %s is %s without a test for `not found`: the text searched comes from the file being "
                              "read, and a file cut (or altered) so that the character is missing makes the reader write through a "
                              "null pointer -- a fault instead of a diagnostic"
                              % (callee, "dereferenced directly" if verdict == "direct" else "stored in `%s` and dereferenced" % var))
    rep.floor("searches that may find nothing, in the reader units", n, floor)
    return n
