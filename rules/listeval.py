"""Symbolic evaluation of the small straight-line functions that assemble a
Java (or C) fragment from a FOAM builtin call: the operands are generated into
a list, the list is taken apart with the generic list operations, and the
pieces are handed to a constructor.  The evaluator keeps lists as Python lists
of terms, follows car/cdr and the list operation tables (listElt, listList,
listNReverse, listFreeCons, listNConcat, listSingleton, listCons), evaluates
`if` on row fields whose nullness the caller supplies, and returns the term of
the return statement.  Anything else makes the result Unknown: the caller
reports the analysis as broken, never as a violation.
"""
from .common import strip, const_value


class Unknown(Exception):
    pass


LIST_OPS = {"Elt", "List", "NReverse", "Reverse", "FreeCons", "NConcat", "Concat", "Singleton", "Cons", "Copy", "_Length", "Length"}


def _member_op(n):
    if n["k"] != "CallExpr" or n.get("callee"):
        return None
    c = strip(n["c"][0])
    return c["n"] if c is not None and c["k"] == "MemberExpr" and c["n"] in LIST_OPS else None


class Evaluator:
    def __init__(self, argc, row_null, operand_list_call="gj0GenList", operand_call="gj0Gen"):
        self.argc = argc
        self.row_null = row_null            # {"c1": True/False, ...}: is the row's field a null pointer
        self.olc, self.oc = operand_list_call, operand_call
        self.env = {}

    # -- expressions -------------------------------------------------------
    def ev(self, n):
        n = strip(n)
        if n is None:
            raise Unknown("empty expression")
        k = n["k"]
        cv = const_value(n)
        if k in ("IntegerLiteral", "CharacterLiteral") or (cv is not None and k != "DeclRefExpr"):
            return ("int", cv if cv is not None else n.get("v"))
        if k == "DeclRefExpr":
            if n.get("dk") == "enum":
                return ("enum", n["n"])
            if n["n"] in self.env:
                return self.env[n["n"]]
            raise Unknown("variable %s read before it is assigned" % n["n"])
        if k == "MemberExpr":
            base = strip(n["c"][0])
            if n["n"] == "first":
                l = self.ev(base)
                if l[0] != "list" or not l[1]:
                    raise Unknown("car of a non-list or empty list")
                return l[1][0]
            if n["n"] == "rest":
                l = self.ev(base)
                if l[0] != "list" or not l[1]:
                    raise Unknown("cdr of a non-list or empty list")
                return ("list", l[1][1:])
            if base is not None and base["k"] == "DeclRefExpr" and self.env.get(base["n"]) == ("rowptr",):
                return ("row", n["n"])
            raise Unknown("member access .%s" % n["n"])
        if k == "ArraySubscriptExpr":
            a, i = strip(n["c"][0]), const_value(n["c"][1])
            if a is not None and a["k"] == "MemberExpr" and a["n"] == "argv" and i is not None:
                return ("operandnode", i)
            raise Unknown("subscript")
        if k == "CallExpr":
            op = _member_op(n)
            args = n["c"][1:]
            if op is not None:
                return self.listop(op, args)
            callee = n.get("callee")
            if callee == self.olc:
                return ("list", [("arg", i) for i in range(self.argc)])
            if callee == self.oc:
                a = self.ev(args[0])
                if a[0] == "operandnode":
                    return ("arg", a[1])
                raise Unknown("%s of something other than argv[i]" % self.oc)
            if callee == "gj0BCallBValInfo":
                return ("rowptr",)
            if callee is None:
                raise Unknown("indirect call")
            return ("call", callee) + tuple(self.ev(a) for a in args)
        if k == "BinaryOperator" and n["op"] in ("!=", "=="):
            a, b = self.ev(n["c"][0]), self.ev(n["c"][1])
            for x, y in ((a, b), (b, a)):
                if x[0] == "row" and y == ("int", 0):
                    if x[1] not in self.row_null:
                        raise Unknown("nullness of row field %s not supplied" % x[1])
                    isnull = self.row_null[x[1]]
                    return ("int", int(isnull if n["op"] == "==" else not isnull))
            raise Unknown("comparison")
        if k == "MemberExpr" or k == "UnaryOperator":
            raise Unknown(k)
        raise Unknown("expression kind %s" % k)

    def listop(self, op, args):
        vals = [self.ev(a) for a in args]

        def lst(v):
            if v[0] != "list":
                raise Unknown("list operation on a non-list")
            return list(v[1])
        if op == "Elt":
            l, i = lst(vals[0]), vals[1]
            if i[0] != "int" or not 0 <= i[1] < len(l):
                raise Unknown("listElt index")
            return l[i[1]]
        if op == "List":
            if vals[0][0] != "int" or vals[0][1] != len(vals) - 1:
                raise Unknown("listList count does not match its arguments")
            return ("list", vals[1:])
        if op in ("NReverse", "Reverse"):
            return ("list", lst(vals[0])[::-1])
        if op == "FreeCons":
            l = lst(vals[0])
            if not l:
                raise Unknown("listFreeCons of an empty list")
            return ("list", l[1:])
        if op in ("NConcat", "Concat"):
            return ("list", lst(vals[0]) + lst(vals[1]))
        if op == "Singleton":
            return ("list", [vals[0]])
        if op == "Cons":
            return ("list", [vals[0]] + lst(vals[1]))
        if op == "Copy":
            return ("list", lst(vals[0]))
        if op in ("_Length", "Length"):
            return ("int", len(lst(vals[0])))
        raise Unknown("list operation %s" % op)

    # -- statements --------------------------------------------------------
    def run(self, body):
        r = self.block(body)
        if r is None:
            raise Unknown("no return reached")
        return r

    def block(self, st):
        k = st["k"]
        if k == "CompoundStmt":
            for c in st["c"]:
                r = self.block(c)
                if r is not None:
                    return r
            return None
        if k == "DeclStmt":
            for d in st.get("decls", []):
                if d.get("init") is not None:
                    self.env[d["n"]] = self.ev(d["init"])
            return None
        if k == "DoStmt" and st.get("mac") == "assert":
            return None
        if k == "NullStmt":
            return None
        if k == "BinaryOperator" and st["op"] == "=":
            l = strip(st["c"][0])
            if l is None or l["k"] != "DeclRefExpr":
                raise Unknown("assignment to a non-variable")
            self.env[l["n"]] = self.ev(st["c"][1])
            return None
        if k == "IfStmt":
            c = self.ev(st["c"][0])
            if c[0] == "row":
                if c[1] not in self.row_null:
                    raise Unknown("nullness of row field %s not supplied" % c[1])
                c = ("int", int(not self.row_null[c[1]]))
            if c[0] != "int":
                raise Unknown("undecided condition")
            br = st["c"][1] if c[1] else (st["c"][2] if len(st["c"]) > 2 else None)
            return self.block(br) if br is not None else None
        if k == "ReturnStmt":
            return self.ev(st["c"][0])
        if k == "CallExpr":
            raise Unknown("call statement %s" % st.get("callee"))
        raise Unknown("statement kind %s" % k)
