"""A code generator must not drop a fragment it has just built: every call of a
function that returns a syntax-tree value (JavaCode / CCode ...) has its
result used.  An explicit (void) cast is the repository's way of saying the
call is made for its effect and is accepted; everything else is reported.

(The configured generic equivalent would be clang-tidy's
bugprone-unused-return-value.CheckedFunctions with every such function listed;
this version takes the list from the return types.)"""
from . import common
from .common import calls


def dropped_results(facts, unit_file, types):
    out, ncalls = [], 0
    for name, fn in facts.funcs.items():
        if "body" not in fn or not fn.get("file", "").endswith(unit_file):
            continue
        par = common.parents(fn["body"])
        for c in calls(fn["body"]):
            if c.get("t") not in types:
                continue
            ncalls += 1
            ch, p = c, par.get(c["id"])
            while p is not None and p["k"] == "ParenExpr":
                ch, p = p, par.get(p["id"])
            unused = False
            if p is None or p["k"] in ("CompoundStmt", "CaseStmt", "DefaultStmt", "LabelStmt"):
                unused = True
            elif p["k"] == "IfStmt":
                unused = p["c"][0] is None or p["c"][0]["id"] != ch["id"]
            elif p["k"] == "ForStmt":
                unused = p["c"][1] is None or p["c"][1]["id"] != ch["id"]
            elif p["k"] in ("WhileStmt", "DoStmt"):
                cond = p["c"][0] if p["k"] == "WhileStmt" else p["c"][1]
                unused = cond is None or cond["id"] != ch["id"]
            elif p["k"] == "BinaryOperator" and p["op"] == ",":
                unused = p["c"][0]["id"] == ch["id"]
            if unused:
                out.append({"func": name, "line": c["l"], "callee": c.get("callee"), "type": c.get("t")})
    return out, ncalls
