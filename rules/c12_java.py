"""C12: the Java back end's builtin table agrees with the other routes.

J1 row order/indexing of gjBValInfoTable, J2 operator tree per builtin equals
the reference tree of C04, J3 every foamj.* method/constant named exists with
the right arity, J4 FOAM tag coverage of the Java generator's dispatch.
Decides the table part only; behaviour of generated classes is not decided.
"""
import json
import os
import re

from . import common, bvals, bval_spec, trees, javaexpr
from .common import AnalysisBroken, enum_name, string_value, const_value, strip, walk, calls
from .c04_builtins import canon, load_frozen
from . import c16_mangle
from .trees import show, has_opaque

EXPLANATION = (
    "J1: gjBValInfoTable[i].tag == FOAM_BVAL_START+i for every row (the generator indexes by tag). J2: each row is translated "
    "to an operator tree (GJ_Op + JcOpInfoTable/jcClss printed operator, GJ_Op with constant, GJ_OpMod, GJ_Keyword/LitInt/"
    "LitFloat/LitChar constants, GJ_Cast, GJ_Const/NegConst with the Java language's constant values, GJ_Apply/GJ_Meth named "
    "calls) and compared with the reference tree of C04 (integer/boolean/character/pointer/conversion builtins) or, for "
    "constants, with the value the interpreter/C runtime use; java.math.BigInteger methods are compared against a table of "
    "the BigInteger method that implements the bigint primitive. J3: every foamj.* method or constant named by a row is "
    "declared static in lib/java/src/foamj/<Class>.java with as many parameters as the builtin has operands. J4: every FOAM "
    "tag with a case in confirmed as handled by the Java generator's dispatch (gj0Gen0, gj0SeqGen) still has its case. "
    "J5: a foamj.* method named by a row whose body is a single `return e;` is parsed (mini Java expression parser) and, "
    "with java.math.BigInteger methods mapped to the bigint primitives they implement (add -> bintPlus, compareTo(..) < 0 -> "
    "bintLT, ...), compared with the reference tree of the builtin. "
    "J6: the Java identifier mangling table gjSpecCharIdTable is injective and uniquely decodable (same rule as C16-M1). "
    "J7: in genjava.c and javacode.c the value of every call that returns a JavaCode/JavaCodeList (the jc* constructors and the "
    "gj0* generators) is used or explicitly cast to void: a fragment that is built and dropped changes the emitted program. "
    "J8: the precedence column of the binary-operator rows of jcClss orders every pair of operators as the Java grammar does, and "
    "the right operand of a binary operator is parenthesised at equal precedence (not only at lower). "
    "Not decided: behaviour of generated classes; builtins beyond the table's end are 'not implemented in Java'.")

JAVA_CAST_CLASS = {"int": "i64", "char": "char", "byte": "u8", "short": "i16", "float": "f32", "double": "f64", "long": "i64"}
# values of Java language constants (JLS / java.lang javadoc), in the FOAM class they are used for
JAVA_CONST = {
    "Character.MIN_VALUE": ("int", 0), "Byte.MAX_VALUE": ("int", 127),
    "Float.MAX_VALUE": ("flt", 3.4028234663852886e+38), "Float.MIN_VALUE": ("flt", 1.401298464324817e-45),
    "Float.MIN_NORMAL": ("flt", 1.1754943508222875e-38),
    "Double.MAX_VALUE": ("flt", 1.7976931348623157e+308), "Double.MIN_VALUE": ("flt", 5e-324),
    "Double.MIN_NORMAL": ("flt", 2.2250738585072014e-308),
    "BigInteger.ZERO": ("sym", "bint0"), "BigInteger.ONE": ("sym", "bint1"),
}
# word-size dependent integer limits: Java's int is 32 bits by design, so only the *kind* of constant is compared
JAVA_LIMIT_KIND = {"SIntMin": "Integer.MIN_VALUE", "SIntMax": "Integer.MAX_VALUE", "HIntMin": "Short.MIN_VALUE",
                   "HIntMax": "Short.MAX_VALUE", "CharMax": "Character.MAX_VALUE", "CharMin": "Character.MIN_VALUE",
                   "ByteMax": "Byte.MAX_VALUE"}
# java.math.BigInteger / java.lang methods implementing a primitive of the reference
JAVA_METHOD_MEANS = {
    ("BigInteger", "negate"): "bintNegate", ("BigInteger", "gcd"): "bintGcd", ("BigInteger", "bitLength"): "bintLength",
    ("BigInteger", "bitCount"): "bintPopCount", ("BigInteger", "testBit"): "bintBit", ("BigInteger", "intValue"): "bintToSInt",
    ("BigInteger", "floatValue"): "bintToSFlo", ("BigInteger", "doubleValue"): "bintToDFlo",
    ("Character", "isDigit"): "isdigit", ("Character", "isLetter"): "isalpha",
    ("Character", "toLowerCase"): "tolower", ("Character", "toUpperCase"): "toupper",
    ("java.math.BigInteger", "valueOf"): "bintNew",
}
METH_REFERENCE = {"BIntNegate": "bintNegate", "BIntGcd": "bintGcd", "BIntLength": "bintLength", "BIntBit": "bintBit",
                  "BIntToSInt": "bintToSInt", "BIntToSFlo": "bintToSFlo", "BIntToDFlo": "bintToDFlo",
                  "SIntToBInt": "bintNew", "CharIsDigit": "isdigit", "CharIsLetter": "isalpha",
                  "CharLower": "tolower", "CharUpper": "toupper"}
SUBSET_FAMILIES = ("Bool", "Char", "SInt", "BInt", "Ptr", "Byte", "HInt", "Arr", "Format", "Scan", "Halt", "Platform",
                   "Word")


def java_decls(path):
    """static methods (name -> set of parameter counts) and static final
    fields of a Java class, by scanning declarations."""
    if not os.path.exists(path):
        raise AnalysisBroken("Java runtime source vanished: %s" % path)
    text = open(path).read()
    text = re.sub(r"/\*.*?\*/", "", text, flags=re.S)
    text = re.sub(r"//[^\n]*", "", text)
    methods, fields = {}, {}
    for m in re.finditer(r"\b(?:public|protected|private)?\s*((?:static|final|synchronized)\s+)+([\w.<>\[\], ]+?)\s+(\w+)\s*\(([^)]*)\)\s*(?:throws [\w., ]+)?\s*\{", text):
        if "static" not in m.group(0).split("(")[0]:
            continue
        params = [p for p in m.group(4).split(",") if p.strip()]
        methods.setdefault(m.group(3), set()).add(len(params))
    for m in re.finditer(r"\b(?:public|protected|private)?\s*((?:static|final)\s+)+([\w.<>\[\]]+)\s+(\w+)\s*=\s*([^;]+);", text):
        mods = m.group(0)
        if "static" in mods and "final" in mods:
            fields[m.group(3)] = m.group(4).strip()
    return methods, fields


def _has_java_residue(t):
    if not isinstance(t, tuple):
        return False
    if t[0] in ("mcall", "scall", "sfield", "class", "cmp", "mem"):
        return True
    return any(_has_java_residue(x) for x in t[1:] if isinstance(x, tuple))


def j7(rep):
    """No Java fragment built by the generator is dropped."""
    from . import dropped
    total = 0
    for unit in ("java/genjava.c", "java/javacode.c"):
        f = common.extract(unit, all_trees=True)
        short = unit.split("/")[-1]
        sites, n = dropped.dropped_results(f, short, ("JavaCode", "JavaCodeList"))
        total += n
        for s_ in sites:
            rep.violation("J7", "dropped-fragment:%s:%s:%s" % (short, s_["func"], s_["callee"]),
                          "%s:%d (%s)" % (short, s_["line"], s_["func"]),
                          "the %s returned by %s(...) is discarded: the generator builds a piece of Java and then emits the "
                          "program without it" % (s_["type"], s_["callee"]))
        if not sites:
            rep.ok("J7", "no-dropped-fragment:" + short, sample={"calls returning JavaCode/JavaCodeList examined": n})
    rep.floor("calls returning a Java fragment", total, 1000)


def j5b(rep):
    """Runtime methods whose body is one return expression (and therefore readable by J5 / by inspection) stay that way."""
    import json
    want = json.load(open(os.path.join(os.path.dirname(__file__), "frozen", "c12_single_return_methods.json")))
    n = 0
    for cls, names in sorted(want.items()):
        path = os.path.join(common.JAVA_RT, cls + ".java")
        if not os.path.exists(path):
            raise AnalysisBroken("Java runtime class %s.java disappeared" % cls)
        have = javaexpr.single_return_methods(path)
        got = set("%s/%d" % (k, len(b[0])) for k, bs in have.items() for b in bs)
        for nm in names:
            n += 1
            if nm not in got:
                raise AnalysisBroken("foamj.%s.%s used to be a single `return e;` and is now a multi-statement body: the rules of C12 "
                                     "cannot tell whether it still computes what the interpreter computes (re-confirm by hand and update "
                                     "frozen/c12_single_return_methods.json)" % (cls, nm))
    rep.ok("J5", "single-return-methods-unchanged-in-shape", sample={"methods": n})


def j8(rep):
    """Parenthesisation of generated Java expressions is sound."""
    from . import prectab
    f = common.extract("java/javacode.c", trees=["jcBinOpPrint", "jc0NeedsParens", "jc0PrintWithParens", "jcUnaryOpPrint"])
    rec = f.records.get("jclss")
    if rec is None:
        raise AnalysisBroken("struct jclss not found in javacode.c")
    fields = [x[0] for x in rec["f"]]
    rows = []
    for r in common.table_rows(f.var("jcClss")):
        g = dict(zip(fields, r["c"]))
        pf = strip(g.get("writer") or r["c"][1])
        if pf is not None and pf.get("n") == "jcBinOpPrint":
            strs = [string_value(x) for x in r["c"] if x is not None and string_value(x) is not None]
            nums = [const_value(x) for x in r["c"][4:] if x is not None and const_value(x) is not None]
            if len(strs) >= 2 and nums:
                rows.append((enum_name(r["c"][0]), strs[1], nums[0]))
    bad, n = prectab.inconsistent_pairs(rows)
    rep.floor("binary operator classes in the Java class table", n, 15)
    badset = set()
    for n1, s1, p1, n2, s2, p2 in bad:
        badset.add((n1, n2))
        rep.violation("J8", "precedence:%s~%s" % (n1, n2), "javacode.c (jcClss %s / %s)" % (n1, n2),
                      "`%s` has precedence %d and `%s` has %d in the class table, which orders them differently from the Java grammar: "
                      "an operand that needs parentheses is printed without them (or the reverse)" % (s1, p1, s2, p2))
    if not bad:
        rep.ok("J8", "precedence-table-follows-grammar", sample={"operators": len(rows)})
    # the right operand of a left-associative operator needs parentheses at equal precedence: a - (b - c)
    fn = f.func("jcBinOpPrint")
    cs = [c for c in calls(fn["body"]) if c.get("callee") in ("jc0PrintWithParens", "jc0PrintWithParensRhs", "jc0PrintOperand")]
    if len(cs) != 2:
        raise AnalysisBroken("jcBinOpPrint: expected two operand-printing calls, found %d" % len(cs))
    np = f.func("jc0NeedsParens")
    strict_only = not any(x["k"] == "BinaryOperator" and x["op"] in (">=", "<=", "==") and
                          all(y is not None and y["k"] == "MemberExpr" and y.get("n") == "prec" for y in (strip(x["c"][0]), strip(x["c"][1])))
                          for x in walk(np["body"]))
    # accepted form: the right operand's call carries a flag that is true for left-associative operators
    def flag_text(arg):
        a = strip(arg)
        if a is not None and a["k"] == "DeclRefExpr" and a.get("dk") == "var":
            for y in walk(fn["body"]):
                for d in (y.get("decls", []) if y["k"] == "DeclStmt" else []):
                    if d.get("did") == a.get("did") and d.get("init") is not None:
                        return common.render(d["init"])
                if y["k"] == "BinaryOperator" and y["op"] == "=" and strip(y["c"][0]) is not None and strip(y["c"][0]).get("did") == a.get("did"):
                    return common.render(y["c"][1])
        return common.render(arg)
    rhs_txt = flag_text(cs[1]["c"][-1]) if len(cs[1]["c"]) >= 5 else ""
    rhs_flag = "JCO_LR" in rhs_txt and "==" in rhs_txt
    same_call = not rhs_flag
    if same_call and strict_only:
        rep.violation("J8", "right-operand-equal-precedence", "javacode.c:%d (jcBinOpPrint / jc0NeedsParens)" % fn["l"],
                      "both operands are parenthesised by the same test `outer precedence > operand precedence`: a right operand of equal "
                      "precedence is printed bare, so a - (b - c) becomes a - b - c and a / (b * c) becomes a / b * c")
    else:
        rep.ok("J8", "right-operand-equal-precedence")


def j9(rep, rows, by):
    """The translation of a builtin call by method (J2 assumes: GJ_Op -> operator over the operands in order, GJ_OpMod ->
    (a op b) % n, GJ_Apply -> Class.method(operands), GJ_Meth -> a.method(rest), GJ_Cast -> (T) a) is read off the handler
    functions themselves: they are evaluated symbolically (rules/listeval.py) with the operand list [A0, A1, ...]."""
    from . import listeval
    handlers = {}
    f0 = common.extract("java/genjava.c", trees=["gj0BCall"])
    sws = [x for x in walk(f0.func("gj0BCall")["body"]) if x["k"] == "SwitchStmt"]
    if len(sws) != 1:
        raise AnalysisBroken("gj0BCall: expected one switch over inf->method")
    for g in common.switch_cases(sws[0]):
        cs = [c.get("callee") for st in g["stmts"] for c in calls(st) if (c.get("callee") or "").startswith("gj0BCall")]
        for lab in g["labels"]:
            if lab[0] and lab[0].startswith("GJ_") and len(cs) == 1:
                handlers[lab[0]] = cs[0]
    want = ("GJ_Op", "GJ_OpMod", "GJ_Apply", "GJ_Meth", "GJ_Cast")
    missing = [m for m in want if m not in handlers]
    if missing:
        raise AnalysisBroken("gj0BCall: no handler found for %s" % missing)
    f = common.extract("java/genjava.c", trees=sorted(set(handlers[m] for m in want)))
    shapes = {}
    for r in rows:
        inf = by.get(r["tag"])
        if inf is None or r["method"] not in want:
            continue
        shapes.setdefault((r["method"], inf["argCount"], r["c1"] is None), r["tag"])
    n = 0
    for (m, argc, c1null), sample in sorted(shapes.items()):
        fn = f.func(handlers[m])
        key = "handler:%s/%d%s" % (m, argc, "" if c1null else "+const")
        where = "genjava.c:%d (%s)" % (fn["l"], handlers[m])
        ev = listeval.Evaluator(argc, {"c1": c1null, "c2": False})
        try:
            t = ev.run(fn["body"])
        except listeval.Unknown as e:
            raise AnalysisBroken("%s for %d operands could not be evaluated: %s" % (handlers[m], argc, e))
        A = [("arg", i) for i in range(argc)]
        n += 1

        def is_call(t_, name, k):
            return t_[0] == "call" and t_[1] == name and len(t_) == 2 + k
        ok, got = False, None
        if m == "GJ_Op":
            if is_call(t, "jcOp", 2) and t[2] == ("row", "gjTag") and t[3][0] == "list":
                got = t[3][1]
                exp = A if c1null else A + [got[-1]] if got and got[-1][0] == "call" else None
                ok = exp is not None and got == exp
        elif m == "GJ_OpMod":
            if is_call(t, "jcBinOp", 3) and t[2] == ("enum", "JCO_OP_Modulo") and is_call(t[3], "jcOp", 2) and t[3][3][0] == "list":
                got = t[3][3][1] + [t[4]]
                ok = argc == 3 and got == A
        elif m == "GJ_Apply":
            if is_call(t, "jcApplyMethod", 3) and t[4][0] == "list":
                got = t[4][1]
                ok = got == A
        elif m == "GJ_Meth":
            if is_call(t, "jcApplyMethod", 3) and t[4][0] == "list":
                got = [t[2]] + t[4][1]
                ok = got == A
        elif m == "GJ_Cast":
            if is_call(t, "jcCast", 2):
                got = [t[3]]
                ok = got == A[:1]
        if got is None:
            raise AnalysisBroken("%s: result `%s` does not have the constructor shape J2 assumes" % (handlers[m], (t,)))
        if ok:
            rep.ok("J9", key, sample={"builtin": sample, "operands": [a[1] if a[0] == "arg" else "const" for a in got]})
        else:
            rep.violation("J9", key, where,
                          "for a builtin with %d operands (e.g. %s) the handler hands the operands to the Java constructor as %s "
                          "instead of A0..A%d in order: a non-commutative builtin translated by this method computes a different "
                          "value in Java than in the interpreter and in C"
                          % (argc, sample[len("FOAM_BVal_"):], [("A%d" % a[1]) if a[0] == "arg" else "const" for a in got], argc - 1))
    rep.floor("(method, operand count) shapes evaluated", n, 8)


JAVA_CHAR_SPECIALS = {92: "backslash", 39: "single quote", 10: "line feed", 13: "carriage return"}


def j11(rep):
    """A character constant is written between single quotes by jcLiteralChar.  Java's grammar (JLS 3.10.4) allows any input
    character there except ' and \\, and an input character is never CR or LF: those four must be written as escapes."""
    f = common.extract("java/javacode.c", trees=["jcLiteralChar"])
    fn = f.func("jcLiteralChar")
    handled = {}
    for x in walk(fn["body"]):
        if x["k"] != "IfStmt":
            continue
        c = strip(x["c"][0])
        if c is None or c["k"] != "BinaryOperator" or c["op"] != "==":
            continue
        l, v = strip(c["c"][0]), const_value(c["c"][1])
        if l is None or l["k"] != "ArraySubscriptExpr" or const_value(l["c"][1]) != 0 or v is None:
            continue
        texts = [string_value(a) for cl in calls(x["c"][1], "strCopy") for a in cl["c"][1:2]]
        handled[v] = texts[0] if len(texts) == 1 else None
    if len(handled) < 4:
        raise AnalysisBroken("jcLiteralChar: the chain of `s[0] == c` tests was not recognised (%s)" % sorted(handled))
    where = "javacode.c:%d (jcLiteralChar)" % fn["l"]
    for v, nm in sorted(JAVA_CHAR_SPECIALS.items()):
        key = "char-literal-escaped:%s" % nm.replace(" ", "-")
        t = handled.get(v)
        if v not in handled:
            rep.violation("J11", key, where, "a %s character constant (code %d) is written between the quotes as itself: the generated "
                          "class does not compile (javac: unclosed / illegal character literal) while the interpreter runs the "
                          "program" % (nm, v))
        elif t is None or not t.startswith("\\") or len(t) < 2:
            rep.violation("J11", key, where, "the text written for a %s character constant (%r) is not an escape" % (nm, t))
        else:
            rep.ok("J11", key, sample={"text": t})


def _java_text(path):
    if not os.path.exists(path):
        raise AnalysisBroken("Java runtime source vanished: %s" % path)
    text = open(path).read()
    text = re.sub(r"/\*.*?\*/", lambda m: re.sub(r"[^\n]", " ", m.group(0)), text, flags=re.S)
    return re.sub(r"//[^\n]*", "", text)


def _block(text, i):
    """text[i] == '{': index just past the matching '}'"""
    d = 0
    for j in range(i, len(text)):
        if text[j] == "{":
            d += 1
        elif text[j] == "}":
            d -= 1
            if d == 0:
                return j + 1
    raise AnalysisBroken("unbalanced braces in Java source")


def j14(rep):
    """What the program printed before it ended is on the process's standard output, however it ended.  The interpreter and
    the C route write through C stdio, which exit() flushes.  In the Java run-time the program's stdout is System.out (flushed
    at each newline); two things keep it equal to the others: (a) nothing in foamj puts another buffer between the program and
    System.out (a BufferedOutputStream flushed `when the program finishes` is not flushed when it ends in an exception: same
    failure status, no output); (b) FoamContext.startFoam flushes System.out in a `finally` around the program's run, so the
    text after the last newline is not lost either."""
    import glob
    files = sorted(glob.glob(os.path.join(common.JAVA_RT, "*.java")))
    rep.floor("Java run-time sources", len(files), 20)
    n = 0
    for path in files:
        text = _java_text(path)
        base = os.path.basename(path)
        for m in re.finditer(r"\bnew\s+([\w.]+)\s*\(([^;{]*)", text):
            if re.search(r"\bSystem\s*\.\s*out\b", m.group(2)):
                n += 1
                line = text.count("\n", 0, m.start()) + 1
                rep.violation("J14", "stdout-not-wrapped:%s" % base, "lib/java/src/foamj/%s:%d" % (base, line),
                              "`new %s(.. System.out ..)`: a second buffer between the program and the process's standard output. "
                              "It is emptied only where the run-time says so; a program that ends in an uncaught exception, "
                              "`never`, a failed assert or `error` leaves through a Java exception, and what it printed before "
                              "is lost, while the interpreter and the executable show it (same failure status, different output)"
                              % m.group(1))
    if n == 0:
        rep.ok("J14", "stdout-not-wrapped", sample={"files": len(files)})
    text = _java_text(os.path.join(common.JAVA_RT, "FoamContext.java"))
    m = re.search(r"\bvoid\s+startFoam\s*\([^)]*\)\s*\{", text)
    if not m:
        raise AnalysisBroken("FoamContext.startFoam not found")
    body = text[m.end() - 1:_block(text, m.end() - 1)]
    run = re.search(r"\.\s*run\s*\(\s*\)", body)
    if not run:
        raise AnalysisBroken("FoamContext.startFoam no longer calls run()")
    ok = False
    for t in re.finditer(r"\btry\s*\{", body):
        e = _block(body, t.end() - 1)
        if not (t.end() <= run.start() < e):
            continue
        rest = body[e:]
        # catch clauses, then finally
        k = 0
        while True:
            mm = re.match(r"\s*catch\s*\([^)]*\)\s*\{", rest[k:])
            if not mm:
                break
            k = _block(rest, k + mm.end() - 1)
        mm = re.match(r"\s*finally\s*\{", rest[k:])
        if mm:
            fb = rest[k + mm.end() - 1:_block(rest, k + mm.end() - 1)]
            if re.search(r"\bSystem\s*\.\s*out\s*\.\s*flush\s*\(", fb):
                ok = True
    line = text.count("\n", 0, m.start()) + 1
    if ok:
        rep.ok("J14", "program-end-flushes-stdout")
    else:
        rep.violation("J14", "program-end-flushes-stdout", "lib/java/src/foamj/FoamContext.java:%d (startFoam)" % line,
                      "the program's run is not wrapped in try/finally with System.out.flush(): System.out is flushed at newlines "
                      "only, so the text after the last newline (a prompt, a result printed without newline) never reaches the "
                      "output on the Java route, while the interpreter and the executable print it")


def j15(rep):
    """Aldor strings are mutable and a string made from a literal *is* the literal's array (libaldor's `string: Literal -> %`
    does not copy).  The interpreter and the C route build a fresh array each time a literal is evaluated; so must the Java
    route: gj0ArrChar emits `"abc\0".toCharArray()`, which allocates.  A run-time helper that hands out one array per literal
    text makes an in-place update of a string visible in every later evaluation of that literal (and of every other literal
    with the same text): same exit status, different output.  The expression returned by gj0ArrChar applies `toCharArray` to
    the literal; anything else is a violation when the helper it names keeps a static map, otherwise refused."""
    f = common.extract("java/genjava.c", trees=["gj0ArrChar"])
    fn = f.func("gj0ArrChar")
    rets = [x for x in walk(fn["body"]) if x["k"] == "ReturnStmt" and x.get("c") and x["c"][0] is not None]
    if len(rets) != 1:
        raise AnalysisBroken("gj0ArrChar: expected one return")
    lits = [y.get("v") for y in walk(rets[0]) if y["k"] == "StringLiteral"]
    where = "java/genjava.c:%d (gj0ArrChar)" % rets[0]["l"]
    if "toCharArray" in lits:
        rep.ok("J15", "literal-array-fresh-per-evaluation", sample={"method": "toCharArray"})
        return
    helper = [v for v in lits if v and re.match(r"^[A-Za-z_]\w*$", v)]
    text = _java_text(os.path.join(common.JAVA_RT, "Foam.java"))
    for h in helper:
        m = re.search(r"\bstatic\s+[\w\[\]<>, ]+\s+%s\s*\([^)]*\)\s*\{" % re.escape(h), text)
        if m:
            body = text[m.end() - 1:_block(text, m.end() - 1)]
            if re.search(r"\.\s*(get|computeIfAbsent|putIfAbsent)\s*\(", body):
                rep.violation("J15", "literal-array-fresh-per-evaluation", where,
                              "the array of a string literal is obtained from Foam.%s, which looks it up in a table: every "
                              "evaluation of the literal (and every literal with the same text) shares one array, so a string "
                              "updated in place (`s.i := c`) changes what the literal yields next time; the interpreter and the "
                              "executable allocate a new array each time" % h)
                return
    raise AnalysisBroken("gj0ArrChar no longer emits `<literal>.toCharArray()` (%s): whether each evaluation gets a fresh array "
                         "cannot be told" % lits)


def j16(rep):
    """The double-word builtins (WordTimesDouble, WordDivideDouble: the primitives under libaldor's modular arithmetic) treat
    their operands as unsigned words on every route.  In foamj a word is an `int`; widening it with `(long) w.toSInt()` extends
    its sign, so the low half of a dividend with its top bit set is subtracted instead of added and the product of two words
    above 2^31 loses its high half: `mod_*(90000, 90000, 1000003)` is 21289 from Java and 975703 elsewhere.  In the methods
    `word*Double` of foamj.Math every `toSInt()` that becomes a `long` is masked with 0xFFFFFFFFL, and the quotient and shifts
    are the unsigned ones (`Long.divideUnsigned`, `>>>`)."""
    text = _java_text(os.path.join(common.JAVA_RT, "Math.java"))
    n = 0
    for meth in ("wordTimesDouble", "wordDivideDouble"):
        m = re.search(r"\bstatic\s+[\w\[\]<>, ]+\s+%s\s*\([^)]*\)\s*\{" % meth, text)
        if not m:
            raise AnalysisBroken("foamj.Math.%s not found" % meth)
        body = text[m.end() - 1:_block(text, m.end() - 1)]
        line = text.count("\n", 0, m.start()) + 1
        n += 1
        widened = re.findall(r"\(long\)\s*\w+\.toSInt\(\)(?!\s*&)", body)
        widened += re.findall(r"\blong\s+\w+\s*=\s*\w+\.toSInt\(\)\s*;", body)
        signed_ops = re.findall(r"[^>]>>\s*32", body) + (re.findall(r"\bfull\s*/\s*d\b|\bfull\s*%\s*d\b", body) if meth == "wordDivideDouble" else [])
        key = "double-word-operands-unsigned:%s" % meth
        if not widened and not signed_ops:
            rep.ok("J16", key)
        else:
            rep.violation("J16", key, "lib/java/src/foamj/Math.java:%d (%s)" % (line, meth),
                          "%s widens a word with its sign (%s): the low half of a double word whose top bit is set is taken as "
                          "negative, so `mod_*(90000, 90000, 1000003)` is 21289 on the Java route and 975703 under the interpreter "
                          "and in an executable" % (meth, "; ".join(x.strip() for x in (widened + signed_ops)[:3])))
    rep.floor("double-word methods of foamj.Math", n, 2)


def j13(rep):
    """gj0BInt writes a big-integer constant either as BigInteger.valueOf(<integer literal>) or as new BigInteger("<digits>").
    jcLiteralInteger prints through `%d`, and a Java integer literal without suffix is an `int`: the literal path is only right
    for values of at most 31 bits.  The guard on the bit length must say so."""
    f = common.extract("java/genjava.c", trees=["gj0BInt"])
    g = common.extract("java/javacode.c", trees=["jcLiteralInteger"])
    fmts = [string_value(a) for c in calls(g.func("jcLiteralInteger")["body"]) for a in c["c"][1:] if string_value(a)]
    if not any(t in ("%d", "%i") for t in fmts):
        raise AnalysisBroken("jcLiteralInteger no longer prints with %%d (%s): the width of the literal path has to be re-derived" % fmts)
    fn = f.func("gj0BInt")
    par = common.parents(fn["body"])
    lits = calls(fn["body"], "jcLiteralInteger")
    if not lits:
        raise AnalysisBroken("gj0BInt: no jcLiteralInteger call (the literal path vanished)")
    for c in lits:
        where = "genjava.c:%d (gj0BInt)" % c["l"]
        bits = None
        cur = c
        while cur["id"] in par:
            p_ = par[cur["id"]]
            if p_["k"] == "IfStmt" and any(y is cur for y in walk(p_["c"][1])):
                for y in walk(p_["c"][0]):
                    if y["k"] != "BinaryOperator" or y["op"] not in ("<", "<=", ">", ">="):
                        continue
                    l, r, op = y["c"][0], y["c"][1], y["op"]
                    if op in (">", ">="):
                        l, r, op = r, l, {">": "<", ">=": "<="}[op]
                    if any(z.get("callee") == "bintLength" for z in walk(l)) and const_value(r) is not None:
                        b = const_value(r) - 1 if op == "<" else const_value(r)
                        bits = b if bits is None else min(bits, b)
            cur = p_
        if bits is None:
            raise AnalysisBroken("gj0BInt: the literal path is not under a `bintLength(val) < constant` test")
        if bits <= 31:
            rep.ok("J13", "bigint-literal-fits-int", sample={"bits at most": bits})
        else:
            rep.violation("J13", "bigint-literal-fits-int", where,
                          "big-integer constants of up to %d bits are written as BigInteger.valueOf(<literal printed with %%d>): a "
                          "value of 32 bits or more is printed as its low 32 bits, signed (2147483648 becomes -2147483648), the class "
                          "compiles and computes with the wrong constant while the interpreter uses the right one" % bits)


def run(tier, only=None):
    rep = common.Report("C12", tier, EXPLANATION)
    f_foam = common.extract("foam.c")
    f_gj = common.extract("java/genjava.c", trees=["gj0Gen0", "gj0SeqGen", "gj0BCall"])
    f_jc = common.extract("java/javacode.c")
    info = bvals.info_table(f_foam)
    by = {r["tag"]: r for r in info}
    bv = None
    for e in f_foam.raw["enums"]:
        d = dict(e["e"])
        if "FOAM_BVal_BoolFalse" in d:
            bv = d
    if bv is None:
        raise AnalysisBroken("FOAM_BVal_ enumeration not found")
    start = bv["FOAM_BVAL_START"]

    # --- Java operator tables ----------------------------------------------
    clss = {}
    rec = f_jc.records.get("jc_clss")
    var = f_jc.vars.get("jcClss") or next((v for n, v in f_jc.vars.items() if v.get("init") and "jc_clss" in v.get("t", "")), None)
    if var is None:
        raise AnalysisBroken("Java code class table (struct jc_clss[]) not found in javacode.c")
    for r in common.table_rows(var):
        c = r["c"]
        cid = enum_name(c[0])
        strs = [string_value(x) for x in c[1:] if x is not None and string_value(x) is not None]
        if cid and len(strs) >= 2:
            clss[cid] = strs[1].strip()
    ops = {}
    for r in common.table_rows(f_jc.var("JcOpInfoTable")):
        c = r["c"]
        op = enum_name(c[0])
        builder = common.strip(c[1])
        b = builder["n"] if builder is not None and builder["k"] == "DeclRefExpr" else None
        cls = enum_name(c[2]) if len(c) > 2 and c[2] is not None else None
        ops[op] = (b, cls)
    rep.floor("Java operator rows", len(ops), 15)

    def jop(op, args):
        b, cls = ops.get(op, (None, None))
        if b == "jcOpNot" and len(args) == 1:
            return ("un", "!", args[0])
        if b == "jcOpNegate" and len(args) == 1:
            return ("un", "-", args[0])
        if b == "jcOpTimesPlus" and len(args) == 3:
            return ("bin", "+", ("bin", "*", args[0], args[1]), args[2])
        if b is None and cls in clss and len(args) == 2:
            return ("bin", clss[cls], args[0], args[1])
        return ("opaque", "Java operator %s with %d operands" % (op, len(args)))

    # --- table -------------------------------------------------------------
    var = f_gj.var("gjBValInfoTable")
    rec = f_gj.records.get("gjBVal_info")
    if rec is None:
        raise AnalysisBroken("struct gjBVal_info not found")
    fields = [f[0] for f in rec["f"]]
    rows = []
    for r in common.table_rows(var):
        g = dict(zip(fields, r["c"] + [None] * (len(fields) - len(r["c"]))))
        rows.append({"tag": enum_name(g["tag"]), "tagv": const_value(g["tag"]), "method": enum_name(g["method"]),
                     "gjTag": enum_name(g["gjTag"]) if g.get("gjTag") is not None else None,
                     "c1": string_value(g["c1"]) if g.get("c1") is not None else None,
                     "c2": string_value(g["c2"]) if g.get("c2") is not None else None, "line": r["l"]})
    rep.floor("gjBValInfoTable rows", len(rows), 180)
    # J1
    for i, r in enumerate(rows):
        key = "row:%s" % r["tag"]
        if r["tagv"] != start + i:
            rep.violation("J1", key, "genjava.c:%d" % r["line"],
                          "row %d of gjBValInfoTable carries %s (=%s); gj0BCallBValInfo indexes the table by tag, so builtin "
                          "%d would be translated with this row" % (i, r["tag"], r["tagv"], start + i))
        else:
            rep.ok("J1", key, nontrivial=False)
    beyond = [t for t, v in bv.items() if t.startswith("FOAM_BVal_") and v >= start + len(rows)]
    rep.note("Java: not implemented (beyond the table's end): %s" % ", ".join(sorted(beyond)))

    # --- J3 declarations -----------------------------------------------------
    decls = {}

    def decl_of(cls):
        if cls not in decls:
            decls[cls] = java_decls(os.path.join(common.JAVA_RT, cls + ".java"))
        return decls[cls]

    # interpreter constants for value comparison
    f_fint = common.extract("fint.c", trees=["fintEvalBCall"])
    rt = [common.extract(u, "runtime", all_trees=True) for u in ("foam_c.c", "foam_i.c", "foam_cfp.c")]
    inline = bvals.inline_table(rt)
    interp, _, _ = bvals.interp_cases(f_fint, inline)

    compared = 0
    bodies = {}
    n5 = [0]
    for r in rows:
        tag = r["tag"]
        inf = by.get(tag)
        if inf is None:
            continue
        short = tag[len("FOAM_BVal_"):]
        argc = inf["argCount"]
        A = [("arg", i) for i in range(argc)]
        where = "genjava.c:%d (gjBValInfoTable %s)" % (r["line"], short)
        m = r["method"]
        used = set()
        jt = None
        named = None
        if m == "GJ_Keyword":
            jt = {"true": ("int", 1), "false": ("int", 0), "null": ("int", 0)}.get(r["c1"], ("sym", r["c1"]))
        elif m == "GJ_LitChar":
            jt = ("int", ord(r["c1"])) if r["c1"] and len(r["c1"]) == 1 else ("opaque", "char literal %r" % r["c1"])
        elif m == "GJ_LitFloat":
            try:
                jt = ("flt", float(r["c1"].rstrip("fFdD")))
            except Exception:
                jt = ("opaque", "float literal %r" % r["c1"])
        elif m == "GJ_LitInt":
            mm = re.match(r"\s*(?:\(\s*(\w+)\s*\)\s*)?(-?\d+)\s*$", r["c1"] or "")
            jt = ("int", int(mm.group(2))) if mm else ("opaque", "int literal %r" % r["c1"])
        elif m == "GJ_Op":
            args = list(A)
            if r["c1"] is not None:
                c = r["c1"]
                if c == "null":
                    args.append(("int", 0))
                elif re.match(r"-?\d+$", c):
                    args.append(("int", int(c)))
                elif re.match(r"-?\d+\.\d*$", c):
                    args.append(("flt", float(c)))
                else:
                    args.append(("sym", c))
            jt = jop(r["gjTag"], args)
        elif m == "GJ_OpMod":
            jt = ("bin", "%", jop(r["gjTag"], A[:2]), A[2]) if argc == 3 else ("opaque", "OpMod with %d operands" % argc)
        elif m == "GJ_Cast":
            cls = JAVA_CAST_CLASS.get(r["c1"])
            jt = ("cast", cls, A[0]) if cls and argc == 1 else ("opaque", "cast to %r" % r["c1"])
        elif m in ("GJ_Const", "GJ_NegConst"):
            named = "%s.%s" % (r["c1"], r["c2"])
            jt = JAVA_CONST.get(named, ("sym", named))
            if m == "GJ_NegConst":
                jt = ("un", "-", jt)
        elif m == "GJ_Apply":
            named = "%s.%s" % (r["c1"], r["c2"])
            mean = JAVA_METHOD_MEANS.get((r["c1"], r["c2"]))
            jt = ("call", mean or named) + tuple(A)
        elif m == "GJ_Meth":
            named = "BigInteger.%s" % r["c1"]
            mean = JAVA_METHOD_MEANS.get(("BigInteger", r["c1"]))
            jt = ("call", mean or named) + tuple(A)
        elif m in ("GJ_Exception", "GJ_NotImpl", "GJ_LitString"):
            rep.note("%s: %s (not compared)" % (short, m))
            continue
        else:
            raise AnalysisBroken("unknown GJ_ method %s at row %s" % (m, short))

        # J3
        if m in ("GJ_Apply", "GJ_Const", "GJ_NegConst") and r["c1"] and r["c1"].startswith("foamj."):
            cls = r["c1"].split(".", 1)[1]
            methods, fields_ = decl_of(cls)
            key = "decl:%s" % short
            insubset = short.startswith(SUBSET_FAMILIES)
            if m == "GJ_Apply":
                arities = methods.get(r["c2"])
                if arities is None:
                    msg = "%s names %s.%s which is not a static method of lib/java/src/foamj/%s.java" % (short, r["c1"], r["c2"], cls)
                    if insubset:
                        rep.violation("J3", key, where, msg)
                    else:
                        rep.note("Java runtime lacks " + msg)
                elif argc not in arities:
                    rep.violation("J3", key, where, "%s has %d operands but %s.%s is declared with %s parameters" % (
                        short, argc, r["c1"], r["c2"], sorted(arities)))
                else:
                    rep.ok("J3", key)
            else:
                if r["c2"] not in fields_:
                    msg = "%s names constant %s.%s which is not a static final field of %s.java" % (short, r["c1"], r["c2"], cls)
                    if insubset or short.startswith("Round"):
                        rep.violation("J3", key, where, msg)
                    else:
                        rep.note(msg)
                else:
                    rep.ok("J3", key)
                    # constants with an integer initialiser can be compared by value
                    if re.match(r"-?\d+$", fields_[r["c2"]]):
                        jt = ("int", int(fields_[r["c2"]]))

        # J2
        if has_opaque(jt):
            raise AnalysisBroken("row %s of gjBValInfoTable could not be translated: %s" % (short, show(jt)))
        key = "tree:%s" % short
        if short in JAVA_LIMIT_KIND:
            want = JAVA_LIMIT_KIND[short]
            if named != want or m != "GJ_Const":
                rep.violation("J2", key, where, "%s must be the Java constant %s (the limit of the Java type that carries this "
                                                "FOAM type), the table generates %s" % (short, want, show(jt) if named is None else named))
            else:
                rep.ok("J2", key)
            compared += 1
            continue
        ref = bval_spec.reference(short)
        if short in METH_REFERENCE:
            ref = ("call", METH_REFERENCE[short]) + tuple(A)
            if short in ("CharIsDigit", "CharIsLetter"):
                ref = ("bin", "!=", ref, ("int", 0))
        pivot = "reference"
        if ref is None:
            ic = interp.get(tag)
            if ic is not None and ic.value is not None and ic.value[0] in ("int", "flt") and jt[0] in ("int", "flt", "un"):
                ref = ic.value
                pivot = "the value the interpreter and C runtime use"
        if ref is None:
            rep.note("%s: Java form %s has no reference to compare with" % (short, show(jt)))
            continue
        if any(c.startswith(("foamj.", "java.", "BigInteger.", "Character.")) for c in trees.callees_in(jt)):
            # J5: a foamj.* method whose body is a single `return e;` is compared with the reference as well
            done = False
            if m == "GJ_Apply" and r["c1"].startswith("foamj."):
                cls = r["c1"].split(".", 1)[1]
                if cls not in bodies:
                    bodies[cls] = javaexpr.single_return_methods(os.path.join(common.JAVA_RT, cls + ".java"))
                cands = [b for b in bodies[cls].get(r["c2"], []) if len(b[0]) == argc]
                # overloads (isEven(int) / isEven(BigInteger)): choose by the builtin's operand type
                jtype = {"FOAM_BInt": "BigInteger", "FOAM_SInt": "int"}.get(inf["argTypes"][0] if inf["argTypes"] else None)
                if len(cands) > 1 and jtype:
                    src = open(os.path.join(common.JAVA_RT, cls + ".java")).read()
                    cands = [b for b in cands if re.search(r"\b%s\s*\(\s*%s\s+%s\b" % (re.escape(r["c2"]), jtype, re.escape(b[0][0])), src)]
                if len(cands) == 1:
                    params, text = cands[0]
                    try:
                        jbody = javaexpr.to_reference(javaexpr.parse(text, params))
                    except ValueError as e:
                        raise AnalysisBroken("cannot parse the body of %s.%s: %s" % (r["c1"], r["c2"], e))
                    if not any(c.startswith("BigInteger.") for c in trees.callees_in(jbody)) and not _has_java_residue(jbody):
                        jn = canon(jbody, inf, used)
                        rn = canon(ref, inf, used)
                        n5[0] += 1
                        key5 = "body:%s" % short
                        where5 = "lib/java/src/foamj/%s.java (%s)" % (cls, r["c2"])
                        if jn == rn:
                            rep.ok("J5", key5, sample={"builtin": short, "java": text, "tree": show(jn)} if n5[0] <= 4 else None)
                        else:
                            rep.violation("J5", key5, where5,
                                          "%s: the Java runtime method %s.%s returns %s, the reference is %s" % (
                                              short, r["c1"], r["c2"], show(jn), show(rn)))
                        done = True
            if not done:
                rep.note("%s: implemented by runtime method %s (declaration checked by J3, body not analysed)" % (short, show(jt)))
            continue
        jn = canon(jt, inf, used)
        rn = canon(ref, inf, used)
        if inf["retType"] == "FOAM_SFlo" and jn[0] == "flt" and rn[0] == "flt":
            import struct
            f32 = lambda v: struct.unpack("f", struct.pack("f", v))[0]
            try:
                jn, rn = ("flt", f32(jn[1])), ("flt", f32(rn[1]))   # the value is carried by a float
            except OverflowError:
                pass
        compared += 1
        if jn == rn:
            rep.ok("J2", key, sample={"builtin": short, "java": show(jn), "reference": show(rn)} if argc else None)
        else:
            rep.violation("J2", key, where, "%s: generated Java computes %s but %s is %s" % (short, show(jn), pivot, show(rn)),
                          detail={"java": show(jn), "reference": show(rn)})
    rep.floor("Java rows compared with a reference", compared, 110)
    rep.floor("Java runtime method bodies compared with the reference", n5[0], 12)

    # --- J4 FOAM tag coverage --------------------------------------------------
    def handled(facts, names):
        tags = set()
        for n in names:
            fn = facts.func(n)
            for sw in common.find(fn["body"], "SwitchStmt"):
                for g in common.switch_cases(sw):
                    labs = [l[0] for l in g["labels"] if l[0] and l[0] != "default" and l[0].startswith("FOAM_")
                            and not l[0].startswith(("FOAM_BVal_", "FOAM_Proto_", "FOAM_Halt_"))]
                    if not labs:
                        continue
                    # a group whose body only reports a bug is not a handler
                    calls = [c.get("callee") for s in g["stmts"] for c in common.calls(s)]
                    if calls and all(c in ("bug", "bugBadCase", "bugUnimpl", "comsgFatal") for c in calls):
                        continue
                    tags.update(labs)
        return tags

    jtags = handled(f_gj, ["gj0Gen0", "gj0SeqGen"])
    rep.floor("FOAM tags handled by the Java generator", len(jtags), 30)
    frozen = set(load_frozen("c12_java_handled_tags.json"))
    for t in sorted(frozen):
        if t in jtags:
            rep.ok("J4", "tag:" + t, nontrivial=False)
        else:
            rep.violation("J4", "tag:" + t, "genjava.c:gj0Gen0/gj0SeqGen",
                          "the Java generator's dispatch no longer has a case for %s (it had one when the instances were "
                          "confirmed): programs using it now reach the default 'not handled' branch" % t)
    for t in sorted(jtags - frozen):
        rep.note("Java generator handles %s, which is not in the frozen list yet" % t)
    # --- J6 Java identifier mangling table ---------------------------------------
    f_gj2 = common.extract("java/genjava.c")
    jrows = c16_mangle.mangle_table_rows(f_gj2, "gjSpecCharIdTable")
    rep.floor("rows of gjSpecCharIdTable", len(jrows), 25)
    c16_mangle.check_mangle_table(rep, "J6", jrows, "genjava.c", "gjSpecCharIdTable")
    rep.assumptions += ["Java's int carries FOAM SInt by design: word-size dependent limits are compared by kind, not value",
                        "java.lang/java.math methods mean what their javadoc says (table JAVA_METHOD_MEANS)"]
    try:
        j5b(rep)
    except AnalysisBroken as e:
        if not rep.violations:
            raise
        rep.note("J5b not evaluated: %s" % e)
    j7(rep)
    j8(rep)
    try:
        j9(rep, rows, by)
    except AnalysisBroken as e:
        if not rep.violations:
            raise
        rep.note("J9 not evaluated: %s" % e)
    j11(rep)
    j13(rep)
    j14(rep)
    j15(rep)
    j16(rep)
    from . import variant_dispatch
    variant_dispatch.report(rep, "J12", common.extract("java/genjava.c", all_trees=True), "genjava.c", "gj0Gen0", 35)
    from . import variadic
    variadic.report(rep, "J10", [u for u in common.compiler_units() if u.startswith("java/")], floor=70, what="in the Java generator")
    return rep
