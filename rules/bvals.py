"""Extraction of every copy of the builtin (BVal) definitions:

  info     foam.c   foamBValInfoTable      (types, arity, purity flag)
  folder   of_cfold.c cfoldBCall           (compile-time evaluation)
  interp   fint.c   fintEvalBCall          (interpreter)
  ctable   genc.c   ccBValInfoTable + gc0Builtin/gc0FCall/gc0Cop interpretation
  cexpr    foam_c.h expression form (function or function-like macro), via a
           generated probe unit parsed by clang
  cstmt    foam_c.h statement-macro form, via the same probe unit
"""
import os
import re

from . import common
from .common import AnalysisBroken, strip, strip_noop, walk, find, kids, const_value, enum_name, string_value
from . import trees
from .trees import Env, norm, simp

FOAM_TC = {  # result class of a FOAM scalar type as stored by the runtime
    "FOAM_Bool": "bool", "FOAM_Char": "char", "FOAM_Byte": "u8", "FOAM_HInt": "i16", "FOAM_SInt": "i64",
    "FOAM_Word": "i64", "FOAM_SFlo": "f32", "FOAM_DFlo": "f64",
}
FI_TYPE = {  # C type used by generated code for a FOAM type (genc.c gc0TypeId naming convention)
    "FOAM_Bool": "FiBool", "FOAM_Char": "FiChar", "FOAM_Byte": "FiByte", "FOAM_HInt": "FiHInt", "FOAM_SInt": "FiSInt",
    "FOAM_Word": "FiWord", "FOAM_SFlo": "FiSFlo", "FOAM_DFlo": "FiDFlo", "FOAM_BInt": "FiBInt", "FOAM_Ptr": "FiPtr",
    "FOAM_Arr": "FiArr", "FOAM_Rec": "FiRec", "FOAM_Clos": "FiClos", "FOAM_Nil": "FiPtr", "FOAM_Env": "FiEnv",
    "FOAM_TR": "FiPtr", "FOAM_NOp": "FiWord",
}
# union member used to read an operand of a FOAM type
FOLDER_MEMBER = {"FOAM_Bool": "foamBool", "FOAM_Char": "foamChar", "FOAM_Byte": "foamByte", "FOAM_HInt": "foamHInt",
                 "FOAM_SInt": "foamSInt", "FOAM_SFlo": "foamSFlo", "FOAM_DFlo": "foamDFlo", "FOAM_BInt": "foamBInt",
                 "FOAM_Arr": "foamArr", "FOAM_Word": "foamWord", "FOAM_Ptr": "foamPtr", "FOAM_Nil": "foamNil"}
INTERP_MEMBER = {"FOAM_Bool": "fiBool", "FOAM_Char": "fiChar", "FOAM_Byte": "fiByte", "FOAM_HInt": "fiHInt",
                 "FOAM_SInt": "fiSInt", "FOAM_SFlo": "fiSFlo", "FOAM_DFlo": "fiDFlo", "FOAM_BInt": "fiBInt",
                 "FOAM_Arr": "fiArr", "FOAM_Word": "fiWord", "FOAM_Ptr": "fiPtr", "FOAM_Rec": "fiRec",
                 "FOAM_Clos": "fiClos", "FOAM_Nil": "fiPtr", "FOAM_Env": "fiEnv", "FOAM_TR": "fiPtr"}


# --------------------------------------------------------------------------
# info table
# --------------------------------------------------------------------------

def info_table(facts):
    """foamBValInfoTable rows -> list of dicts in table order."""
    var = facts.var("foamBValInfoTable")
    rec = facts.records.get("foamBVal_info")
    if rec is None:
        raise AnalysisBroken("struct foamBVal_info not found")
    fields = [f[0] for f in rec["f"]]
    need = ["tag", "str", "hasSideFx", "argCount", "argTypes", "retType", "retCount", "retTypes"]
    for f in need:
        if f not in fields:
            raise AnalysisBroken("struct foamBVal_info lost field %s" % f)
    rows = []
    for r in common.table_rows(var):
        c = r["c"]
        if len(c) < len(fields):
            raise AnalysisBroken("foamBValInfoTable row at line %d has %d fields" % (r["l"], len(c)))
        g = dict(zip(fields, c))
        argc = const_value(g["argCount"])
        at = []
        if g["argTypes"] is not None and g["argTypes"]["k"] == "InitListExpr":
            for e in g["argTypes"]["c"]:
                at.append(enum_name(e) or const_value(e))
        rt = []
        if g["retTypes"] is not None and g["retTypes"]["k"] == "InitListExpr":
            for e in g["retTypes"]["c"]:
                rt.append(enum_name(e) or const_value(e))
        rows.append({
            "tag": enum_name(g["tag"]), "tagv": const_value(g["tag"]), "str": string_value(g["str"]),
            "hasSideFx": const_value(g["hasSideFx"]), "argCount": argc, "argTypes": at[:argc] if argc is not None else at,
            "retType": enum_name(g["retType"]) or const_value(g["retType"]),
            "retCount": const_value(g["retCount"]), "retTypes": rt, "line": r["l"],
        })
    return rows


# --------------------------------------------------------------------------
# folder
# --------------------------------------------------------------------------

class Case:
    def __init__(self, tag, line):
        self.tag = tag
        self.line = line
        self.value = None        # normalised tree or None (absent / unfolded)
        self.multi = None        # list of trees for multi-valued results
        self.ctor = None         # FOAM_x of the constructed result
        self.access = {}         # operand index -> set of accessor member names
        self.asserted = {}       # operand index -> FOAM_x asserted by the folder
        self.evals = []          # interpreter: operands evaluated in order
        self.mytype = None
        self.guard = None
        self.forced_bool = set()
        self.notes = []
        self.raw = None
        self.unknown = set()
        self.rewrites = set()
        self.extra_calls = []


def _argv_index(n):
    """argv[k] -> k"""
    s = strip(n)
    if s is not None and s["k"] == "ArraySubscriptExpr":
        base = strip(s["c"][0])
        if base is not None and base["k"] == "DeclRefExpr" and base["n"] == "argv":
            return const_value(s["c"][1])
    return None


def folder_cases(facts, inline=None):
    fn = facts.func("cfoldBCall")
    sws = [s for s in find(fn["body"], "SwitchStmt")
           if strip(s["c"][0]) is not None and strip(s["c"][0]).get("n") == "tag"]
    if len(sws) != 1:
        raise AnalysisBroken("cfoldBCall: expected one switch over 'tag', found %d" % len(sws))
    out = {}
    for g in common.switch_cases(sws[0]):
        tags = [l[0] for l in g["labels"] if l[0] != "default"]
        if not tags:
            continue
        for tag in tags:
            out[tag] = _folder_case(tag, g, inline)
    return out, fn


def _folder_case(tag, g, inline=None):
    cs = Case(tag, g["line"])
    locals_ = {}

    def arg_of(n):
        if n["k"] == "MemberExpr" and not n.get("arrow", False):
            base = n["c"][0]
            if base["k"] == "MemberExpr" and base.get("arrow"):
                k = _argv_index(base["c"][0])
                if k is not None:
                    cs.access.setdefault(k, set()).add((base["n"], n["n"]))
                    return ("arg", k)
        if n["k"] == "ArraySubscriptExpr":
            k = _argv_index(n)
            if k is not None:
                cs.access.setdefault(k, set()).add((None, None))
                return ("arg", k)
        return None

    env = Env(arg_of=arg_of, locals_=locals_, unknown=cs.unknown, inline=inline)
    env.used_rewrites = cs.rewrites
    stmts = list(g["stmts"])
    if len(stmts) == 1 and stmts[0]["k"] == "CompoundStmt":
        cs.notes.append("compound body (table-driven rewrite), not a value fold")
        cs.value = None
        cs.raw = "compound"
        return cs
    # an inner block among the statements is read as its statements (a temporary declared next to its use)
    flat = []
    for st in stmts:
        if st is not None and st["k"] == "CompoundStmt":
            flat.extend(x for x in st["c"] if x is not None)
        else:
            flat.append(st)
    stmts = flat
    for st in stmts:
        k = st["k"]
        if k == "DeclStmt":
            for d in st.get("decls", []):
                if d.get("init") is not None and d.get("did") is not None:
                    locals_[d["did"]] = norm(d["init"], env)
                    cs.rewrites.add("single-assignment temporary substituted")
            continue
        if k == "IfStmt":
            cond, then = st["c"][0], st["c"][1]
            c = strip(cond)
            if (c["k"] == "UnaryOperator" and c["op"] == "!" and then is not None and then["k"] == "BreakStmt"):
                cs.guard = strip(c["c"][0]).get("n")
                continue
            # `if (<operand data> == 0) break;`: the folder declines (zero divisor is left to fault at run time); the value it
            # computes for the remaining operands is unchanged
            if c["k"] == "BinaryOperator" and c["op"] == "==" and const_value(c["c"][1]) == 0 and then is not None \
                    and then["k"] == "BreakStmt" and arg_of(strip(c["c"][0])) is not None:
                cs.notes.append("declines for operand %d == 0" % arg_of(strip(c["c"][0]))[1])
                continue
            cs.notes.append("unrecognised if at line %d" % st["l"])
            cs.unknown.add("IfStmt")
        elif k == "DoStmt":
            # assert(foamTag(argv[k]) == FOAM_T) / assert(argv[0]->foamArr.baseType == FOAM_Char)
            for b in find(st, "BinaryOperator"):
                if b["op"] == "==" and enum_name(b["c"][1]) and enum_name(b["c"][1]).startswith("FOAM_"):
                    for x in walk(b["c"][0]):
                        kx = _argv_index(x) if x["k"] == "ArraySubscriptExpr" else None
                        if kx is not None:
                            lhs = strip(b["c"][0])
                            if lhs["k"] == "MemberExpr" and lhs["n"] == "tag":
                                cs.asserted[kx] = enum_name(b["c"][1])
                            break
        elif k == "BinaryOperator" and st["op"] == "=":
            lhs = strip(st["c"][0])
            rhs = st["c"][1]
            if lhs["k"] == "DeclRefExpr" and lhs["n"] == "foam":
                _folder_result(cs, rhs, env)
            elif lhs["k"] == "DeclRefExpr" and lhs.get("dk") == "var":
                locals_[lhs["did"]] = norm(rhs, env)
                cs.rewrites.add("single-assignment temporary substituted")
            else:
                cs.notes.append("unrecognised assignment at line %d" % st["l"])
                cs.unknown.add("assign")
        elif k == "CallExpr":
            cs.extra_calls.append(st.get("callee"))
        elif k == "BreakStmt":
            pass
        else:
            cs.unknown.add(k)
    return cs


def _folder_result(cs, rhs, env):
    r = strip(rhs)
    if r["k"] != "CallExpr":
        cs.unknown.add("result:" + r["k"])
        return
    callee = r.get("callee")
    args = r["c"][1:]
    if callee == "foamNew" and len(args) >= 3:
        cs.ctor = enum_name(args[0])
        cs.value = norm(args[2], env)
    elif callee == "foamNew" and len(args) == 2:
        cs.ctor = enum_name(args[0])
        cs.value = ("int", 0)
    elif callee in ("foamNewSFlo", "foamNewDFlo") and len(args) == 1:
        cs.ctor = "FOAM_SFlo" if callee == "foamNewSFlo" else "FOAM_DFlo"
        cs.value = norm(args[0], env)
    else:
        cs.unknown.add("result-ctor:" + str(callee))


# --------------------------------------------------------------------------
# interpreter
# --------------------------------------------------------------------------

def _expr_index(n):
    s = strip_noop(n)
    if s is not None and s["k"] == "DeclRefExpr":
        m = re.match(r"expr(\d+)$", s["n"])
        if m:
            return int(m.group(1)) - 1
    return None


def interp_cases(facts, inline=None):
    fn = facts.func("fintEvalBCall")
    sws = [s for s in find(fn["body"], "SwitchStmt")
           if strip(s["c"][0]) is not None and strip(s["c"][0]).get("n") == "call"]
    if len(sws) != 1:
        raise AnalysisBroken("fintEvalBCall: expected one switch over 'call', found %d" % len(sws))
    out = {}
    default = None
    for g in common.switch_cases(sws[0]):
        tags = [l[0] for l in g["labels"] if l[0] != "default"]
        if any(l[0] == "default" for l in g["labels"]):
            default = g
        for tag in tags:
            out[tag] = _interp_case(tag, g, inline)
    return out, fn, default


def _interp_case(tag, g, inline=None):
    cs = Case(tag, g["line"])
    locals_ = {}
    outs = {}

    def arg_of(n):
        if n["k"] == "MemberExpr" and not n.get("arrow", False):
            k = _expr_index(n["c"][0])
            if k is not None:
                cs.access.setdefault(k, set()).add(n["n"])
                if k in outs:
                    return outs[k]
                return ("arg", k)
        return None

    env = Env(arg_of=arg_of, locals_=locals_, unknown=cs.unknown, inline=inline)
    env.used_rewrites = cs.rewrites
    results = {}

    def handle(st):
        k = st["k"]
        if k in ("CompoundStmt",):
            for s in st["c"]:
                handle(s)
            return
        if k == "NullStmt" or k == "BreakStmt":
            return
        if k == "DeclStmt":
            for d in st.get("decls", []):
                if d.get("init") is not None:
                    handle(strip(d["init"]))
            return
        if k == "DoStmt":
            return      # assert(...) wrappers
        if k == "CStyleCastExpr" and st.get("ck") == "ToVoid":
            return handle(strip(st))
        if k == "CallExpr":
            callee = st.get("callee")
            if callee == "fintEval":
                a = strip(st["c"][1])
                if a["k"] == "UnaryOperator" and a["op"] == "&":
                    kx = _expr_index(a["c"][0])
                    if kx is not None:
                        cs.evals.append(kx)
                        return
                cs.unknown.add("fintEval-arg")
                return
            # a runtime call with out-parameters: operands k >= argc written through &exprK.f
            t = norm(st, env)
            for i, a in enumerate(t[2:]):
                if a[0] == "addr" and a[1][0] == "arg":
                    outs[a[1][1]] = ("outval", a[1][1])
            cs.extra_calls.append(callee)
            cs.raw = t
            return
        if k == "BinaryOperator" and st["op"] == "=":
            lhs = strip_noop(st["c"][0])
            rhs = st["c"][1]
            if lhs["k"] == "DeclRefExpr" and lhs["n"] == "type":
                return handle(strip(rhs))
            if lhs["k"] == "DeclRefExpr" and lhs["n"] == "myType":
                cs.mytype = enum_name(rhs)
                return
            if lhs["k"] == "MemberExpr":
                base = strip_noop(lhs["c"][0])
                if lhs.get("arrow") and base["k"] == "DeclRefExpr" and base["n"] == "retDataObj":
                    if lhs["n"] == "ptr":
                        cs.notes.append("allocates multi-value result")
                        return
                    results[lhs["n"]] = norm(rhs, env)
                    cs.result_member = lhs["n"]
                    return
                # retDataObj->ptr[i].fiX = ...
                if base["k"] == "ArraySubscriptExpr":
                    b2 = strip_noop(base["c"][0])
                    if b2["k"] == "MemberExpr" and b2["n"] == "ptr":
                        i = const_value(base["c"][1])
                        cs.multi = cs.multi or {}
                        cs.multi[i] = (lhs["n"], norm(rhs, env))
                        return
                # exprK.fiWord = (FiWord) exprK.fiBool handled in the if below
            cs.unknown.add("assign@%d" % st["l"])
            return
        if k == "IfStmt":
            # fintForceBoolToWord(exprK, type)
            cond = strip(st["c"][0])
            then = st["c"][1]
            if (cond["k"] == "BinaryOperator" and cond["op"] == "==" and enum_name(cond["c"][1]) == "FOAM_Bool"
                    and then is not None and then["k"] == "BinaryOperator" and then["op"] == "="):
                l = strip_noop(then["c"][0])
                if l["k"] == "MemberExpr" and l["n"] == "fiWord":
                    kx = _expr_index(l["c"][0])
                    if kx is not None:
                        cs.forced_bool.add(kx)
                        return
            cs.unknown.add("if@%d" % st["l"])
            return
        if k == "SwitchStmt":
            cs.notes.append("nested switch")
            cs.unknown.add("switch")
            return
        cs.unknown.add(k)

    cs.result_member = None
    for st in g["stmts"]:
        handle(st)
    if len(results) == 1:
        cs.value = list(results.values())[0]
    elif len(results) > 1:
        cs.unknown.add("several result stores")
    return cs


# --------------------------------------------------------------------------
# C table
# --------------------------------------------------------------------------

def ctable_rows(facts):
    var = facts.var("ccBValInfoTable")
    rec = facts.records.get("ccBVal_info")
    if rec is None:
        raise AnalysisBroken("struct ccBVal_info not found")
    fields = [f[0] for f in rec["f"]]
    for f in ("tag", "cfun", "special", "str", "macro"):
        if f not in fields:
            raise AnalysisBroken("struct ccBVal_info lost field %s" % f)
    rows = []
    for r in common.table_rows(var):
        g = dict(zip(fields, r["c"]))
        s = strip(g["str"])
        sval = string_value(g["str"])
        if sval is None and s is not None and s["k"] == "DeclRefExpr":
            sval = ("global", s["n"])
        rows.append({"tag": enum_name(g["tag"]), "tagv": const_value(g["tag"]), "cfun": enum_name(g["cfun"]),
                     "special": const_value(g["special"]), "str": sval, "macro": string_value(g["macro"]),
                     "line": r["l"]})
    return rows


def cco_operator_table(facts_ccode):
    """ccoInfoTable of ccode.c: CCO_x -> printed operator string."""
    var = facts_ccode.var("ccoInfoTable")
    out = {}
    for r in common.table_rows(var):
        c = r["c"]
        tag = enum_name(c[0])
        strs = [string_value(x) for x in c if x is not None and string_value(x) is not None]
        out[tag] = {"strs": strs, "row": [const_value(x) if const_value(x) is not None else string_value(x) for x in c]}
    return out


def special_tags(facts_genc, func):
    """FOAM_BVal_ enumerators mentioned in a function (special-case dispatch)."""
    fn = facts_genc.func(func)
    tags = set()
    for x in walk(fn["body"]):
        if x["k"] == "DeclRefExpr" and x.get("dk") == "enum" and x["n"].startswith("FOAM_BVal_"):
            tags.add(x["n"])
        if x["k"] == "CaseStmt" and x.get("lon", "").startswith("FOAM_BVal_"):
            tags.add(x["lon"])
    return tags


# --------------------------------------------------------------------------
# probe unit for foam_c.h expression / statement forms
# --------------------------------------------------------------------------

def write_probe(path, info, crows, macros):
    """Generate a C unit that applies every name of ccBValInfoTable to typed
    marker operands so that clang (not a regex) gives the expansion."""
    lines = ['#include "foam_c.h"', ""]
    plan = {}
    byname = {r["tag"]: r for r in info}
    for row in crows:
        tag = row["tag"]
        inf = byname.get(tag)
        if inf is None or inf["argCount"] is None:
            continue
        short = tag[len("FOAM_BVal_"):]
        argts = [FI_TYPE.get(t) for t in inf["argTypes"]]
        if any(t is None for t in argts):
            plan[tag] = {"skip": "operand type outside the Fi* scalar table: %s" % inf["argTypes"]}
            continue
        rett = FI_TYPE.get(inf["retType"], "FiWord") if inf["retCount"] == 1 else None
        params = ", ".join("%s a%d" % (t, i) for i, t in enumerate(argts)) or "void"
        args = ", ".join("a%d" % i for i in range(len(argts)))
        entry = {}
        if row["cfun"] == "CCO_FCall" and isinstance(row["str"], str) and row["special"] == 0:
            name = row["str"]
            if inf["retCount"] == 1:
                lines.append("%s verif_expr_%s(%s) { return (%s) %s(%s); }" % (rett, short, params, rett, name, args))
                entry["expr"] = "verif_expr_" + short
            else:
                # multi-valued: out-parameters follow the operands
                outts = [FI_TYPE.get(t, "FiWord") for t in inf["retTypes"][: inf["retCount"]]]
                oparams = ", ".join("%s *r%d" % (t, i) for i, t in enumerate(outts))
                oargs = ", ".join("r%d" % i for i in range(len(outts)))
                allp = ", ".join(x for x in (params if argts else "", oparams) if x) or "void"
                alla = ", ".join(x for x in (args, oargs) if x)
                lines.append("void verif_expr_%s(%s) { %s(%s); }" % (short, allp, name, alla))
                entry["expr"] = "verif_expr_" + short
                entry["multi"] = True
        if row["macro"]:
            m = row["macro"]
            if inf["retCount"] == 1:
                p2 = ", ".join(x for x in (params if argts else "", "%s *r_" % rett) if x)
                a2 = ", ".join(x for x in ("(*r_)", rett, args) if x)
                lines.append("void verif_stmt_%s(%s) { %s(%s); }" % (short, p2, m, a2))
                entry["stmt"] = "verif_stmt_" + short
        plan[tag] = entry
    with open(path, "w") as f:
        f.write("\n".join(lines) + "\n")
    return plan


def inline_table(runtime_facts):
    """Functions of the runtime whose body is a single `return e;`."""
    table = {}
    for facts in runtime_facts:
        for name, fn in facts.funcs.items():
            body = fn.get("body")
            if not body or body["k"] != "CompoundStmt":
                continue
            st = [s for s in body["c"] if s["k"] != "NullStmt"]
            if len(st) == 1 and st[0]["k"] == "ReturnStmt" and st[0]["c"]:
                table[name] = ([p["did"] for p in fn["params"]], st[0]["c"][0])
    return table
