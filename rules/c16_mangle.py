"""C16 (thin): generated C is valid - the identifier mangling table.

M1  the special-character table is injective and the code it defines is
    uniquely decodable, so two identifiers that differ in a printable
    character never mangle alike (before truncation/hashing);
M2  the identifier-character tables of genc.c are never indexed out of range
    (C07-K1 restricted to genc.c);
M3  the initialisation of those tables stays inside their declared bounds.
"""
import re

from . import common, c07_total
from .common import AnalysisBroken, strip, walk, const_value, string_value

EXPLANATION = (
    "M1: rows of ccSpecCharIdTable (genc.c): characters pairwise distinct and 7-bit, none alphanumeric, replacement strings "
    "pairwise distinct, '_' maps to \"__\" and every other replacement has the form _[A-Z]+_ ; with alphanumerics mapped to "
    "themselves this code is uniquely decodable left to right (at '_' the next character decides: '_' -> underscore, "
    "upper-case -> special name up to the closing '_'), hence injective on printable identifiers. M2: every subscript of a "
    "bounded array in genc.c whose index comes from a plain char carries a range proof (same rule as C07-K1). M3: in "
    "gc0InitSpecialChars the loop's upper bound and every table character used as an index are below the declared bound of "
    "gcvIdChars/gcvIdCharc. Not decided: collisions under identifier-length truncation and hashing (probabilistic by design), "
    "validity of split files and prototypes.")


def mangle_table_rows(f, varname):
    rows = []
    for r in common.table_rows(f.var(varname)):
        ch = const_value(r["c"][0])
        s = string_value(r["c"][1]) if len(r["c"]) > 1 and r["c"][1] is not None else None
        if ch in (None, 0) and s is None:
            continue      # terminator
        rows.append((ch, s, r["l"]))
    return rows


def check_mangle_table(rep, rule, rows, unit, table):
    """Injectivity and unique decodability of a special-character table."""
    seen_c, seen_s = {}, {}
    for ch, s, line in rows:
        where = "%s:%d (%s)" % (unit, line, table)
        key = "row:%s" % (repr(chr(ch)) if ch is not None and 0 < ch < 128 else ch)
        problems = []
        if ch is None or not (0 < ch < 128):
            problems.append("character %r is not 7-bit" % ch)
        elif chr(ch).isalnum():
            problems.append("alphanumeric character %r would be rewritten" % chr(ch))
        if ch in seen_c:
            problems.append("character listed twice (also at line %d)" % seen_c[ch])
        if s in seen_s:
            problems.append("replacement %r is also used for %r (line %d): two different identifiers get the same name" % (
                s, chr(seen_s[s][0]), seen_s[s][1]))
        if ch == ord("_"):
            if s != "__":
                problems.append("'_' must map to \"__\" for the code to stay decodable, found %r" % s)
        elif s is None or not re.match(r"^_[A-Z]+_$", s):
            problems.append("replacement %r is not of the form _[A-Z]+_ : the mangled text is no longer uniquely decodable" % s)
        seen_c.setdefault(ch, line)
        seen_s.setdefault(s, (ch, line))
        if problems:
            rep.violation(rule, key, where, "; ".join(problems))
        else:
            rep.ok(rule, key, sample={"char": chr(ch), "replacement": s} if len(rep.samples) < 3 else None)
    if ord("_") not in seen_c:
        rep.violation(rule, "row:'_'", "%s (%s)" % (unit, table), "'_' has no row: a literal underscore would be confused "
                      "with the delimiters of the special names")


def run(tier, only=None):
    rep = common.Report("C16", tier, EXPLANATION)
    f = common.extract("genc.c", all_cfg=True)
    # ---- M1 ----
    rows = mangle_table_rows(f, "ccSpecCharIdTable")
    rep.floor("rows of ccSpecCharIdTable", len(rows), 25)
    check_mangle_table(rep, "M1", rows, "genc.c", "ccSpecCharIdTable")
    # ---- M2 ----
    d = c07_total.k1_digest(f)
    n2 = 0
    for s in d["sites"]:
        n2 += 1
        key = "%s:%s" % (s["func"], s["base"])
        where = "genc.c:%d (%s)" % (s["line"], s["func"])
        if s["verdict"] == "ok":
            rep.ok("M2", key + "@%d" % s["line"], sample={"site": where, "why": s["why"]})
        elif s["verdict"] != "unbounded-base":
            rep.violation("M2", key, where, "%s: %s" % (s["expr"], s["why"]))
    rep.floor("char-indexed identifier-table subscripts in genc.c", n2, 2)
    # ---- M3 ----
    fn = f.func("gc0InitSpecialChars")
    bounds = {n: f.var(n).get("bound") for n in ("gcvIdChars", "gcvIdCharc")}
    if None in bounds.values():
        raise AnalysisBroken("gcvIdChars/gcvIdCharc lost their constant bound")
    bound = min(bounds.values())
    loops = [x for x in walk(fn["body"]) if x["k"] == "ForStmt"]
    checked = 0
    for lp in loops:
        cond = strip(lp["c"][1])
        if cond is None or cond["k"] != "BinaryOperator" or cond["op"] not in ("<", "<="):
            continue
        k = const_value(cond["c"][1])
        if k is None:
            continue
        top = k - 1 if cond["op"] == "<" else k
        # only the loop that fills the tables by index
        fills = [x for x in walk(lp["c"][3]) if x["k"] == "ArraySubscriptExpr" and strip(x["c"][0]).get("n") in bounds]
        if not fills:
            continue
        checked += 1
        if top >= bound:
            rep.violation("M3", "init-loop", "genc.c:%d (gc0InitSpecialChars)" % lp["l"],
                          "the initialisation loop writes index %d of tables with %d elements" % (top, bound))
        else:
            rep.ok("M3", "init-loop", sample={"loop_top": top, "bound": bound})
    if not checked:
        raise AnalysisBroken("gc0InitSpecialChars: table initialisation loop not recognised")
    mx = max(ch for ch, _, _ in rows if ch is not None)
    if mx >= bound:
        rep.violation("M3", "table-chars", "genc.c (ccSpecCharIdTable)", "character %d indexes tables of %d elements" % (mx, bound))
    else:
        rep.ok("M3", "table-chars")
    return rep
