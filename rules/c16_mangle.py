"""C16 (thin): generated C is valid - the identifier mangling table.

M1  the special-character table is injective and the code it defines is
    uniquely decodable, so two identifiers that differ in a printable
    character never mangle alike (before truncation/hashing);
M2  the identifier-character tables of genc.c are never indexed out of range
    (C07-K1 restricted to genc.c);
M3  the initialisation of those tables stays inside their declared bounds.
"""
import re

from . import common, c07_total
from .common import AnalysisBroken, strip, walk, const_value, string_value, calls

EXPLANATION = (
    "M1: rows of ccSpecCharIdTable (genc.c): characters pairwise distinct and 7-bit, none alphanumeric, replacement strings "
    "pairwise distinct, '_' maps to \"__\" and every other replacement has the form _[A-Z]+_ ; with alphanumerics mapped to "
    "themselves this code is uniquely decodable left to right (at '_' the next character decides: '_' -> underscore, "
    "upper-case -> special name up to the closing '_'), hence injective on printable identifiers. M2: every subscript of a "
    "bounded array in genc.c whose index comes from a plain char carries a range proof (same rule as C07-K1). M3: in "
    "gc0InitSpecialChars the loop's upper bound and every table character used as an index are below the declared bound of "
    "gcvIdChars/gcvIdCharc. M4 (sibling predicates): every relational comparison in genc.c between the unit's statement total "
    "(gcvNStmts or a variable copied to/from it) and the -Csmax limit gcvSMax has the same strictness (the majority form, "
    "that of the gc0OverSMax macro); M5: in genc.c every declaration built without ccoStatic() inside a gc0OverSMax() branch (or in "
    "both modes) uses a name variable whose split-mode constructor is gc0MultVarId (unit-qualified), never gc0VarId; a site that splits at total == limit while the others do not makes header placement and "
    "naming disagree. Not decided: collisions under identifier-length truncation and hashing (probabilistic by design), "
    "validity of the split files' contents and prototypes.")


def mangle_table_rows(f, varname):
    rows = []
    for r in common.table_rows(f.var(varname)):
        ch = const_value(r["c"][0])
        s = string_value(r["c"][1]) if len(r["c"]) > 1 and r["c"][1] is not None else None
        if ch in (None, 0) and s is None:
            continue      # terminator
        rows.append((ch, s, r["l"]))
    return rows


def check_mangle_table(rep, rule, rows, unit, table):
    """Injectivity and unique decodability of a special-character table."""
    seen_c, seen_s = {}, {}
    for ch, s, line in rows:
        where = "%s:%d (%s)" % (unit, line, table)
        key = "row:%s" % (repr(chr(ch)) if ch is not None and 0 < ch < 128 else ch)
        problems = []
        if ch is None or not (0 < ch < 128):
            problems.append("character %r is not 7-bit" % ch)
        elif chr(ch).isalnum():
            problems.append("alphanumeric character %r would be rewritten" % chr(ch))
        if ch in seen_c:
            problems.append("character listed twice (also at line %d)" % seen_c[ch])
        if s in seen_s:
            problems.append("replacement %r is also used for %r (line %d): two different identifiers get the same name" % (
                s, chr(seen_s[s][0]), seen_s[s][1]))
        if ch == ord("_"):
            if s != "__":
                problems.append("'_' must map to \"__\" for the code to stay decodable, found %r" % s)
        elif s is None or not re.match(r"^_[A-Z]+_$", s):
            problems.append("replacement %r is not of the form _[A-Z]+_ : the mangled text is no longer uniquely decodable" % s)
        seen_c.setdefault(ch, line)
        seen_s.setdefault(s, (ch, line))
        if problems:
            rep.violation(rule, key, where, "; ".join(problems))
        else:
            rep.ok(rule, key, sample={"char": chr(ch), "replacement": s} if len(rep.samples) < 3 else None)
    if ord("_") not in seen_c:
        rep.violation(rule, "row:'_'", "%s (%s)" % (unit, table), "'_' has no row: a literal underscore would be confused "
                      "with the delimiters of the special names")


def m4(rep):
    """One predicate decides "the unit is split" (-Csmax): every comparison of the unit's statement total with the limit
    has the same strictness."""
    f = common.extract("genc.c", all_trees=True)
    # the statement total: gcvNStmts and variables directly copied to/from it
    total = {"gcvNStmts"}
    changed = True
    assigns = []
    for fn in f.funcs.values():
        if "body" not in fn or not fn.get("file", "").endswith("genc.c"):
            continue
        for x in walk(fn["body"]):
            if x["k"] == "BinaryOperator" and x["op"] == "=":
                a, b = strip(x["c"][0]), strip(x["c"][1])
                if a is not None and b is not None and a["k"] == "DeclRefExpr" and b["k"] == "DeclRefExpr" \
                        and a.get("dk") == "var" and b.get("dk") == "var":
                    assigns.append((fn["n"], a["n"], b["n"]))
    while changed:
        changed = False
        for fname, a, b in assigns:
            for u, v in ((a, b), (b, a)):
                ku = u if u.startswith("gcv") else fname + ":" + u
                kv = v if v.startswith("gcv") else fname + ":" + v
                if ku in total and kv not in total:
                    total.add(kv)
                    changed = True
    FLIP = {"<": ">", ">": "<", "<=": ">=", ">=": "<="}
    sites = []
    for fn in f.funcs.values():
        if "body" not in fn or not fn.get("file", "").endswith("genc.c"):
            continue
        for x in walk(fn["body"]):
            if x["k"] == "BinaryOperator" and x["op"] in FLIP:
                a, b = strip(x["c"][0]), strip(x["c"][1])
                if a is None or b is None or a["k"] != "DeclRefExpr" or b["k"] != "DeclRefExpr":
                    continue
                ka = a["n"] if a["n"].startswith("gcv") else fn["n"] + ":" + a["n"]
                kb = b["n"] if b["n"].startswith("gcv") else fn["n"] + ":" + b["n"]
                if ka in total and b["n"] == "gcvSMax":
                    sites.append((fn["n"], x["l"], x["op"], a["n"], x.get("mac")))
                elif kb in total and a["n"] == "gcvSMax":
                    sites.append((fn["n"], x["l"], FLIP[x["op"]], b["n"], x.get("mac")))
    rep.floor("comparisons of the statement total with the -Csmax limit", len(sites), 15)
    ops = {}
    for s_ in sites:
        ops[s_[2]] = ops.get(s_[2], 0) + 1
    major = max(ops, key=lambda o: ops[o])
    seen = set()
    for fname, line, op, var, mac in sorted(sites, key=lambda t: t[1]):
        key = "split-predicate:%s:%s@%d" % (fname, var, line)
        if op == major:
            if (fname, mac) not in seen:
                rep.ok("M4", key, sample={"site": "genc.c:%d" % line, "test": "%s %s gcvSMax" % (var, op)} if not seen else None)
            seen.add((fname, mac))
        else:
            rep.violation("M4", key, "genc.c:%d (%s)" % (line, fname),
                          "the unit's statement total is compared with the -Csmax limit as `%s %s gcvSMax` here but as `%s gcvSMax` at the "
                          "other %d sites (gc0OverSMax): when the total equals the limit one part of the generator splits the unit "
                          "into several files and the rest treats it as a single file, and the C does not compile"
                          % (var, op, major, ops[major]))


# C's default argument promotions change these classes (char, short -> int; float -> double): a function taking one of them
# cannot be called through an unprototyped pointer (fiCCallN / fiRawCProg cast to t (*)()) and reach an ANSI definition intact.
PROMOTED = {"char", "schar", "u8", "i8", "i16", "u16", "f32"}


def m6(rep):
    """Old-style and standard C must run the same: gc0FiCFun emits a prototype cast for a closure call whenever one of the
    argument or result types needs it (gc0TypeRequiresDecl).  For every FOAM type whose C type (foam_c.h) is changed by the
    default argument promotions the answer must be yes."""
    import os
    f = common.extract("genc.c", trees=["gc0TypeRequiresDecl"])
    fn = f.func("gc0TypeRequiresDecl")
    sws = [x for x in walk(fn["body"]) if x["k"] == "SwitchStmt"]
    if len(sws) != 1:
        raise AnalysisBroken("gc0TypeRequiresDecl: expected one switch")
    verdict = {}
    for g in common.switch_cases(sws[0]):
        labels, stmts = g["labels"], g["stmts"]
        rets = [y for st in stmts for y in walk(st) if y["k"] == "ReturnStmt"]
        if len(rets) != 1:
            raise AnalysisBroken("gc0TypeRequiresDecl: a case group does not end in one return")
        v = const_value(rets[0]["c"][0])
        if v is None:
            raise AnalysisBroken("gc0TypeRequiresDecl: return value not constant")
        for lab in labels:
            verdict[lab[0]] = bool(v)
    tags = [t for t in verdict if t and t.startswith("FOAM_")]
    if len(tags) < 15:
        raise AnalysisBroken("gc0TypeRequiresDecl: only %d FOAM type cases recognised" % len(tags))
    probe = os.path.join(common.BUILD, "c16_probe.%d.c" % os.getpid())
    hdr = open(os.path.join(common.SRC, "foam_c.h")).read()
    have = [t for t in tags if re.search(r"\bFi%s;" % t[5:], hdr)]
    with open(probe, "w") as o:
        o.write('#include "foam_c.h"\n')
        for t in have:
            o.write("Fi%s verif_t_%s;\n" % (t[5:], t[5:]))
    try:
        fp = common.extract(probe, "compiler")
    finally:
        if os.path.exists(probe):
            os.unlink(probe)
    n = 0
    for t in sorted(have):
        v = fp.vars.get("verif_t_" + t[5:])
        if v is None or not v.get("tc"):
            raise AnalysisBroken("probe: type of Fi%s not obtained" % t[5:])
        n += 1
        key = "prototype-needed:%s" % t
        if v["tc"] in PROMOTED and not verdict[t]:
            rep.violation("M6", key, "genc.c:%d (gc0TypeRequiresDecl)" % fn["l"],
                          "Fi%s is `%s` (class %s), which the default argument promotions change, yet gc0TypeRequiresDecl answers "
                          "false for %s: a closure call with such an argument is emitted through the unprototyped fiCCallN cast, the "
                          "caller passes the promoted value and the ANSI-style callee reads garbage; -Cold (K&R callee) still works, so "
                          "the two modes disagree" % (t[5:], v.get("t"), v["tc"], t))
        else:
            rep.ok("M6", key, nontrivial=v["tc"] in PROMOTED, sample={"c type": v.get("t"), "class": v["tc"], "requires decl": verdict[t]})
    rep.floor("FOAM types with a C type examined", n, 12)
    if not any(fp.vars["verif_t_" + t[5:]]["tc"] in PROMOTED for t in have):
        raise AnalysisBroken("no FOAM type with a promoted C type found: the probe is not seeing foam_c.h")


def m7(rep):
    """Split mode writes <prefix>NNN.c files next to the main C file and its header (each of them does #include "<unit>.h" by
    bare name).  The additional file names must be built from the *output* file name (directory and type of
    emitFileName(finfo, FTYPENO_C)), never from the source file's: with `aldor -Csmax=N dir/x.as` the two directories differ."""
    f = common.extract("emit.c", trees=["emitTheC"])
    fn = f.func("emitTheC")
    outs, srcs = set(), set()
    for x in walk(fn["body"]):
        if x["k"] == "BinaryOperator" and x["op"] == "=":
            l, r = strip(x["c"][0]), strip(x["c"][1])
            if l is not None and r is not None and l["k"] == "DeclRefExpr" and r["k"] == "CallExpr":
                if r.get("callee") == "emitFileName":
                    outs.add(l["n"])
                elif r.get("callee") == "emitSrcFile":
                    srcs.add(l["n"])
    news = calls(fn["body"], "fnameNew")
    if not outs or not news:
        raise AnalysisBroken("emitTheC: output file name variable or fnameNew call not found")
    n = 0
    for c in news:
        n += 1
        for i, acc, what in ((1, "fnameDir", "directory"), (3, "fnameType", "type")):
            a = strip(c["c"][i]) if len(c["c"]) > i else None
            key = "split-file-%s-from-output@%d" % (what, n)
            where = "emit.c:%d (emitTheC)" % c["l"]
            if a is not None and a["k"] == "ArraySubscriptExpr" and a.get("mac") == acc:
                base = [y for y in walk(a["c"][0]) if y["k"] == "DeclRefExpr"]
                v = base[0] if len(base) == 1 else None
            elif a is not None and a["k"] == "CallExpr" and a.get("callee") == acc:
                v = strip(a["c"][1])
            else:
                raise AnalysisBroken("emitTheC: the %s argument of fnameNew is not %s(...)" % (what, acc))
            if v is None or v["k"] != "DeclRefExpr":
                raise AnalysisBroken("emitTheC: %s of something other than a variable" % acc)
            if v["n"] in outs:
                rep.ok("M7", key)
            elif v["n"] in srcs:
                rep.violation("M7", key, where,
                              "an additional C file of a split unit takes its %s from '%s', the source file's name, not from the "
                              "output file's: with the source given as dir/x.as the numbered files land in dir/ while x.c and x.h "
                              "are written to the output directory, and each numbered file's #include \"x.h\" fails to compile"
                              % (what, v["n"]))
            else:
                raise AnalysisBroken("emitTheC: '%s' is neither an output nor the source file name" % v["n"])
    rep.floor("file names built in emitTheC", n, 1)


def m5(rep):
    """Split mode (-Csmax): a name declared without `static` must be unit-qualified (built by gc0MultVarId), because several
    generated files are linked together."""
    f = common.extract("genc.c", all_trees=True)
    n = 0
    for name, fn in sorted(f.funcs.items()):
        if "body" not in fn or not fn.get("file", "").endswith("genc.c"):
            continue
        par = None

        def context(node):
            """'split' / 'nosplit' / 'any' from the enclosing if (gc0OverSMax()) tests"""
            nonlocal par
            if par is None:
                par = common.parents(fn["body"])
            ch, p = node, par.get(node["id"])
            while p is not None:
                if p["k"] == "IfStmt":
                    c = strip(p["c"][0])
                    neg = False
                    while c is not None and c["k"] == "UnaryOperator" and c["op"] == "!":
                        neg, c = not neg, strip(c["c"][0])
                    if c is not None and (c.get("mac") == "gc0OverSMax" or c.get("imac") == "gc0OverSMax"):
                        inthen = p["c"][1] is not None and p["c"][1]["id"] == ch["id"]
                        inelse = p["c"][2] is not None and p["c"][2]["id"] == ch["id"]
                        if inthen or inelse:
                            return "split" if (inthen != neg) else "nosplit"
                ch, p = p, par.get(p["id"])
            return "any"
        # constructors of each name variable, per context
        ctor = {}
        for x in walk(fn["body"]):
            if x["k"] == "BinaryOperator" and x["op"] == "=":
                l, r = strip(x["c"][0]), strip(x["c"][1])
                if l is not None and r is not None and l["k"] == "DeclRefExpr" and r["k"] == "CallExpr" and r.get("callee") in ("gc0VarId", "gc0MultVarId"):
                    ctor.setdefault(l["n"], []).append((context(x), r["callee"]))
        if not ctor:
            continue
        for c in calls(fn["body"], "ccoNew"):
            # ccoDecl(type, declarator) == ccoNew(CCO_Decl, 2, type, declarator)
            if len(c["c"]) < 5 or common.enum_name(c["c"][1]) != "CCO_Decl":
                continue
            ctx = context(c)
            if ctx == "nosplit":
                continue
            typ, decl = c["c"][3], c["c"][4]
            is_static = any(y["k"] == "CallExpr" and y.get("callee") == "ccoNew" and common.enum_name(y["c"][1]) == "CCO_Static" for y in walk(typ)) \
                or any(y["k"] == "DeclRefExpr" and y["n"] in ("ccoStatic",) for y in walk(typ))
            if is_static:
                continue
            for y in walk(decl):
                if y["k"] == "DeclRefExpr" and y["n"] in ctor:
                    n += 1
                    poss = {k for cx, k in ctor[y["n"]] if cx in ("split", "any")} if ctx == "split" else {k for cx, k in ctor[y["n"]]}
                    key = "split-name-qualified:%s:%s@%d" % (name, y["n"], n)
                    if ctx == "any" and all(cx == "nosplit" or k == "gc0MultVarId" for cx, k in ctor[y["n"]] if cx != "nosplit") and poss:
                        # declaration built in both modes: only the split-mode constructor matters
                        poss = {k for cx, k in ctor[y["n"]] if cx in ("split", "any")}
                    if poss and poss <= {"gc0MultVarId"}:
                        rep.ok("M5", key, nontrivial=True)
                    elif ctx == "any" and not any(cx in ("split", "any") and k == "gc0VarId" for cx, k in ctor[y["n"]]):
                        rep.ok("M5", key, nontrivial=True)
                    else:
                        rep.violation("M5", "split-name-qualified:%s:%s" % (name, y["n"]), "genc.c:%d (%s)" % (c["l"], name),
                                      "in split mode (-Csmax) %s is declared without `static` but its name is built by gc0VarId, which is "
                                      "not unit-qualified: two generated files that both contain such a constant define the same external "
                                      "symbol and the program does not link" % y["n"])
    rep.floor("non-static declarations of generated names reachable in split mode", n, 2)


def m8(rep):
    """The C printer collects each declaration in a static text buffer (BufferOutput, write position BufferPos, -1 = not
    collecting) so that a few library prototypes can be patched, then writes the buffer.  The function that opens the buffer
    (`BufferPos = 0`) terminates and writes it after printing the declaration's parts.  That is only right while nothing it
    calls closes the buffer: every function that stores a constant into BufferPos other than the opener is a foreign closer,
    and if there is one, each use of the collected text by the opener (the terminator store BufferOutput[BufferPos], strcmp /
    output of BufferOutput) must be under a `BufferPos >= 0` test -- otherwise a declaration is terminated at index -1 and its
    collected prefix is written a second time (invalid C: redeclarations)."""
    f = common.extract("ccode.c", all_trees=True)
    consts = {}
    for name, fn in f.funcs.items():
        if "body" not in fn or not fn.get("file", "").endswith("ccode.c"):
            continue
        for x in walk(fn["body"]):
            if x["k"] == "BinaryOperator" and x["op"] == "=":
                l = strip(x["c"][0])
                if l is not None and l["k"] == "DeclRefExpr" and l["n"] == "BufferPos" and const_value(x["c"][1]) is not None:
                    consts.setdefault(name, []).append((const_value(x["c"][1]), x))
    openers = sorted(n for n, vs in consts.items() if any(v >= 0 for v, _ in vs))
    if len(openers) != 1:
        raise AnalysisBroken("ccode.c: expected one function that opens the declaration buffer (BufferPos = 0), found %s" % openers)
    owner = openers[0]
    foreign = sorted(n for n, vs in consts.items() if n != owner and any(v < 0 for v, _ in vs))
    fn = f.func(owner)
    par = common.parents(fn["body"])
    uses = []
    for x in walk(fn["body"]):
        if x["k"] == "ArraySubscriptExpr" and (strip(x["c"][0]) or {}).get("n") == "BufferOutput":
            uses.append(x)
        elif x["k"] == "CallExpr" and any((strip(a) or {}).get("n") == "BufferOutput" for a in x["c"][1:]):
            uses.append(x)
    n = 0
    for u in uses:
        n += 1
        guarded = False
        cur = u
        while cur["id"] in par:
            p_ = par[cur["id"]]
            if p_["k"] == "IfStmt" and any(y is cur for y in walk(p_["c"][1])):
                c = strip(p_["c"][0])
                for y in walk(p_["c"][0]):
                    if y["k"] == "BinaryOperator" and y["op"] in (">=", ">", "!=") and (strip(y["c"][0]) or {}).get("n") == "BufferPos":
                        guarded = True
            cur = p_
        key = "decl-buffer-open-at-use:%s@%d" % (owner, n)
        where = "ccode.c:%d (%s)" % (u["l"], owner)
        if not foreign or guarded:
            rep.ok("M8", key, nontrivial=bool(foreign))
        else:
            rep.violation("M8", "decl-buffer-open-at-use:%s" % owner, where,
                          "%s uses the collected declaration text here assuming the buffer it opened is still open, but %s can "
                          "close it (BufferPos = -1) while the declaration is being printed: the terminator is then stored at "
                          "index -1 and the part collected before is written again after the part written directly -- the "
                          "generated C declares the same names twice" % (owner, ", ".join(foreign)))
    rep.floor("uses of the collected declaration text", n, 4)


def m9(rep):
    """A preprocessor directive is only a directive at the start of a line.  Every place of the C printer that writes `#line`
    must start a new line first: the `#` is the first character after a newline written by the same call, or a newline is
    written on every path immediately before (the column estimate ccoFileChar cannot be trusted for this: a label is printed
    out-dented).  A `#line` that can follow `L1000:<tab>` on the same line is rejected by the C compiler (stray '#')."""
    f = common.extract("ccode.c", all_trees=True, all_cfg=True)
    n = 0
    for name, fn in sorted(f.funcs.items()):
        if "body" not in fn or not fn.get("file", "").endswith("ccode.c"):
            continue
        sites = []
        for c in calls(fn["body"]):
            for a in c["c"][1:]:
                sv = common.string_value(a)
                if sv is not None and "#line" in sv:
                    sites.append((c, sv))
        if not sites:
            continue
        cfg = common.CFG(fn)
        for c, sv in sites:
            n += 1
            key = "line-directive-starts-a-line:%s" % name
            where = "ccode.c:%d (%s)" % (c["l"], name)
            if sv.index("#line") >= 1 and sv[sv.index("#line") - 1] == "\n":
                rep.ok("M9", key + "@%d" % c["l"])
                continue
            # otherwise a newline must have been written on every path, as the last output before this call
            def writes_newline(e):
                if e["k"] != "CallExpr":
                    return False
                for a in e["c"][1:]:
                    t = common.string_value(a)
                    if t is not None and t.endswith("\n"):
                        return True
                return False

            # every path from the function's entry to the call passes a write that ends in a newline
            ev = cfg.events(lambda e, c=c: e.get("id") == c["id"])
            b0, i0, _ = ev[0]
            unconditional = cfg.path_avoiding(cfg.entry, lambda e, c=c: e.get("id") == c["id"], writes_newline, src_idx=-1) is None
            if unconditional:
                rep.ok("M9", key + "@%d" % c["l"])
            else:
                rep.violation("M9", key, where,
                              "`%s` is written without a newline first on some path (the text does not begin with one and no "
                              "newline write dominates the call): when the estimated column says 'at the margin' while the output is "
                              "in fact after an out-dented label, the file contains `L1000:\t#line 509`, which is not a directive "
                              "and does not compile" % sv.replace("\n", "\\n")[:30])
    rep.floor("places that write #line in the C printer", n, 1)


def m10(rep):
    """The only place where the text of a generated identifier is shortened is the identifier-length option (gc0MultVarId /
    gc0IdHashInBuf, governed by -Cidlen).  Several sites of genc.c build the same name `<unit>_<id>` independently (the
    declaration written into the split header, the definition, every use): they agree because each prints both parts whole.  A
    format that cuts a %s by a precision (`%.30s`, `%.*s`) at one of them makes the header declare one name and the C files
    use another as soon as -Cidlen shows more of the name than the cut -- the generated C does not compile.  Rule: no
    printf-style format in the C generator prints a string under a precision."""
    import re
    f = common.extract("genc.c", all_trees=True)
    n = 0
    bad = []
    for name, fn in sorted(f.funcs.items()):
        if "body" not in fn or not fn.get("file", "").endswith("genc.c"):
            continue
        for c in common.calls(fn["body"]):
            for a in c["c"][1:]:
                a_ = strip(a)
                if a_ is not None and a_["k"] == "StringLiteral" and "%" in (a_.get("v") or ""):
                    if not re.search(r"%[-0-9]*(\.[0-9*]+)?l?[sdcuxp]", a_["v"]):
                        continue
                    n += 1
                    if re.search(r"%[-0-9*]*\.[0-9*]+s", a_["v"]):
                        bad.append((name, c["l"], c.get("callee"), a_["v"]))
    rep.floor("format strings of the C generator", n, 40)
    for name, line, callee, fmt in bad:
        rep.violation("M10", "identifier-text-not-cut-by-format:%s" % name, "genc.c:%d (%s)" % (line, name),
                      "%s(\"%s\") prints a string under a precision: the name built here is cut at a fixed number of characters while "
                      "the other sites that build the same name print it whole; with a -Cidlen that shows more than the cut (or 0 = no "
                      "limit) the split header declares a name the C files never use and the generated C does not compile"
                      % (callee, fmt))
    if not bad:
        rep.ok("M10", "identifier-text-not-cut-by-format:none", sample={"formats": n})


def m11(rep):
    """Globals of one unit are found by another at run time by name: the exporter registers `fiExportGlobal("<name>", G_..)`,
    the importer asks `fiImportGlobal("<name>", pG_..)`.  Exporter and importer are compiled separately -- the libraries with
    the default options -- so the name used as the key must not depend on an option of the compilation that writes it.  In
    genc.c the key is the text of the C identifier built by gc0MultVarId, which is cut at -Cidlen: a client compiled with any
    other limit asks for names the library never registered and the executable faults at start-up.  Rule: the string handed to
    fiImportGlobal / fiExportGlobal is not the `.symbol` of an identifier made by gc0MultVarId."""
    f = common.extract("genc.c", all_trees=True)
    n = 0
    for name, fn in sorted(f.funcs.items()):
        if "body" not in fn or not fn.get("file", "").endswith("genc.c"):
            continue
        if not any(y["k"] == "StringLiteral" and y.get("v") in ("fiImportGlobal", "fiExportGlobal") for y in walk(fn["body"])):
            continue
        cut = set()
        for x in walk(fn["body"]):
            if x["k"] == "BinaryOperator" and x["op"] == "=" and (strip(x["c"][0]) or {}).get("k") == "DeclRefExpr":
                r = strip(x["c"][1])
                if r is not None and r["k"] == "CallExpr" and r.get("callee") == "gc0MultVarId":
                    cut.add(strip(x["c"][0])["n"])
        par = common.parents(fn["body"])
        seen = set()
        for lit in [y for y in walk(fn["body"]) if y["k"] == "StringLiteral" and y.get("v") in ("fiImportGlobal", "fiExportGlobal")]:
            # the statement this registration is built in
            c = lit
            while c["id"] in par and par[c["id"]]["k"] not in ("CompoundStmt", "IfStmt"):
                c = par[c["id"]]
            if c["id"] in seen:
                continue
            seen.add(c["id"])
            lits = [lit["v"]]
            n += 1
            keyed = [y for y in walk(c) if y["k"] == "MemberExpr" and y["n"] == "symbol" and
                     any(z["k"] == "DeclRefExpr" and z["n"] in cut for z in walk(y))]
            key = "runtime-key-option-independent:%s" % lits[0]
            if keyed:
                rep.violation("M11", key, "genc.c:%d (%s)" % (c["l"], name),
                              "the name under which a global is %s at run time is the text of the C identifier built by "
                              "gc0MultVarId, which is cut at -Cidlen: a client compiled with a limit other than the one the "
                              "libraries were built with (30) looks up names that were never registered; the executable links and "
                              "faults at start-up (-Cidlen=31, 40, 64, 0)" % ("looked up" if "Import" in lits[0] else "registered"))
            else:
                rep.ok("M11", key)
    rep.floor("run-time registrations of globals in genc.c", n, 2)


def m12(rep):
    """The five hash digits in `G_<hash>_<name>` are what keeps two long names apart once the text is cut.  They are a function
    of the whole name: gc0IdHashInBuf computes strHash(s) of the string it is given.  A remembered hash handed out when the new
    name `looks like` the last one (a fixed-width key compared with strncmp) gives two names that share their first 63
    characters one hash -- one C name for two entities, and uses that name a global nobody declared.  Every value that reaches
    the digit loop of gc0IdHashInBuf is computed in the call from strHash of its parameter; no file-scope or static variable
    is read on the way."""
    f = common.extract("genc.c", trees=["gc0IdHashInBuf"])
    fn = f.func("gc0IdHashInBuf")
    params = set(p_["n"] for p_ in fn.get("params", []))
    locs = set(params)
    stat = set()
    for x in walk(fn["body"]):
        if x["k"] == "DeclStmt":
            for d in x.get("decls", []):
                (stat if d.get("static") else locs).add(d["n"])
    # the variable the digit loop consumes: `v % 36`
    digit_vars = set()
    for x in walk(fn["body"]):
        if x["k"] == "BinaryOperator" and x["op"] == "%" and const_value(x["c"][1]) == 36:
            v = strip(x["c"][0])
            if v is not None and v["k"] == "DeclRefExpr":
                digit_vars.add(v["n"])
    if len(digit_vars) != 1:
        raise AnalysisBroken("gc0IdHashInBuf: the base-36 digit loop was not found")
    hv = digit_vars.pop()
    n = 0
    bad = None
    seen = set()
    work = [hv]
    while work:
        v = work.pop()
        if v in seen:
            continue
        seen.add(v)
        for x in walk(fn["body"]):
            rhs = None
            if x["k"] == "BinaryOperator" and x["op"] == "=" and (strip(x["c"][0]) or {}).get("n") == v:
                rhs = x["c"][1]
            elif x["k"] == "DeclStmt":
                for d in x.get("decls", []):
                    if d["n"] == v and d.get("init") is not None:
                        rhs = d["init"]
            if rhs is None:
                continue
            n += 1
            for y in walk(rhs):
                if y["k"] == "DeclRefExpr" and y.get("dk") in ("var", "parm"):
                    if y["n"] in stat or y["n"] not in locs:
                        bad = (x["l"], y["n"])
                    elif y["n"] not in params:
                        work.append(y["n"])
    has_hash = any(c.get("callee") == "strHash" and (strip(c["c"][1]) or {}).get("n") in params for c in common.calls(fn["body"]))
    if not has_hash:
        raise AnalysisBroken("gc0IdHashInBuf no longer calls strHash on its parameter")
    if bad:
        rep.violation("M12", "hash-of-the-whole-name", "genc.c:%d (gc0IdHashInBuf)" % bad[0],
                      "the hash written into the generated name comes from `%s`, state kept between calls, not from strHash of the "
                      "name given: when the remembered entry is recognised by a prefix of the name, two names sharing that prefix "
                      "get one hash -- both are declared under one C name and uses refer to a name never declared (the unit does "
                      "not compile under any option set)" % bad[1])
    else:
        rep.ok("M12", "hash-of-the-whole-name", sample={"assignments followed": n})


M13_WRITERS = {
    "gc0ExternDecls": "sets the unit's statement total once, before anything is generated",
    "gc0SeqStmt": "adds the statements of a Seq nested in a Seq (none occurs in the FOAM that reaches the generator; noted as "
                  "dormant by two agents) and resizes the statement vector with it",
}


def m13(rep):
    """Whether a unit is split into files is one decision: gc0OverSMax() compares the unit's statement total gcvNStmts with
    -Csmax, and a dozen sites ask it while the unit is generated -- declarations choose between static/short/embedded and
    extern/unit-prefixed/in-the-header on its answer, uses choose their names on it.  The answer must be the same at every
    site, so the total must not move once generation has started: a function that adds to it (keeping `the count in step`
    with statements it appends) flips the answer midway for a limit just above the total, and the C declares one set of names
    and uses another.  gcvNStmts is written only by the confirmed writers."""
    f = common.extract("genc.c", all_trees=True)
    n = 0
    for name, fn in sorted(f.funcs.items()):
        if "body" not in fn or not fn.get("file", "").endswith("genc.c"):
            continue
        for x in walk(fn["body"]):
            tgt = None
            if x["k"] in ("BinaryOperator", "CompoundAssignOperator") and x["op"].endswith("=") and x["op"] not in ("==", "!=", "<=", ">="):
                tgt = strip(x["c"][0])
            elif x["k"] == "UnaryOperator" and x["op"] in ("++", "--", "post++", "post--"):
                tgt = strip(x["c"][0])
            if tgt is None or tgt["k"] != "DeclRefExpr" or tgt["n"] != "gcvNStmts":
                continue
            n += 1
            key = "split-decision-stable:%s" % name
            if name in M13_WRITERS:
                rep.ok("M13", key + "@%d" % x["l"], nontrivial=(name == "gc0ExternDecls"))
            else:
                rep.violation("M13", key, "genc.c:%d (%s)" % (x["l"], name),
                              "%s changes gcvNStmts, the total that gc0OverSMax() compares with -Csmax, while the unit is being "
                              "generated: for a statement limit just above the unit's total the answer turns from `not split` to "
                              "`split` midway, the declarations already written are the unsplit kind and the definitions use the "
                              "split names -- the generated C does not compile" % name)
    rep.floor("writes of the unit's statement total", n, 2)


def run(tier, only=None):
    rep = common.Report("C16", tier, EXPLANATION)
    f = common.extract("genc.c", all_cfg=True)
    # ---- M1 ----
    rows = mangle_table_rows(f, "ccSpecCharIdTable")
    rep.floor("rows of ccSpecCharIdTable", len(rows), 25)
    check_mangle_table(rep, "M1", rows, "genc.c", "ccSpecCharIdTable")
    # ---- M2 ----
    d = c07_total.k1_digest(f)
    n2 = 0
    for s in d["sites"]:
        n2 += 1
        key = "%s:%s" % (s["func"], s["base"])
        where = "genc.c:%d (%s)" % (s["line"], s["func"])
        if s["verdict"] == "ok":
            rep.ok("M2", key + "@%d" % s["line"], sample={"site": where, "why": s["why"]})
        elif s["verdict"] != "unbounded-base":
            rep.violation("M2", key, where, "%s: %s" % (s["expr"], s["why"]))
    rep.floor("char-indexed identifier-table subscripts in genc.c", n2, 2)
    # ---- M3 ----
    fn = f.func("gc0InitSpecialChars")
    bounds = {n: f.var(n).get("bound") for n in ("gcvIdChars", "gcvIdCharc")}
    if None in bounds.values():
        raise AnalysisBroken("gcvIdChars/gcvIdCharc lost their constant bound")
    bound = min(bounds.values())
    loops = [x for x in walk(fn["body"]) if x["k"] == "ForStmt"]
    checked = 0
    for lp in loops:
        cond = strip(lp["c"][1])
        if cond is None or cond["k"] != "BinaryOperator" or cond["op"] not in ("<", "<="):
            continue
        k = const_value(cond["c"][1])
        if k is None:
            continue
        top = k - 1 if cond["op"] == "<" else k
        # only the loop that fills the tables by index
        fills = [x for x in walk(lp["c"][3]) if x["k"] == "ArraySubscriptExpr" and strip(x["c"][0]).get("n") in bounds]
        if not fills:
            continue
        checked += 1
        if top >= bound:
            rep.violation("M3", "init-loop", "genc.c:%d (gc0InitSpecialChars)" % lp["l"],
                          "the initialisation loop writes index %d of tables with %d elements" % (top, bound))
        else:
            rep.ok("M3", "init-loop", sample={"loop_top": top, "bound": bound})
    if not checked:
        raise AnalysisBroken("gc0InitSpecialChars: table initialisation loop not recognised")
    m4(rep)
    m5(rep)
    m6(rep)
    m7(rep)
    m8(rep)
    m9(rep)
    m10(rep)
    m11(rep)
    m12(rep)
    m13(rep)
    from . import c03_routes
    c03_routes.t10(rep, rule="M14")          # every formatted escape of a literal has a fixed width, in both C dialects
    mx = max(ch for ch, _, _ in rows if ch is not None)
    if mx >= bound:
        rep.violation("M3", "table-chars", "genc.c (ccSpecCharIdTable)", "character %d indexes tables of %d elements" % (mx, bound))
    else:
        rep.ok("M3", "table-chars")
    return rep
