"""C19 (thin): floating-point constants keep their value.

L1  compile-time and run-time literal conversion are the same primitive under
    the same cast chain (rows ArrToSFlo/DFlo/SInt/BInt of the C04 comparison);
L2  float constants rendered into emitted artefacts are printed with
    round-trip precision on the default path;
L3  the portable float codec of object files uses paired converters and equal
    byte counts (C05-W2 rows).
"""
from . import common, c04_builtins, c05_codec
from .common import AnalysisBroken, strip, walk, calls, const_value, string_value

EXPLANATION = (
    "L1: the C04 sibling comparison restricted to ArrToSFlo, ArrToDFlo, ArrToSInt and ArrToBInt: the folder, the interpreter, "
    "both C forms and the reference reach the same conversion primitive (atof / fiArrToSInt / bintFrString) through the same "
    "chain of casts; strtod(s,0) and atof(s) are identified. L2: in DFloatSprint (used for floats in generated C and in "
    "S-expression output) every printf-family conversion of a double on the default path (cmdFloatRepFlag false) has a "
    "constant-evaluated precision >= 17 significant digits (DBL_DIG+2), which guarantees that reading the text back gives "
    "the same double; the -Wfloatrep path is the user's request and excluded by name. L3: bufWrSFloat/bufRdSFloat and "
    "bufWrDFloat/bufRdDFloat call the paired native<->portable converters and move XSFLOAT_BYTES / XDFLOAT_BYTES bytes on "
    "both sides. Not decided: bit identity of the xfloat.c transforms themselves; signed zero and infinities in "
    "DFloatSprint (value classes, recorded in DESIGN.md).")

LITERAL_BUILTINS = ("ArrToSFlo", "ArrToDFlo", "ArrToSInt", "ArrToBInt")


def run(tier, only=None):
    rep = common.Report("C19", tier, EXPLANATION)
    # ---- L1 ----
    r4 = c04_builtins.run(tier)
    hits = 0
    for rule, inst in sorted(r4.nontrivial):
        short = inst.split(":")[0] if rule in ("B3", "B4") else None
        if rule in ("B3", "B4") and short in LITERAL_BUILTINS:
            hits += 1
            rep.ok("L1", "%s:%s" % (rule, inst))
    for v in r4.violations + r4.known_hits:
        parts = v["key"].split(":")
        if len(parts) >= 2 and parts[1] in LITERAL_BUILTINS:
            rep.violation("L1", v["key"], v["where"], v["message"], detail=v.get("detail"))
    rep.floor("literal-conversion comparisons", hits + sum(1 for v in rep.violations), 8)
    # ---- L2 ----
    f = common.extract("util.c", trees=["DFloatSprint"])
    fn = f.func("DFloatSprint")
    par = common.parents(fn["body"])
    n = 0
    for c in calls(fn["body"]):
        if c.get("callee") not in ("sprintf", "snprintf", "fprintf", "printf"):
            continue
        fmt = None
        for a in c["c"][1:]:
            sv = string_value(a)
            if sv is not None and "%" in sv:
                fmt = sv
                fidx = c["c"].index(a)
        if fmt is None or "g" not in fmt and "e" not in fmt and "f" not in fmt:
            continue
        # on which path?
        p = par.get(c["id"])
        under_flag = None
        node = c
        while p is not None:
            if p["k"] == "IfStmt":
                cond = strip(p["c"][0])
                if cond is not None and cond.get("n") == "cmdFloatRepFlag":
                    under_flag = (p["c"][1] is not None and any(x["id"] == node["id"] for x in walk(p["c"][1])))
            node = p
            p = par.get(p["id"])
        if under_flag is None:
            raise AnalysisBroken("DFloatSprint: conversion at line %d is not under the cmdFloatRepFlag test" % c["l"])
        if under_flag:
            rep.note("L2: -Wfloatrep path at util.c:%d uses the user's requested precision (excluded)" % c["l"])
            continue
        n += 1
        prec = None
        if ".*" in fmt:
            prec = const_value(c["c"][fidx + 1])
        else:
            import re
            m = re.search(r"%[#0 +-]*\d*\.(\d+)[gGeEf]", fmt)
            prec = int(m.group(1)) if m else 6
        key = "DFloatSprint:default-precision"
        if prec is not None and prec >= 17:
            rep.ok("L2", key, sample={"format": fmt, "precision": prec})
        else:
            rep.violation("L2", key, "util.c:%d (DFloatSprint)" % c["l"],
                          "a double is printed with %s significant digits on the default path: 17 are needed for the text to "
                          "read back as the same value (generated C and S-expression output carry a different constant)" % prec)
    rep.floor("default-path float conversions in DFloatSprint", n, 1)
    # ---- L3 ----
    f_buf = common.extract("buffer.c", all_trees=True)
    f_lib = common.extract("lib.c", trees=["libPutHeader", "libGetHeader"])
    widths = c05_codec.prim_widths(f_buf)
    r5 = common.Report("C05", tier, "")
    c05_codec.w2(r5, f_buf, f_lib, widths)
    for rule, inst in sorted(r5.nontrivial):
        if inst.startswith("float:"):
            rep.ok("L3", inst)
    for v in r5.violations:
        if ":float:" in v["key"]:
            rep.violation("L3", v["key"].split(":", 1)[1], v["where"], v["message"])
    rep.assumptions += ["atof and strtod(s, 0) are one primitive by the C standard",
                        "17 significant decimal digits identify a binary64 value (IEEE 754)"]
    return rep
