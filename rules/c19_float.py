"""C19 (thin): floating-point constants keep their value.

L1  compile-time and run-time literal conversion are the same primitive under
    the same cast chain (rows ArrToSFlo/DFlo/SInt/BInt of the C04 comparison);
L2  float constants rendered into emitted artefacts are printed with
    round-trip precision on the default path;
L3  the portable float codec of object files uses paired converters and equal
    byte counts (C05-W2 rows).
"""
from . import common, c04_builtins, c05_codec
from .common import AnalysisBroken, strip, walk, calls, const_value, string_value

EXPLANATION_L4 = (
    " L4 (sibling isomorphism): each single/double-precision pair listed in frozen/c19_sibling_pairs.json (xfloat.c: classify, "
    "dissemble, assemble, to/from native format; foam_c.c: Min, Max, Epsilon, Next, Prev, rounded arithmetic, Fraction, Mantissa, "
    "Format, ArrTo) has identical pre-order token sequences (node kind, operator, callee, member, macro name of constants, cast and "
    "sizeof types; locals by first use) once the family names are mapped to neutral ones; pairs that differ by design are not claimed.")

EXPLANATION = (
    "L1: the C04 sibling comparison restricted to ArrToSFlo, ArrToDFlo, ArrToSInt and ArrToBInt: the folder, the interpreter, "
    "both C forms and the reference reach the same conversion primitive (atof / fiArrToSInt / bintFrString) through the same "
    "chain of casts; strtod(s,0) and atof(s) are identified. L2: in DFloatSprint (used for floats in generated C and in "
    "S-expression output) every printf-family conversion of a double on the default path (cmdFloatRepFlag false) has a "
    "constant-evaluated precision >= 17 significant digits (DBL_DIG+2), which guarantees that reading the text back gives "
    "the same double; the -Wfloatrep path is the user's request and excluded by name. L3: bufWrSFloat/bufRdSFloat and "
    "bufWrDFloat/bufRdDFloat call the paired native<->portable converters and move XSFLOAT_BYTES / XDFLOAT_BYTES bytes on "
    "both sides. Not decided: bit identity of the xfloat.c transforms themselves; signed zero and infinities in "
    "DFloatSprint (value classes, recorded in DESIGN.md).")

EXPLANATION = EXPLANATION + EXPLANATION_L4

LITERAL_BUILTINS = ("ArrToSFlo", "ArrToDFlo", "ArrToSInt", "ArrToBInt")


def l4(rep):
    """Single- and double-precision siblings are the same algorithm (isomorphic syntax trees under the family renaming)."""
    import json, os
    from . import siblings
    spec = json.load(open(os.path.join(os.path.dirname(__file__), "frozen", "c19_sibling_pairs.json")))
    n = 0
    for unit, sp in sorted(spec.items()):
        f = common.extract(unit, sp["config"], all_trees=True)
        pairs = [tuple(x) for x in sp["rename"]]
        for a, b in sp["pairs"]:
            n += 1
            r = siblings.compare(f.func(a), f.func(b), pairs)
            key = "siblings:%s:%s~%s" % (unit, a, b)
            if r is None:
                rep.ok("L4", key, sample={"pair": [a, b], "tokens": "identical after renaming"} if n in (1, 12) else None)
            elif siblings.kind_of_difference(r) == "shape":
                raise AnalysisBroken("the siblings %s and %s of %s no longer have the same shape (token %d: `%s` against `%s`): this rule "
                                     "only judges pairs that differ in an operator, constant, callee or member; a restructured sibling has "
                                     "to be re-confirmed by hand" % (a, b, unit, r[0], r[1], r[3]))
            else:
                i, ta, la, tb, lb, na, nb = r
                rep.violation("L4", key, "%s:%d (%s) / %s:%d (%s)" % (unit, la, a, unit, lb, b),
                              "the single- and double-precision versions are the same algorithm with the family's names exchanged, "
                              "but they differ at token %d: `%s` (line %d of %s) against `%s` (line %d of %s); one of the two was "
                              "changed without its sibling" % (i, ta, la, a, tb, lb, b))
    rep.floor("sibling pairs compared", n, 25)


def l5(rep):
    """The float decomposition used by the portable object-file codec and by the big-float conversions takes the sign from the
    representation's sign bit (the same mask the assembler sets): a comparison with 0.0 cannot see the sign of -0.0."""
    f = common.extract("xfloat.c", all_trees=True)
    n = 0
    for fam in ("sf", "df", "xsf", "xdf"):
        dis, asm = f.func(fam + "Dissemble"), f.func(fam + "Assemble")
        ps = [p for p in dis["params"] if p["n"] == "psign"]
        sg = [p for p in asm["params"] if p["n"] == "sign"]
        if not ps or not sg:
            raise AnalysisBroken("%sDissemble/%sAssemble: sign parameter not found" % (fam, fam))
        stores = []
        for x in walk(dis["body"]):
            if x["k"] == "BinaryOperator" and x["op"] == "=":
                l = strip(x["c"][0])
                if l is not None and l["k"] == "UnaryOperator" and l.get("op") == "*" and (strip(l["c"][0]) or {}).get("n") == "psign":
                    stores.append(x)
        if len(stores) != 1:
            raise AnalysisBroken("%sDissemble: expected one store to *psign, found %d" % (fam, len(stores)))
        rhs = stores[0]["c"][1]
        masks = set()
        for y in walk(rhs):
            for m in (y.get("mac"), y.get("imac")):
                if m and m.endswith("_SignMask"):
                    masks.add(m)
        fcmp = [y for y in walk(rhs) if y["k"] == "BinaryOperator" and y["op"] in ("<", ">", "<=", ">=") and
                any("float" in (c.get("t") or "") or "double" in (c.get("t") or "") for c in y["c"])]
        amasks = set()
        for y in walk(asm["body"]):
            if y["k"] == "ConditionalOperator" and (strip(y["c"][0]) or {}).get("n") == "sign":
                for z in walk(y):
                    for m in (z.get("mac"), z.get("imac")):
                        if m and m.endswith("_SignMask"):
                            amasks.add(m)
        if len(amasks) != 1:
            raise AnalysisBroken("%sAssemble: `sign ? <mask> : 0` not recognised (%s)" % (fam, sorted(amasks)))
        key = "sign-from-bit:%s" % fam
        where = "xfloat.c:%d (%sDissemble)" % (stores[0]["l"], fam)
        n += 1
        if fcmp:
            rep.violation("L5", key, where, "the sign is taken from a comparison of the value with 0.0: -0.0 is reported as positive, so a "
                          "negative zero stored in an object file (or converted to a big float) comes back as +0.0 and 1/x changes sign")
        elif masks == amasks:
            rep.ok("L5", key, sample={"mask": sorted(masks)})
        elif not masks:
            raise AnalysisBroken("%sDissemble: the store to *psign uses neither a sign mask nor a comparison" % fam)
        else:
            rep.violation("L5", key, where, "the sign is read with %s but written with %s" % (sorted(masks), sorted(amasks)))
    rep.floor("float decompositions", n, 4)


def _is_var(n, name):
    s_ = strip(n)
    return s_ is not None and s_["k"] == "DeclRefExpr" and s_["n"] == name


def _eq_const(cond, var):
    """`var == K` (either order) -> K, else None"""
    c = strip(cond)
    if c is None or c["k"] != "BinaryOperator" or c["op"] != "==":
        return None
    a, b = c["c"]
    if _is_var(a, var) and const_value(b) is not None:
        return const_value(b)
    if _is_var(b, var) and const_value(a) is not None:
        return const_value(a)
    return None


def _conj(cond):
    c = strip(cond)
    if c is not None and c["k"] == "BinaryOperator" and c["op"] == "&&":
        return _conj(c["c"][0]) + _conj(c["c"][1])
    return [c]


def sentinels(rep, rule="L6"):
    """The portable float form has two reserved exponents.  The writer x?fFrNative stores a NaN or infinity under X?F_ExponNAN
    with the native fraction kept, and a zero under X?F_ExponMin with an empty fraction.  The reader x?fToNative must recognise
    exactly those two encodings: a first test `expon == <the NaN sentinel>` whose branch assembles the native value without
    overwriting the fraction (except for formats without NaNs), and a test `expon == <the zero sentinel> && !hasFrac`.  A range
    test instead of the equality misclassifies ordinary values (a subnormal power of two has an empty fraction too); a missing
    NaN case falls into the overflow case, which clears the fraction: every NaN is read back as an infinity."""
    f = common.extract("xfloat.c", all_trees=True)
    n = 0
    for fam, nat in (("xsf", "sf"), ("xdf", "df")):
        wr, rd = f.func(fam + "FrNative"), f.func(fam + "ToNative")
        # --- the writer's sentinels
        nan_s = zero_s = None
        wpar = common.parents(wr["body"])
        for i in walk(wr["body"]):
            if i["k"] != "IfStmt":
                continue
            # the assemble call directly under this test (not under a nested one)
            asm = []
            for c in calls(i["c"][1], fam + "Assemble"):
                cur, nested = c, False
                while cur["id"] in wpar and wpar[cur["id"]] is not i:
                    cur = wpar[cur["id"]]
                    if cur["k"] == "IfStmt":
                        nested = True
                if not nested:
                    asm.append(c)
            if not asm:
                continue
            k = const_value(asm[0]["c"][3]) if len(asm[0]["c"]) > 3 else None
            conj = _conj(i["c"][0])
            cur = i
            while cur["id"] in wpar:                      # conditions of enclosing tests whose then-branch we are in
                p_ = wpar[cur["id"]]
                if p_["k"] == "IfStmt" and any(y is cur for y in walk(p_["c"][1])):
                    conj = conj + _conj(p_["c"][0])
                cur = p_
            tests_expon = [t for t in conj if t is not None and _eq_const(t, "expon") is not None]
            nofrac = any(t is not None and t["k"] == "UnaryOperator" and t["op"] == "!" and _is_var(t["c"][0], "hasFrac") for t in conj)
            hasfrac = any(_is_var(t, "hasFrac") for t in conj)
            if k is None or not tests_expon or hasfrac:
                continue
            if nofrac and zero_s is None:
                zero_s = k
            elif not nofrac and nan_s is None:
                nan_s = k
        if nan_s is None or zero_s is None:
            raise AnalysisBroken("%sFrNative: the NaN and zero cases (if (expon == ...) %sAssemble(.., CONSTANT, ..)) were not recognised"
                                 % (fam, fam))
        # --- the reader
        ifs = [i for i in walk(rd["body"]) if i["k"] == "IfStmt" and any(y["k"] == "DeclRefExpr" and y["n"] == "expon" for y in walk(i["c"][0]))]
        where = "xfloat.c:%d (%sToNative)" % (rd["l"], fam)
        n += 2
        # NaN/Inf: the first test on expon
        key = "reader-recognises-sentinel:%s:nan" % fam
        first = ifs[0] if ifs else None
        if first is None or _eq_const(first["c"][0], "expon") != nan_s or not calls(first["c"][1], nat + "Assemble"):
            rep.violation(rule, key, where,
                          "%sFrNative stores NaNs and infinities under the reserved exponent %d with their fraction; %sToNative's "
                          "first test on the exponent is not `expon == %d` with a branch that assembles the native value: a stored "
                          "NaN is taken for an overflowing number by the next case, which clears the fraction, and comes back as "
                          "an infinity" % (fam, nan_s, fam, nan_s))
        else:
            # the fraction is kept: stores into pb[] only under a test of the no-NaNs flag
            par = common.parents(first["c"][1])
            bad = None
            for x in walk(first["c"][1]):
                if x["k"] == "BinaryOperator" and x["op"] == "=":
                    l = strip(x["c"][0])
                    if l is not None and l["k"] == "ArraySubscriptExpr" and _is_var(l["c"][0], "pb"):
                        cur, guarded = x, False
                        while cur["id"] in par:
                            cur = par[cur["id"]]
                            if cur["k"] == "IfStmt" and any(y["k"] == "DeclRefExpr" and "nan" in y["n"].lower() for y in walk(cur["c"][0])):
                                guarded = True
                        if not guarded:
                            bad = x
            if bad is not None:
                rep.violation(rule, key, "xfloat.c:%d (%sToNative)" % (bad["l"], fam),
                              "the NaN/infinity case overwrites the fraction unconditionally: a NaN is read back as an infinity")
            else:
                rep.ok(rule, key, sample={"sentinel": nan_s})
        # zero
        key = "reader-recognises-sentinel:%s:zero" % fam
        zs = []
        for i in ifs:
            conj = _conj(i["c"][0])
            if any(t is not None and t["k"] == "UnaryOperator" and t["op"] == "!" and _is_var(t["c"][0], "hasFrac") for t in conj) and \
                    calls(i["c"][1], nat + "Assemble") and not any(y["k"] == "CallExpr" and y.get("callee") not in (nat + "Assemble", "fprintf", "afprintf")
                                                                    for y in walk(i["c"][1])):
                zs.append((i, conj))
        if len(zs) != 1:
            raise AnalysisBroken("%sToNative: expected one `... && !hasFrac` case that assembles a zero, found %d" % (fam, len(zs)))
        i, conj = zs[0]
        others = [t for t in conj if not (t is not None and t["k"] == "UnaryOperator" and t["op"] == "!")]
        if len(others) == 1 and _eq_const(others[0], "expon") == zero_s:
            rep.ok(rule, key, sample={"sentinel": zero_s})
        else:
            rep.violation(rule, key, "xfloat.c:%d (%sToNative)" % (i["l"], fam),
                          "%sFrNative stores a zero as (exponent %d, empty fraction); %sToNative's zero case tests `%s` instead of "
                          "`expon == %d`: other values with an empty fraction (the leading 1 is implicit, so every power of two, in "
                          "particular the subnormal ones) are read back as zero"
                          % (fam, zero_s, fam, " && ".join(common.render(t) for t in others if t is not None)[:80], zero_s))
    rep.floor("reserved exponents of the portable float form", n, 4)


ARTEFACT_UNITS = ["util.c", "sexpr.c", "genc.c", "ccode.c", "genlisp.c", "java/genjava.c", "java/javacode.c", "foam.c"]


def _float_convs_digest(f):
    import re
    base = f.unit.split("/")[-1]
    out = []
    for name, fn in f.funcs.items():
        if "body" not in fn or not fn.get("file", "").endswith(base):
            continue
        par = None
        for c in calls(fn["body"]):
            if c.get("callee") not in ("sprintf", "snprintf", "strPrintf", "bufPrintf", "aStrPrintf", "ccoPrintf", "ostreamPrintf"):
                continue
            args = c["c"][1:]
            fi = fmt = None
            for i, a in enumerate(args):
                sv = string_value(a)
                if sv is not None and "%" in sv:
                    fi, fmt = i, sv
                    break
            if fi is None:
                continue
            k = fi + 1
            for m in re.finditer(r"%([#0 +-]*)(\*|\d+)?(?:\.(\*|\d+))?(l|ll|h|L)?([a-zA-Z%])", fmt):
                fl, w, pr, ln, cv = m.groups()
                if cv == "%":
                    continue
                if w == "*":
                    k += 1
                prec = 6
                if pr == "*":
                    prec = const_value(args[k]) if k < len(args) else None
                    k += 1
                elif pr is not None:
                    prec = int(pr)
                if cv in "gGeE":
                    v = args[k] if k < len(args) else None
                    s_ = v
                    while s_ is not None and s_["k"] in ("ImplicitCastExpr", "ParenExpr", "CStyleCastExpr"):
                        s_ = s_["c"][0]
                    tc = (s_ or {}).get("tc") or ""
                    if par is None:
                        par = common.parents(fn["body"])
                    under_flag = False
                    cur = c
                    while cur["id"] in par:
                        p_ = par[cur["id"]]
                        if p_["k"] == "IfStmt" and any(y["k"] == "DeclRefExpr" and y["n"] == "cmdFloatRepFlag" for y in walk(p_["c"][0])) \
                                and any(y is cur for y in walk(p_["c"][1])):
                            under_flag = True
                        cur = p_
                    out.append((name, c["l"], m.group(0), prec, tc, under_flag))
                k += 1
    return out


def constant_precision(rep, rule="L7"):
    """Every place of the units that write artefacts (generated C, Java, Lisp, .fm text) where a floating value is turned into
    text with a %g/%e conversion prints enough digits for the text to denote the same value again: 17 for a value of double
    type, 9 for a value of single type (the type of the argument before its promotion to double).  FLT_DIG + 2 is 8 and
    DBL_DIG + 2 is 17: the analogy does not hold for singles.  The user-requested -Wfloatrep path is excluded."""
    dig = common.map_units(ARTEFACT_UNITS, _float_convs_digest, "compiler", all_trees=True)
    n = 0
    for u in sorted(dig):
        base = u.split("/")[-1]
        for name, line, conv, prec, tc, under_flag in dig[u]:
            if under_flag:
                rep.note("%s: -Wfloatrep path at %s:%d uses the user's requested precision (excluded)" % (rule, base, line))
                continue
            n += 1
            need = 9 if tc == "f32" else 17
            key = "round-trip-digits:%s:%s" % (base, name)
            if prec is not None and prec >= need:
                rep.ok(rule, key + "@%d" % line, sample={"conversion": conv, "digits": prec, "needed": need})
            else:
                rep.violation(rule, key, "%s:%d (%s)" % (base, line, name),
                              "a %s value is written with `%s` and %s significant digits; %d are needed for the text to read back as "
                              "the same value: a folded constant emitted into generated code or a .fm file denotes a neighbouring "
                              "value (about 1.5%% of single floats with 8 digits), while the unfolded program converts the literal "
                              "exactly" % ("single-float" if need == 9 else "double-float", conv, prec, need))
    rep.floor("float-to-text conversions in the artefact writers", n, 1)


L8_UNITS = ("fint.c", "xfloat.c", "foam.c", "buffer.c", "foam_c.c")
L8_MEM = ("memcmp", "memcpy", "memmove", "memset", "bcmp", "bcopy", "strncmp", "strncpy")


def l8(rep):
    """A constant travels as a fixed number of bytes (XSFLOAT_BYTES = 6, XDFLOAT_BYTES = 10).  Wherever those bytes are held in
    an array and looked at with memcmp/memcpy, the length used is the length held: a comparison of the first 6 bytes of a
    10-byte encoding calls two double constants equal when they agree in sign, exponent and the top 32 fraction bits, and a
    value remembered under that test is handed out for its neighbour (1.0000000000000002 reads as 1.0).  In the units that
    read and write float constants, every mem*/strn* call on a local or static array of constant size with a constant length
    uses the array's size."""
    nfun = n = 0
    bad = []
    for unit in L8_UNITS:
        f = common.extract(unit, all_trees=True)
        for name, fn in sorted(f.funcs.items()):
            if "body" not in fn or not fn.get("file", "").endswith(unit):
                continue
            nfun += 1
            arrs = {}
            for x in walk(fn["body"]):
                if x["k"] == "DeclStmt":
                    for d in x.get("decls", []):
                        if d.get("bound") is not None:
                            esz = 1
                            t = d.get("t") or ""
                            arrs[d["n"]] = (d["bound"], t)
            if not arrs:
                continue
            for c in common.calls(fn["body"]):
                if c.get("callee") not in L8_MEM or len(c["c"]) < 4:
                    continue
                ln = const_value(c["c"][3])
                if ln is None:
                    continue
                for a in c["c"][1:3]:
                    a_ = strip(a)
                    if a_ is not None and a_["k"] == "DeclRefExpr" and a_["n"] in arrs:
                        bound, t = arrs[a_["n"]]
                        if not ("char" in t or "Byte" in t):
                            continue                   # lengths of wider elements are in bytes, bounds in elements
                        n += 1
                        if ln != bound:
                            bad.append((unit, name, c["l"], c["callee"], a_["n"], bound, ln))
    for unit, name, line, callee, arr, bound, ln in bad:
        rep.violation("L8", "length-is-the-length-held:%s:%s:%s" % (unit, name, arr), "%s:%d (%s)" % (unit, line, name),
                      "%s looks at %d bytes of `%s`, which holds %d: the rest of the encoding is ignored (for a double constant "
                      "kept in its 10-byte portable form, the low 20 bits of the fraction), so two neighbouring constants count "
                      "as the same and one is handed out for the other" % (callee, ln, arr, bound))
    rep.floor("functions of the float-constant units scanned for byte counts", nfun, 300)
    if not bad:
        rep.ok("L8", "length-is-the-length-held", sample={"functions": nfun, "constant-length calls on byte arrays": n})


L9_SETTERS = ("fesetenv", "feupdateenv", "fesetround", "_controlfp", "_control87", "__setfpucw", "fpsetround", "fpsetmask",
              "_mm_setcsr", "_MM_SET_FLUSH_ZERO_MODE", "_MM_SET_DENORMALS_ZERO_MODE", "fiIeeeSetRoundingMode", "fiIeeeSetEnabledExceptions")


def l9(rep):
    """Literals are converted where the program happens to need them: folded by the compiler, or converted by the run time of
    the executable or of the interpreter.  All three use the same primitive, and give the same value only if they run in the
    same floating-point environment -- the default one.  fiInitialiseFpu is called at the start of every executable and of the
    interpreter, after the compiler has folded what it folds: if it changes the environment (flush-to-zero, another rounding
    mode), a subnormal single-float literal converted at run time becomes 0 while the same literal folded keeps its value.
    On this platform fiInitialiseFpu and what it calls contain no inline assembly and no call of an environment setter."""
    f = common.extract("foam_cfp.c", "runtime", all_trees=True)
    fn = f.funcs.get("fiInitialiseFpu")
    if fn is None or "body" not in fn:
        raise AnalysisBroken("fiInitialiseFpu not found in foam_cfp.c")
    seen, work, bad = set(), ["fiInitialiseFpu"], []
    while work:
        name = work.pop()
        if name in seen:
            continue
        seen.add(name)
        g = f.funcs.get(name)
        if g is None or "body" not in g:
            continue
        for x in walk(g["body"]):
            if x["k"] in ("GCCAsmStmt", "MSAsmStmt", "AsmStmt"):
                bad.append((name, x["l"], "inline assembly"))
            elif x["k"] == "CallExpr":
                cal = x.get("callee")
                if cal in L9_SETTERS:
                    bad.append((name, x["l"], "call of %s" % cal))
                elif cal:
                    work.append(cal)
    if bad:
        name, line, what = bad[0]
        rep.violation("L9", "start-up-leaves-the-float-environment", "foam_cfp.c:%d (%s)" % (line, name),
                      "the start-up hook of every executable and of the interpreter changes the floating-point environment (%s): "
                      "literals converted at run time are then converted under other rules than the ones the compiler folded "
                      "them under -- with flush-to-zero a subnormal SingleFloat literal is 0 at -Q0 and its exact value at -Q2"
                      % what)
    else:
        rep.ok("L9", "start-up-leaves-the-float-environment", sample={"functions looked at": sorted(seen)})


def run(tier, only=None):
    rep = common.Report("C19", tier, EXPLANATION)
    # ---- L5 and L4 first: they need nothing from C04 ----
    l5(rep)
    sentinels(rep, "L6")
    constant_precision(rep, "L7")
    l8(rep)
    l9(rep)
    deferred = None
    try:
        l4(rep)
    except AnalysisBroken as e:
        deferred = e            # L1 may report the same edit by name; only if nothing does is the analysis broken
        rep.note("L4 not completed: %s" % e)
    # ---- L1 ----
    try:
        r4 = c04_builtins.run(tier, library=True)
    except AnalysisBroken as e:
        # L1 re-uses C04's comparison, which needs every copy of every builtin to be expressible; when L4 already reports
        # the edit that makes a copy inexpressible, report that instead of "analysis broken"
        if not rep.violations:
            raise
        rep.note("L1 not evaluated: %s" % e)
        r4 = None
    hits = 0
    for rule, inst in sorted(r4.nontrivial if r4 else []):
        short = inst.split(":")[0] if rule in ("B3", "B4") else None
        if rule in ("B3", "B4") and short in LITERAL_BUILTINS:
            hits += 1
            rep.ok("L1", "%s:%s" % (rule, inst))
    for v in (r4.violations + r4.known_hits if r4 else []):
        parts = v["key"].split(":")
        if len(parts) >= 2 and parts[1] in LITERAL_BUILTINS:
            rep.violation("L1", v["key"], v["where"], v["message"], detail=v.get("detail"))
    if r4 is not None:
        rep.floor("literal-conversion comparisons", hits + sum(1 for v in rep.violations), 8)
    # ---- L2 ----
    f = common.extract("util.c", trees=["DFloatSprint"])
    fn = f.func("DFloatSprint")
    par = common.parents(fn["body"])
    n = 0
    for c in calls(fn["body"]):
        if c.get("callee") not in ("sprintf", "snprintf", "fprintf", "printf"):
            continue
        fmt = None
        for a in c["c"][1:]:
            sv = string_value(a)
            if sv is not None and "%" in sv:
                fmt = sv
                fidx = c["c"].index(a)
        if fmt is None or "g" not in fmt and "e" not in fmt and "f" not in fmt:
            continue
        # on which path?
        p = par.get(c["id"])
        under_flag = None
        node = c
        while p is not None:
            if p["k"] == "IfStmt":
                cond = strip(p["c"][0])
                if cond is not None and cond.get("n") == "cmdFloatRepFlag":
                    under_flag = (p["c"][1] is not None and any(x["id"] == node["id"] for x in walk(p["c"][1])))
            node = p
            p = par.get(p["id"])
        if under_flag is None:
            raise AnalysisBroken("DFloatSprint: conversion at line %d is not under the cmdFloatRepFlag test" % c["l"])
        if under_flag:
            rep.note("L2: -Wfloatrep path at util.c:%d uses the user's requested precision (excluded)" % c["l"])
            continue
        n += 1
        prec = None
        if ".*" in fmt:
            prec = const_value(c["c"][fidx + 1])
        else:
            import re
            m = re.search(r"%[#0 +-]*\d*\.(\d+)[gGeEf]", fmt)
            prec = int(m.group(1)) if m else 6
        key = "DFloatSprint:default-precision"
        if prec is not None and prec >= 17:
            rep.ok("L2", key, sample={"format": fmt, "precision": prec})
        else:
            rep.violation("L2", key, "util.c:%d (DFloatSprint)" % c["l"],
                          "a double is printed with %s significant digits on the default path: 17 are needed for the text to "
                          "read back as the same value (generated C and S-expression output carry a different constant)" % prec)
    rep.floor("default-path float conversions in DFloatSprint", n, 1)
    # L2b: a shortcut that prints a fixed text for d == 0.0 must keep the sign of zero
    nz = 0
    for c in calls(fn["body"]):
        if c.get("callee") not in ("sprintf", "snprintf", "strcpy"):
            continue
        consts = [string_value(a) for a in walk(c) if a["k"] == "StringLiteral"]
        if not consts or any("%" in (x or "") for x in consts):
            continue
        # on the default path only
        p, node, under_flag, zero_guard = par.get(c["id"]), c, None, None
        while p is not None:
            if p["k"] == "IfStmt":
                cond = strip(p["c"][0])
                inthen = p["c"][1] is not None and any(x["id"] == node["id"] for x in walk(p["c"][1]))
                if cond is not None and cond.get("n") == "cmdFloatRepFlag":
                    under_flag = inthen
                elif cond is not None and cond["k"] == "BinaryOperator" and cond["op"] == "==" and inthen and (
                        const_value(cond["c"][1]) == 0 or (strip(cond["c"][1]) or {}).get("k") == "FloatingLiteral"
                        and float((strip(cond["c"][1]).get("v") or 1)) == 0.0):
                    zero_guard = p
            node, p = p, par.get(p["id"])
        if under_flag or zero_guard is None:
            continue
        nz += 1
        # sign distinguished: the call's text depends on a test of the sign (1.0/d, signbit, copysign) or two texts with and without '-'
        texts = [x for x in consts if x]
        signed = any(t.startswith("-") for t in texts) and any(not t.startswith("-") for t in texts)
        tested = any(y["k"] == "CallExpr" and y.get("callee") in ("signbit", "copysign", "__builtin_signbit") for y in walk(zero_guard["c"][1])) or \
            any(y["k"] == "BinaryOperator" and y["op"] == "/" for y in walk(zero_guard["c"][1]))
        key = "DFloatSprint:zero-keeps-sign"
        if signed and tested:
            rep.ok("L2", key, sample={"texts": texts})
        else:
            rep.violation("L2", key, "util.c:%d (DFloatSprint)" % c["l"],
                          "d == 0.0 is printed as the fixed text %s whatever its sign: a folded constant -0.0 becomes +0.0 in generated C, "
                          ".fm and Lisp output (1/x changes from -inf to +inf)" % texts)
    # ---- L3 ----
    f_buf = common.extract("buffer.c", all_trees=True)
    f_lib = common.extract("lib.c", trees=["libPutHeader", "libGetHeader"])
    widths = c05_codec.prim_widths(f_buf)
    r5 = common.Report("C05", tier, "")
    c05_codec.w2(r5, f_buf, f_lib, widths)
    for rule, inst in sorted(r5.nontrivial):
        if inst.startswith("float:"):
            rep.ok("L3", inst)
    for v in r5.violations:
        if ":float:" in v["key"]:
            rep.violation("L3", v["key"].split(":", 1)[1], v["where"], v["message"])
    if deferred is not None and not rep.violations:
        raise deferred
    rep.assumptions += ["atof and strtod(s, 0) are one primitive by the C standard",
                        "17 significant decimal digits identify a binary64 value (IEEE 754)"]
    return rep
