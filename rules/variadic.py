"""Variadic constructor agreement: a node constructor that takes a count and
then that many children (foamNew, ccoNew, abNew, tfNewNode, listList(T), the
jcApply*V family, ...) must be given exactly `count` variadic arguments, and a
NULL-terminated one (foamNewSeq, foamNewCCall, strlConcat, ...) must end in a
null pointer constant.  The callee reads `count` (or up to NULL) arguments with
va_arg whatever the caller passed: with too few, a slot of the node holds
whatever was in the next register or stack word, and the first pass that walks
the node dereferences it.

The positions of the count parameter are taken from the definitions themselves
(the parameter immediately before `...` for the counted family, confirmed by
name: argc / n / sz), not assumed.
"""
from . import common
from .common import AnalysisBroken, walk, strip, render, const_value

# constructor -> name of the count parameter (checked against the definition when the definition is in the analysed unit)
COUNTED = {"abNew": "argc", "ccoNew": "argc", "foamNew": "argc", "implNew": "sz", "tcNew": "argc", "tfNewNode": "argc", "tfCross": "argc",
           "tfMulti": "argc", "tfJoin": "argc", "tfMeet": "argc", "ptrlistList": "n", "jcApplyV": "n", "jcApplyMethodV": "n",
           "jcGenericMethodNameV": "n", "fintDoCall": "argc", "gen0BuiltinCCall": "argc"}
COUNT_INDEX = {"abNew": 2, "ccoNew": 1, "foamNew": 1, "implNew": 1, "tcNew": 5, "tfNewNode": 1, "tfCross": 0, "tfMulti": 0, "tfJoin": 0,
               "tfMeet": 0, "ptrlistList": 0, "jcApplyV": 1, "jcApplyMethodV": 2, "jcGenericMethodNameV": 1, "fintDoCall": 2,
               "gen0BuiltinCCall": 3}
NULL_TERMINATED = ("foamNewSeq", "foamNewCCall", "foamNewPCall", "foamNewBCall", "foamNewDDecl", "ptrlistListNull", "strlConcat")


def digest(f):
    out = {"sites": [], "defs": {}}
    base = f.unit.split("/")[-1]
    for name, fn in f.funcs.items():
        if name in COUNTED and fn.get("params") is not None and "body" in fn:
            out["defs"][name] = [p["n"] for p in fn["params"]]
        if "body" not in fn or not fn.get("file", "").endswith(base):
            continue
        inits = None
        for x in walk(fn["body"]):
            if x["k"] != "CallExpr":
                continue
            cal, args = x.get("callee"), x["c"][1:]
            if cal is None:
                c = strip(x["c"][0])
                if c is not None and c["k"] == "MemberExpr" and c["n"] == "List":
                    cal = "ptrlistList"
                elif c is not None and c["k"] == "MemberExpr" and c["n"] == "ListNull":
                    cal = "ptrlistListNull"
            if cal in COUNTED:
                i = COUNT_INDEX[cal]
                if len(args) <= i:
                    out["sites"].append((name, x["l"], cal, "short", None, None))
                    continue
                n = const_value(args[i])
                if n is None:
                    out["sites"].append((name, x["l"], cal, "nonconst", render(args[i])[:40], None))
                else:
                    out["sites"].append((name, x["l"], cal, "counted", n, len(args) - i - 1))
            elif cal in NULL_TERMINATED:
                last = args[-1] if args else None
                v = const_value(last) if last is not None else None
                if v is None and last is not None:
                    l = strip(last)
                    if l is not None and l["k"] == "DeclRefExpr" and not l.get("g"):
                        if inits is None:
                            inits = {}
                            for d in walk(fn["body"]):
                                if d["k"] == "DeclStmt":
                                    for v_ in d.get("decls", []):
                                        if v_.get("init") is not None:
                                            inits.setdefault(v_["n"], []).append(v_["init"])
                            for a in walk(fn["body"]):
                                if a["k"] == "BinaryOperator" and a["op"] == "=" and (strip(a["c"][0]) or {}).get("k") == "DeclRefExpr":
                                    inits.setdefault(strip(a["c"][0])["n"], []).append(a["c"][1])
                        ds = inits.get(l["n"], [])
                        if len(ds) == 1:
                            v = const_value(ds[0])
                out["sites"].append((name, x["l"], cal, "nullterm", v, render(last)[:40] if last is not None else None))
    return out


def report(rep, rule, units, config="compiler", floor=None, what=""):
    dig = common.map_units(units, digest, config, all_trees=True)
    n = 0
    for u in sorted(dig):
        for cal, ps in dig[u]["defs"].items():
            i = COUNT_INDEX[cal]
            if len(ps) <= i or ps[i] != COUNTED[cal] or len(ps) != i + 1:
                raise AnalysisBroken("%s: the definition of %s no longer has its count parameter '%s' last before `...` (%s)"
                                     % (u, cal, COUNTED[cal], ps))
        for fn, line, cal, kind, a, b in dig[u]["sites"]:
            base = u.split("/")[-1]
            where = "%s:%d (%s)" % (base, line, fn)
            key = "variadic:%s:%s:%s@%d" % (base, fn, cal, line)
            if kind == "nonconst":
                rep.note("%s not decided: %s count `%s` is not a constant (%s)" % (rule, cal, a, where))
                continue
            n += 1
            if kind == "short":
                rep.violation(rule, "variadic:%s:%s:%s" % (base, fn, cal), where, "%s is called without its count argument" % cal)
            elif kind == "counted":
                if a == b:
                    rep.ok(rule, key, nontrivial=False)
                else:
                    rep.violation(rule, "variadic:%s:%s:%s" % (base, fn, cal), where,
                                  "%s is told to expect %d children and is given %d: %s" %
                                  (cal, a, b, "the missing slots are filled from whatever va_arg finds, and the first walk over the "
                                   "node dereferences it" if b < a else "the extra children are silently dropped from the node"))
            else:
                if a == 0:
                    rep.ok(rule, key, nontrivial=False)
                else:
                    rep.violation(rule, "variadic:%s:%s:%s" % (base, fn, cal), where,
                                  "the argument list of the NULL-terminated %s ends in `%s`, not in a null pointer: va_arg runs past "
                                  "the arguments given" % (cal, b))
    if floor is not None:
        rep.floor("variadic constructor calls %s" % what, n, floor)
    return n
