"""A mask of the low `n mod W` bits needs the case n mod W == 0.

`~(~0 << (n % W))` is the mask of the bits of the last word that belong to an n-bit vector -- except when n is a multiple of the
word size: then the shift count is 0, the mask is empty, and whatever is computed under it ignores the whole last word.  (The
single-bit form `1 << (i % W)` has no such case.)  bitvEqual tests `nbits % BpW == 0` first and compares the full word.  A copy
of the idiom without that test stops a fixpoint iteration early whenever a flow graph has exactly 128, 192, ... variables and
the change is in the last word: live assignments are deleted and the optimised program computes something else.

Instances: every shift `ALLONES << (E % W)` of the units given.  Rule: on the way to it, `E % W` has been tested against zero
(an enclosing condition, a conditional expression, or an earlier `if (E % W == 0) <leave>` in an enclosing block).
"""
from . import common
from .common import walk, strip, render, const_value

ALLONES = (-1, 0xFFFFFFFF, 0xFFFFFFFFFFFFFFFF)


def _is_allones(e):
    e = strip(e)
    if e is None:
        return False
    v = const_value(e)
    if v in ALLONES:
        return True
    if e["k"] == "UnaryOperator" and e["op"] == "~":
        return const_value(e["c"][0]) == 0
    return False


def digest(f):
    base = f.unit.split("/")[-1]
    out = []
    for name, fn in f.funcs.items():
        if "body" not in fn or not fn.get("file", "").endswith(base):
            continue
        sites = []
        for x in walk(fn["body"]):
            if x["k"] == "BinaryOperator" and x["op"] == "<<" and _is_allones(x["c"][0]):
                cnt = strip(x["c"][1])
                if cnt is not None and cnt["k"] == "BinaryOperator" and cnt["op"] == "%" and const_value(cnt) is None:
                    sites.append((x, render(cnt)))
        if not sites:
            continue
        par = common.parents(fn["body"])
        # a local holding the remainder stands for it
        for x, rem in sites:
            def tests_rem(cond):
                for y in walk(cond):
                    if y["k"] == "BinaryOperator" and y["op"] == "%" and render(y) == rem:
                        return True
                return False
            guarded = False
            cur = x
            while cur["id"] in par and not guarded:
                p_ = par[cur["id"]]
                if p_["k"] in ("IfStmt", "ConditionalOperator") and p_["c"][0] is not cur and tests_rem(p_["c"][0]) and \
                        not any(y is cur for y in walk(p_["c"][0])):
                    guarded = True
                elif p_["k"] == "BinaryOperator" and p_["op"] in ("&&", "||") and p_["c"][1] is cur and tests_rem(p_["c"][0]):
                    guarded = True
                elif p_["k"] == "CompoundStmt":
                    for st in p_["c"]:
                        if st is cur or any(y is cur for y in walk(st)):
                            break
                        if st["k"] == "IfStmt" and tests_rem(st["c"][0]) and common.ends_flow(st["c"][1]):
                            guarded = True
                cur = p_
            out.append((name, x["l"], rem, guarded))
    return out


def report(rep, rule, units=None, floor=1):
    units = units or common.compiler_units()
    dig = common.map_units(units, digest, "compiler", all_trees=True)
    n = 0
    for u in sorted(dig):
        base = u.split("/")[-1]
        for fn, line, rem, guarded in dig[u]:
            n += 1
            key = "low-bits-mask-has-zero-case:%s:%s" % (base, fn)
            if guarded:
                rep.ok(rule, key + "@%d" % line, sample={"remainder": rem})
            else:
                rep.violation(rule, key, "%s:%d (%s)" % (base, line, fn),
                              "the mask of the low `%s` bits is built without the case where that remainder is 0: the shift count "
                              "is then 0 and the mask is empty, so for a vector whose size is a multiple of the word size the whole "
                              "last word is ignored.  In the data-flow iteration this ends the fixpoint early for a function with "
                              "exactly 128, 192, ... variables: live assignments are removed and the optimised program differs "
                              "from the unoptimised one" % rem)
    rep.floor("low-bits masks built from a remainder", n, floor)
    return n
