"""A mask of the low `n mod W` bits needs the case n mod W == 0.

`~(~0 << (n % W))` (or `(1 << (n % W)) - 1`) is the mask of the bits of the last word that belong to an n-bit vector -- except
when n is a multiple of the word size: then the shift count is 0, the mask is empty, and whatever is computed under it ignores
the whole last word, all of which is significant.  (The single-bit form `1 << (i % W)` has no such case.)  bitvEqual tests
`nbits % BpW == 0` first and compares the full word.  A copy of the idiom without that test stops a fixpoint iteration early
whenever a flow graph has exactly 128, 192, ... variables and the change is in the last word: live assignments are deleted
and the optimised program computes something else.

Instances: every low-bits mask of the units given whose count is `E % W`, directly or through a local assigned once from such
an expression.  Rule: the mask is unreachable for a zero remainder -- an earlier `if (<remainder> == 0) <leave>` in an
enclosing block, an enclosing `if`/conditional on the remainder with the mask on the non-zero side.
"""
from . import common
from .common import walk, strip, render, const_value

ALLONES = (-1, 0xFFFFFFFF, 0xFFFFFFFFFFFFFFFF)


def _is_allones(e):
    e = strip(e)
    if e is None:
        return False
    if const_value(e) in ALLONES:
        return True
    if e["k"] == "UnaryOperator" and e["op"] == "~":
        return const_value(e["c"][0]) == 0
    return False


def masks(body):
    """(mask node, set of renderings that stand for its count) for every low-bits mask whose count is a remainder"""
    single = {}
    for x in walk(body):
        if x["k"] == "DeclStmt":
            for d in x.get("decls", []):
                if d.get("init") is not None:
                    single.setdefault(d["n"], []).append(d["init"])
        elif x["k"] == "BinaryOperator" and x["op"] == "=":
            l = strip(x["c"][0])
            if l is not None and l["k"] == "DeclRefExpr":
                single.setdefault(l["n"], []).append(x["c"][1])
        elif x["k"] in ("CompoundAssignOperator", "UnaryOperator") and x.get("op") in ("++", "--", "post++", "post--", "+=", "-=", "&"):
            l = strip(x["c"][0])
            if l is not None and l["k"] == "DeclRefExpr":
                single.setdefault(l["n"], []).extend([None, None])
    for x in walk(body):
        k = None
        if x["k"] == "UnaryOperator" and x["op"] == "~":
            sh = strip(x["c"][0])
            if sh is not None and sh["k"] == "BinaryOperator" and sh["op"] == "<<" and _is_allones(sh["c"][0]):
                k = strip(sh["c"][1])
        elif x["k"] == "BinaryOperator" and x["op"] == "-" and const_value(x["c"][1]) == 1:
            sh = strip(x["c"][0])
            if sh is not None and sh["k"] == "BinaryOperator" and sh["op"] == "<<" and const_value(sh["c"][0]) == 1:
                k = strip(sh["c"][1])
        if k is None:
            continue
        names = set()
        if k["k"] == "DeclRefExpr" and len(single.get(k["n"], [])) == 1 and single[k["n"]][0] is not None:
            names.add(k["n"])
            k = strip(single[k["n"]][0])
        if k is not None and k["k"] == "BinaryOperator" and k["op"] == "%" and const_value(k) is None:
            names.add(render(k))
            yield x, names, render(k)


def guarded(m, names, par):
    def tests_zero(c):
        for y in walk(c):
            if y["k"] == "BinaryOperator" and y["op"] in ("==", "!=") and const_value(y["c"][1]) == 0 and render(strip(y["c"][0])) in names:
                return y["op"]
            if y["k"] == "UnaryOperator" and y["op"] == "!" and render(strip(y["c"][0])) in names:
                return "=="
        s = strip(c)
        if s is not None and render(s) in names:
            return "!="                      # `if (rem)`: the truth value of the remainder
        return None
    cur = m
    while cur["id"] in par:
        p_ = par[cur["id"]]
        if p_["k"] == "CompoundStmt":
            for st in p_["c"]:
                if st is None:
                    continue
                if st is cur or any(y is cur for y in walk(st)):
                    break
                if st["k"] == "IfStmt" and tests_zero(st["c"][0]) == "==" and common.ends_flow(st["c"][1]):
                    return True
        if p_["k"] == "IfStmt":
            op = tests_zero(p_["c"][0])
            in_then = any(y is cur for y in walk(p_["c"][1]))
            in_else = len(p_["c"]) > 2 and p_["c"][2] is not None and any(y is cur for y in walk(p_["c"][2]))
            if (op == "!=" and in_then) or (op == "==" and in_else):
                return True
        if p_["k"] == "ConditionalOperator":
            op = tests_zero(p_["c"][0])
            if (op == "!=" and any(y is cur for y in walk(p_["c"][1]))) or (op == "==" and any(y is cur for y in walk(p_["c"][2]))):
                return True
        cur = p_
    return False


def digest(f):
    base = f.unit.split("/")[-1]
    out = []
    for name, fn in sorted(f.funcs.items(), key=lambda kv: kv[1].get("l", 0)):
        if "body" not in fn or not fn.get("file", "").endswith(base):
            continue
        par = None
        for m, names, rem in masks(fn["body"]):
            if par is None:
                par = common.parents(fn["body"])
            out.append((name, m["l"], render(m)[:60], rem, guarded(m, names, par)))
    return out


def report(rep, rule, units=None, floor=1, key="low-bits-mask-has-zero-case", with_unit=True):
    units = units or common.compiler_units()
    dig = common.map_units(list(units), digest, "compiler", all_trees=True)
    n = 0
    for u in sorted(dig):
        base = u.split("/")[-1]
        for fn, line, mask, rem, ok in dig[u]:
            n += 1
            k_ = "%s:%s:%s" % (key, base, fn) if with_unit else "%s:%s" % (key, fn)
            if ok:
                rep.ok(rule, k_ + "@%d" % line, sample={"mask": mask, "count": rem})
            else:
                rep.violation(rule, k_, "%s:%d (%s)" % (base, line, fn),
                              "`%s` is the mask of the low (%s) bits of the last word; when the vector length is a multiple of the "
                              "word size the count is 0 and the mask is empty, so the whole last word -- all of it significant -- "
                              "is ignored.  No test of that remainder against 0 precedes or encloses the mask in %s.  (In the "
                              "data-flow iteration this ends the fixpoint early for a function with exactly 128, 192, ... "
                              "variables: live assignments are removed and the optimised program differs from the unoptimised one)"
                              % (mask, rem, fn))
    rep.floor("low-bits masks built from a remainder", n, floor)
    return n
