"""Reference definitions of the builtins (C04-B4 oracle), written as the same
kind of tree as the ones extracted from the evaluators.

Integer / boolean / character / pointer / conversion / constant builtins get
their mathematical definition; big-integer builtins name the bigint.c
primitive that must be called (its exactness is C11's business, not claimed);
float builtins get the obvious IEEE operator where one exists and are
otherwise compared evaluator-to-evaluator only.
"""
import re

SPEC = {
    # Bool (operands are 0/1)
    "BoolFalse": "0", "BoolTrue": "1", "BoolNot": "a0 == 0", "BoolAnd": "a0 & a1", "BoolOr": "a0 | a1",
    "BoolEQ": "a0 == a1", "BoolNE": "a0 != a1",
    # Char
    "CharSpace": "32", "CharNewline": "10", "CharTab": "9",
    "CharIsDigit": "isdigit(a0) != 0", "CharIsLetter": "isalpha(a0) != 0",
    "CharEQ": "a0 == a1", "CharNE": "a0 != a1", "CharLT": "a0 < a1", "CharLE": "a0 <= a1",
    "CharLower": "tolower(a0)", "CharUpper": "toupper(a0)", "CharOrd": "a0", "CharNum": "a0",
    # small integers
    "Byte0": "0", "Byte1": "1", "ByteMin": "0", "HInt0": "0", "HInt1": "1", "SInt0": "0", "SInt1": "1",
    "SIntIsZero": "a0 == 0", "SIntIsNeg": "a0 < 0", "SIntIsPos": "0 < a0",
    "SIntIsEven": "a0 % 2 == 0", "SIntIsOdd": "a0 % 2 != 0",
    "SIntEQ": "a0 == a1", "SIntNE": "a0 != a1", "SIntLT": "a0 < a1", "SIntLE": "a0 <= a1",
    "SIntNegate": "-a0", "SIntPrev": "a0 - 1", "SIntNext": "a0 + 1",
    "SIntPlus": "a0 + a1", "SIntMinus": "a0 - a1", "SIntTimes": "a0 * a1", "SIntTimesPlus": "a0 * a1 + a2",
    "SIntMod": "a0 % a1", "SIntQuo": "a0 / a1", "SIntRem": "a0 % a1",
    "SIntPlusMod": "(a0 + a1) % a2", "SIntMinusMod": "(a0 - a1) % a2", "SIntTimesMod": "(a0 * a1) % a2",
    "SIntShiftUp": "a0 << a1", "SIntShiftDn": "a0 >> a1", "SIntBit": "(a0 & (1 << a1)) != 0",
    "SIntNot": "~a0", "SIntAnd": "a0 & a1", "SIntOr": "a0 | a1", "SIntXOr": "a0 ^ a1",
    "SIntHashCombine": "hashCombinePair((i32)a0, (i32)a1)",
    # pointers
    "PtrNil": "0", "PtrIsNil": "a0 == 0", "PtrEQ": "a0 == a1", "PtrNE": "a0 != a1", "PtrMagicEQ": "a0 == a1",
    # conversions
    "SFloToDFlo": "a0", "DFloToSFlo": "(f32)a0", "ByteToSInt": "a0", "SIntToByte": "(u8)a0", "HIntToSInt": "a0",
    "SIntToHInt": "(i16)a0", "SIntToSFlo": "(f32)a0", "SIntToDFlo": "(f64)a0", "PtrToSInt": "(i64)a0",
    "SIntToPtr": "(ptr)a0",
    # floats: IEEE operators
    "SFlo0": "0.0", "SFlo1": "1.0", "DFlo0": "0.0", "DFlo1": "1.0",
    "SFloIsZero": "a0 == 0.0", "SFloIsNeg": "a0 < 0.0", "SFloIsPos": "0.0 < a0",
    "DFloIsZero": "a0 == 0.0", "DFloIsNeg": "a0 < 0.0", "DFloIsPos": "0.0 < a0",
    "SFloEQ": "a0 == a1", "SFloNE": "a0 != a1", "SFloLT": "a0 < a1", "SFloLE": "a0 <= a1",
    "DFloEQ": "a0 == a1", "DFloNE": "a0 != a1", "DFloLT": "a0 < a1", "DFloLE": "a0 <= a1",
    "SFloNegate": "-a0", "SFloPlus": "a0 + a1", "SFloMinus": "a0 - a1", "SFloTimes": "a0 * a1",
    "SFloTimesPlus": "a0 * a1 + a2", "SFloDivide": "a0 / a1",
    "DFloNegate": "-a0", "DFloPlus": "a0 + a1", "DFloMinus": "a0 - a1", "DFloTimes": "a0 * a1",
    "DFloTimesPlus": "a0 * a1 + a2", "DFloDivide": "a0 / a1",
    # big integers: the primitive to be reached
    "BInt0": "bint0", "BInt1": "bint1",
    "BIntIsZero": "bintIsZero(a0) != 0", "BIntIsNeg": "bintIsNeg(a0) != 0", "BIntIsPos": "bintIsPos(a0) != 0",
    "BIntEQ": "bintEQ(a0, a1) != 0", "BIntNE": "bintEQ(a0, a1) == 0", "BIntLT": "bintLT(a0, a1) != 0",
    "BIntLE": "bintLT(a1, a0) == 0",
    "BIntNegate": "bintNegate(a0)", "BIntPrev": "bintMinus(a0, bint1)", "BIntNext": "bintPlus(a0, bint1)",
    "BIntPlus": "bintPlus(a0, a1)", "BIntMinus": "bintMinus(a0, a1)", "BIntTimes": "bintTimes(a0, a1)",
    "BIntTimesPlus": "bintPlus(bintTimes(a0, a1), a2)", "BIntLength": "bintLength(a0)",
    "BIntShiftUp": "bintShift(a0, (i32)a1)", "BIntShiftDn": "bintShift(a0, (i32)-a1)",
    # literal conversion (C19-L1)
    "ArrToSFlo": "(f32)atof(a0)", "ArrToDFlo": "atof(a0)", "ArrToSInt": "fiArrToSInt(a0)",
    "ArrToBInt": "bintFrString(a0)",
}

_tok = re.compile(r"\s*(\d+\.\d+|\d+|[A-Za-z_]\w*|<<|>>|<=|>=|==|!=|&&|\|\||[-+*/%&|^~!<>(),])")

PREC = [("||",), ("&&",), ("|",), ("^",), ("&",), ("==", "!="), ("<", "<=", ">", ">="), ("<<", ">>"),
        ("+", "-"), ("*", "/", "%")]
CASTS = {"i8", "u8", "i16", "u16", "i32", "u32", "i64", "u64", "f32", "f64", "ptr", "char"}


def parse(text):
    toks = []
    pos = 0
    while pos < len(text):
        m = _tok.match(text, pos)
        if not m:
            if text[pos:].strip() == "":
                break
            raise ValueError("bad spec: %r at %d" % (text, pos))
        toks.append(m.group(1))
        pos = m.end()
    toks.append(None)
    i = [0]

    def peek():
        return toks[i[0]]

    def eat(t=None):
        x = toks[i[0]]
        if t is not None and x != t:
            raise ValueError("expected %s in %r" % (t, text))
        i[0] += 1
        return x

    def binary(level):
        if level == len(PREC):
            return unary()
        a = binary(level + 1)
        while peek() in PREC[level]:
            op = eat()
            b = binary(level + 1)
            a = ("bin", op, a, b)
        return a

    def unary():
        t = peek()
        if t in ("-", "~", "!"):
            eat()
            return ("un", t, unary())
        if t == "(":
            # cast or parenthesised
            if toks[i[0] + 1] in CASTS and toks[i[0] + 2] == ")":
                eat(); c = eat(); eat(")")
                return ("cast", c, unary())
            eat("(")
            e = binary(0)
            eat(")")
            return e
        return primary()

    def primary():
        t = eat()
        if t is None:
            raise ValueError("unexpected end in %r" % text)
        if re.match(r"\d+\.\d+$", t):
            return ("flt", float(t))
        if t.isdigit():
            return ("int", int(t))
        m = re.match(r"a(\d+)$", t)
        if m:
            return ("arg", int(m.group(1)))
        if peek() == "(":
            eat("(")
            args = []
            if peek() != ")":
                args.append(binary(0))
                while peek() == ",":
                    eat()
                    args.append(binary(0))
            eat(")")
            return ("call", t) + tuple(args)
        return ("sym", t)

    e = binary(0)
    if peek() is not None:
        raise ValueError("trailing tokens in %r" % text)
    return e


def reference(short):
    s = SPEC.get(short)
    return parse(s) if s is not None else None
