"""Sibling isomorphism: two functions that implement the same algorithm for two
parameter sets (single / double precision, get / put, ...) must have the same
syntax tree once the systematic renaming between the two families has been
applied.  A single edit in one sibling (changed constant, dropped statement,
swapped operand, different bound) breaks the isomorphism and is reported with
the first position at which the two serialisations differ.

Deliberate differences are listed by the caller (frozen with a reason) as
pairs of serialised sub-terms that are to be treated as equal.
"""
import re

from .common import walk


def renamer(pairs):
    """pairs: ordered list of (neutral, variant) substrings: every occurrence of a variant
    in an identifier or type name is replaced by its neutral form (each position is
    rewritten once; longer variants should come first).  Constant array bounds inside type
    names are dropped (they are the sizes of the two families' types)."""
    neutrals = []
    for n, _ in pairs:
        if n not in neutrals:
            neutrals.append(n)
    mark = {n: chr(0xE000 + i) for i, n in enumerate(neutrals)}

    def f(name):
        if not isinstance(name, str):
            return name
        for n, v in pairs:
            name = name.replace(v, mark[n])
        for n in neutrals:
            name = name.replace(mark[n], "<" + n + ">")
        return re.sub(r"\[\d+\]", "[]", name)
    return f


COMMUTATIVE = {"&&", "||", "==", "!=", "+", "*", "&", "|", "^"}


def _pure(n):
    for y in walk(n):
        if y["k"] in ("CallExpr", "CompoundAssignOperator") or (y["k"] == "BinaryOperator" and y.get("op") == "=") or \
                (y["k"] == "UnaryOperator" and y.get("op") in ("++", "--", "post++", "post--", "pre++", "pre--")):
            return False
    return True


def serialise(n, ren, out, types=True, local_ids=None):
    """Pre-order token list of a statement/expression tree."""
    if n is None:
        out.append(("nil", 0))
        return
    k = n["k"]
    line = n.get("l", 0)
    if k in ("ParenExpr",):
        serialise(n["c"][0], ren, out, types, local_ids)
        return
    if k == "ImplicitCastExpr":
        serialise(n["c"][0], ren, out, types, local_ids)
        return
    tok = [k]
    if "op" in n:
        tok.append(n["op"])
    if k in ("IntegerLiteral", "CharacterLiteral", "FloatingLiteral"):
        m = n.get("imac") or n.get("mac")
        tok.append(ren(m) if m else n.get("v"))
    elif k == "StringLiteral":
        tok.append(ren(n.get("v")))
    elif k == "DeclRefExpr":
        nm = n.get("n")
        if n.get("dk") in ("var", "parm") and not n.get("g") and local_ids is not None:
            # local names are positional: first-use index
            did = n.get("did")
            if did not in local_ids:
                local_ids[did] = len(local_ids)
            tok.append("local%d" % local_ids[did])
        else:
            tok.append(ren(nm))
    elif k == "MemberExpr":
        tok.append(ren(n.get("n")))
    elif k == "CallExpr":
        tok.append(ren(n.get("callee")))
    elif k in ("CStyleCastExpr", "UnaryExprOrTypeTraitExpr") and types:
        tok.append(ren(n.get("t") if k == "CStyleCastExpr" else n.get("argt", n.get("cv"))))
    elif k == "CaseStmt":
        tok.append(ren(n.get("lon")) if n.get("lon") else n.get("lo"))
    mac = n.get("mac")
    out.append((" ".join(str(x) for x in tok), line))
    if k == "BinaryOperator" and n.get("op") in COMMUTATIVE and _pure(n["c"][0]) and _pure(n["c"][1]):
        # operand order of a commutative operator over side-effect-free operands is not a difference
        a, b = [], []
        serialise(n["c"][0], ren, a, types, local_ids)
        serialise(n["c"][1], ren, b, types, local_ids)
        first, second = sorted([a, b], key=lambda t: [x[0] for x in t])
        out.extend(first)
        out.extend(second)
        return
    if k == "CallExpr":
        kids = n["c"][1:]          # the callee reference is in the token already
    else:
        kids = list(n.get("c", []))
    for d in n.get("decls", []):
        out.append(("decl " + str(ren(d.get("t"))) if types else "decl", d.get("l", line)))
        if local_ids is not None:
            did = d.get("did")
            if did not in local_ids:
                local_ids[did] = len(local_ids)
        serialise(d.get("init"), ren, out, types, local_ids)
    for c in kids:
        serialise(c, ren, out, types, local_ids)


def compare(fa, fb, pairs, types=True):
    """Returns None when isomorphic, else (index, token_a, line_a, token_b, line_b)."""
    ida = lambda s: s
    ren = renamer(pairs)
    A, B = [], []
    la, lb = {}, {}
    for i, p in enumerate(fa.get("params", [])):
        la[p["did"]] = i
    for i, p in enumerate(fb.get("params", [])):
        lb[p["did"]] = i
    serialise(fa["body"], ren, A, types, la)
    serialise(fb["body"], ren, B, types, lb)
    for i in range(max(len(A), len(B))):
        ta = A[i] if i < len(A) else ("<end>", 0)
        tb = B[i] if i < len(B) else ("<end>", 0)
        if ta[0] != tb[0]:
            return (i, ta[0], ta[1], tb[0], tb[1], len(A), len(B))
    return None


def kind_of_difference(r):
    """'value' when the two serialisations have the same shape and differ in an operator, constant, callee, member or type at
    the reported token; 'shape' when statements or sub-terms were added, removed or restructured."""
    i, ta, la, tb, lb, na, nb = r
    if na == nb and ta.split(" ")[0] == tb.split(" ")[0]:
        return "value"
    return "shape"
