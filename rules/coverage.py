"""FOAM-tag coverage of a dispatch chain: the union of the case labels of the
switches in the named functions; a group whose body only reports a bug is not
a handler."""
from . import common

BUG_CALLS = ("bug", "bugBadCase", "bugUnimpl", "comsgFatal")


def handled_tags(facts, names, prefix="FOAM_", exclude=("FOAM_BVal_", "FOAM_Proto_", "FOAM_Halt_", "FOAM_DDecl_"),
                 outer_only=True):
    tags = {}
    for n in names:
        fn = facts.func(n)
        inner = set()
        all_sw = common.find(fn["body"], "SwitchStmt")
        for sw in all_sw:
            for x in common.find(sw["c"][-1], "SwitchStmt"):
                inner.add(x["id"])
        for sw in all_sw:
            if outer_only and sw["id"] in inner:
                continue
            for g in common.switch_cases(sw):
                labs = [l[0] for l in g["labels"] if l[0] and l[0] != "default" and l[0].startswith(prefix)
                        and not l[0].startswith(exclude)]
                if not labs:
                    continue
                cs = [c.get("callee") for s in g["stmts"] for c in common.calls(s)]
                if cs and all(c in BUG_CALLS for c in cs):
                    continue
                for l in labs:
                    tags.setdefault(l, (n, g["line"]))
    return tags
