"""C20 (thin): structural clauses of the core containers.

Decides only what is visible in the shape of the code:
V1  bit vectors: each set operation is the word-wise C operator of its name
    over exactly the class's words;
V2  hash table: look-up, store and removal compute the bucket in the same way;
    the entry count changes by exactly one on insert and on removal;
V3  binary heap: the parent/child index macros are mutually inverse and the
    two sift loops use them;
V4  B-tree: no dereference of a searched node after a restructuring call
    (shared with C10 T-btree); search siblings agree;
V5  normal-form algebra: the And/Or duals are the same code.
V9  bit vectors: a low-bits mask of the last word is never built for a zero
    remainder (length a multiple of the word size);
Behaviour over operation sequences is NOT decided.
"""
import os
import re

from . import common, siblings
from .common import AnalysisBroken, strip, walk, calls, render, const_value

EXPLANATION = (
    "Thin structural clauses of table.c, btree.c, priq.c, bitv.c, dnf.c/ablogic.c. V1: bitvNot/And/Or/Minus/Copy consist of one "
    "loop over i in [0, class->nwords) whose body stores, through the incremented result pointer, exactly ~a / a & b / a | b / "
    "a & ~b / a of the incremented operand pointers. V2: tblElt, tblSetElt and tblDrop compute hash, bucket index and bucket head "
    "by identical statements (token-identical after local renaming); tblSetElt increments t->count exactly once and tblDrop "
    "decrements it exactly once. V3: with the macro bodies of priq.c, heapParent(heapLeft(i)) == i and heapParent(heapRight(i)) == i "
    "for i in 0..200 and heapLeft(i) + 1 == heapRight(i); heapSiftOutward uses heapLeft and heapRight, heapSiftInward and heapCheck "
    "use heapParent. V4: the stale-node rule of C10 on btree.c. V5: dnfAnd/dnfOr style duals listed in the rule are isomorphic "
    "under the And/Or (and True/False) renaming. Not decided: that any container behaves as its model over operation sequences.")

BITV_OPS = {
    "bitvNot": ("un", "~", "a"),
    "bitvAnd": ("bin", "&", "a", "b"),
    "bitvOr": ("bin", "|", "a", "b"),
    "bitvMinus": ("bin", "&", "a", ("un", "~", "b")),
    "bitvCopy": "a",
}


def _ptr_read(n, params):
    """*p++ where p is parameter k -> name of the parameter"""
    s = strip(n)
    if s is not None and s["k"] == "UnaryOperator" and s["op"] == "*":
        inner = strip(s["c"][0])
        if inner is not None and inner["k"] == "UnaryOperator" and inner["op"] in ("post++", "++"):
            v = strip(inner["c"][0])
            if v is not None and v["k"] == "DeclRefExpr" and v["n"] in params:
                return v["n"]
    return None


def _bitv_tree(n, params):
    r = _ptr_read(n, params)
    if r:
        return r
    s = strip(n)
    if s is None:
        return None
    if s["k"] == "UnaryOperator" and s["op"] == "~":
        return ("un", "~", _bitv_tree(s["c"][0], params))
    if s["k"] == "BinaryOperator" and s["op"] in ("&", "|", "^"):
        return ("bin", s["op"], _bitv_tree(s["c"][0], params), _bitv_tree(s["c"][1], params))
    return ("?", render(s))


def v1(rep):
    f = common.extract("bitv.c", all_trees=True)
    for name, want in sorted(BITV_OPS.items()):
        fn = f.func(name)
        params = [p["n"] for p in fn["params"]]
        where = "bitv.c:%d (%s)" % (fn["l"], name)
        loops = [x for x in walk(fn["body"]) if x["k"] in ("ForStmt", "WhileStmt")]
        if len(loops) != 1 or loops[0]["k"] != "ForStmt":
            raise AnalysisBroken("%s: expected a single for loop over the words" % name)
        lp = loops[0]
        cond = strip(lp["c"][1])
        init = strip(lp["c"][0])
        bound_ok = (cond is not None and cond["k"] == "BinaryOperator" and cond["op"] == "<" and strip(cond["c"][1]) is not None and strip(cond["c"][1])["k"] == "MemberExpr" and strip(cond["c"][1]).get("n") == "nwords"
                    and init is not None and init["k"] == "BinaryOperator" and const_value(init["c"][1]) == 0)
        stores = [x for x in walk(lp["c"][3]) if x["k"] == "BinaryOperator" and x["op"] == "="]
        got = None
        if len(stores) == 1 and _ptr_read(stores[0]["c"][0], params) == params[1]:
            got = _bitv_tree(stores[0]["c"][1], params)
        # operand names by position: r = params[1], a = params[2], b = params[3]
        names = {"a": params[2] if len(params) > 2 else None, "b": params[3] if len(params) > 3 else None}

        def subst(t):
            if isinstance(t, str):
                return names.get(t, t)
            return tuple(subst(x) if i >= 2 or not isinstance(x, str) else x for i, x in enumerate(t)) if t[0] in ("un", "bin") else t
        want_t = subst(want) if not isinstance(want, str) else names[want]
        if not bound_ok:
            rep.violation("V1", "%s:all-words" % name, where, "the loop does not run over i in [0, class->nwords): `%s`" % render(cond))
        else:
            rep.ok("V1", "%s:all-words" % name, nontrivial=False)
        if got == want_t or (isinstance(want_t, tuple) and want_t[0] == "bin" and want_t[1] in ("&", "|") and isinstance(got, tuple)
                             and got[:2] == want_t[:2] and set(map(str, got[2:])) == set(map(str, want_t[2:]))):
            rep.ok("V1", "%s:word-operation" % name, sample={"function": name, "per_word": str(got)})
        else:
            rep.violation("V1", "%s:word-operation" % name, where,
                          "%s stores %s per word; the set operation of that name is %s" % (name, got, want_t))


def v2(rep):
    f = common.extract("table.c", all_trees=True)
    fns = [f.func(n) for n in ("tblElt", "tblSetElt", "tblDrop")]

    def prologue(fn):
        """token lists of the statements up to and including the assignment of the bucket head `b = t->buckv[x]`"""
        toks = []
        ids = {}          # locals and parameters are numbered by first use
        for st in fn["body"]["c"]:
            if st is None or st["k"] == "DeclStmt":
                continue
            t = []
            siblings.serialise(st, lambda x: x, t, True, ids)
            toks.append([x[0] for x in t])
            if st["k"] == "BinaryOperator" and st["op"] == "=" and "buckv" in render(st["c"][1]):
                break
        return toks
    ps = [prologue(fn) for fn in fns]
    if any(len(p) < 3 for p in ps):
        raise AnalysisBroken("table.c: the prologue `h = ...; x = h % t->buckc; b = t->buckv[x];` was not recognised")
    if ps[0][-3:] == ps[1][-3:] == ps[2][-3:]:
        rep.ok("V2", "bucket-computation-agrees", sample={"statements": 3, "functions": ["tblElt", "tblSetElt", "tblDrop"]})
    else:
        rep.violation("V2", "bucket-computation-agrees", "table.c (tblElt / tblSetElt / tblDrop)",
                      "look-up, store and removal no longer compute hash, bucket index and bucket head by the same statements: a key stored "
                      "by one is not found by the other")
    for name, op in (("tblSetElt", ("post++", "++", "pre++")), ("tblDrop", ("post--", "--", "pre--"))):
        fn = f.func(name)
        n = sum(1 for x in walk(fn["body"]) if x["k"] == "UnaryOperator" and x["op"] in op and "count" in render(x["c"][0]))
        other = sum(1 for x in walk(fn["body"]) if x["k"] in ("UnaryOperator", "CompoundAssignOperator", "BinaryOperator")
                    and x.get("op") in ("post++", "++", "pre++", "post--", "--", "pre--", "+=", "-=", "=")
                    and strip(x["c"][0]) is not None and strip(x["c"][0])["k"] == "MemberExpr" and strip(x["c"][0]).get("n") == "count") - n
        if n == 1 and other == 0:
            rep.ok("V2", "%s:count-by-one" % name)
        else:
            rep.violation("V2", "%s:count-by-one" % name, "table.c:%d (%s)" % (fn["l"], name),
                          "t->count must change exactly once by one in %s (found %d such updates and %d other writes)" % (name, n, other))


def v3(rep):
    src = open(os.path.join(common.SRC, "priq.c"), errors="replace").read()
    mac = {}
    for m in re.finditer(r"#\s*define\s+(heapParent|heapLeft|heapRight)\(i\)\s+(.*)", src):
        body = m.group(2).strip()
        if not re.fullmatch(r"[\s\d()i*/+\-]+", body):
            raise AnalysisBroken("priq.c: body of %s is not plain integer arithmetic: %s" % (m.group(1), body))
        mac[m.group(1)] = body
    if set(mac) != {"heapParent", "heapLeft", "heapRight"}:
        raise AnalysisBroken("priq.c: heapParent/heapLeft/heapRight macros not found")

    def ev(name, i):
        v = eval(mac[name].replace("/", "//"), {"__builtins__": {}}, {"i": i})
        return int(v)
    bad = [i for i in range(0, 201) if ev("heapParent", ev("heapLeft", i)) != i or ev("heapParent", ev("heapRight", i)) != i
           or ev("heapLeft", i) + 1 != ev("heapRight", i) or ev("heapLeft", i) <= i]
    if not bad:
        rep.ok("V3", "heap-index-macros-inverse", sample=mac)
    else:
        rep.violation("V3", "heap-index-macros-inverse", "priq.c (heapParent/heapLeft/heapRight)",
                      "parent(left(i)) == i, parent(right(i)) == i and right(i) == left(i)+1 fail for i = %s with %s" % (bad[:5], mac))
    f = common.extract("priq.c", all_trees=True)
    uses = {"heapSiftOutward": {"heapLeft", "heapRight"}, "heapSiftInward": {"heapParent"}, "heapCheck": {"heapParent"}}
    for name, want in sorted(uses.items()):
        fn = f.func(name)
        got = {x.get("mac") for x in walk(fn["body"])} | {x.get("imac") for x in walk(fn["body"])}
        if want <= got:
            rep.ok("V3", "%s:uses-index-macros" % name, nontrivial=False)
        else:
            rep.violation("V3", "%s:uses-index-macros" % name, "priq.c:%d (%s)" % (fn["l"], name),
                          "%s no longer navigates with %s" % (name, sorted(want - got)))


def v4(rep):
    from . import c10_store_tables
    c10_store_tables.check_btree_handles(_Fwd(rep, "V4"), "compiler")


class _Fwd:
    def __init__(self, rep, rule):
        self.rep, self.rule = rep, rule

    def ok(self, rule, key, nontrivial=True, sample=None):
        self.rep.ok(self.rule, key, nontrivial=nontrivial, sample=sample)

    def violation(self, rule, key, where, msg, detail=None):
        self.rep.violation(self.rule, key, where, msg, detail=detail)

    def floor(self, what, n, least):
        self.rep.floor(what, n, least)

    def note(self, msg):
        self.rep.note(msg)


DUALS = [("ablogic.c", "ablogAnd", "ablogOr"), ("absyn.c", "abNewAndAll", "abNewOrAll")]


def v5(rep):
    pairs = [("@", "And"), ("@", "Or"), ("@", "and"), ("@", "or"), ("@", "AND"), ("@", "OR"), ("@", "True"), ("@", "False")]
    for unit, a, b in DUALS:
        f = common.extract(unit, trees=[a, b])
        r = siblings.compare(f.func(a), f.func(b), pairs)
        key = "duals:%s:%s~%s" % (unit, a, b)
        # the operators & and | themselves are the intended difference in bitv.c
        if r is not None and unit == "bitv.c" and {r[1], r[3]} == {"BinaryOperator &", "BinaryOperator |"}:
            r = None
        if r is None:
            rep.ok("V5", key)
        elif siblings.kind_of_difference(r) == "shape":
            raise AnalysisBroken("the duals %s and %s no longer have the same shape; re-confirm by hand" % (a, b))
        else:
            rep.violation("V5", key, "%s:%d (%s) / %s:%d (%s)" % (unit, r[2], a, unit, r[4], b),
                          "%s and %s are dual implementations and differ at token %d: `%s` against `%s`" % (a, b, r[0], r[1], r[3]))


def _lin(n, var):
    from .c10_store_tables import _linear
    return _linear(n, var)


def _linform(e):
    """linear form {symbol: coefficient, 1: constant} of an index expression, or None"""
    e = strip(e)
    if e is None:
        return None
    cv = const_value(e)
    if cv is not None:
        return {1: cv}
    if e["k"] == "DeclRefExpr":
        return {e["n"]: 1}
    if e["k"] == "MemberExpr":
        return {render(e): 1}
    if e["k"] == "BinaryOperator" and e["op"] in ("+", "-"):
        a, b = _linform(e["c"][0]), _linform(e["c"][1])
        if a is None or b is None:
            return None
        out = dict(a)
        for k, v in b.items():
            out[k] = out.get(k, 0) + (v if e["op"] == "+" else -v)
        return {k: v for k, v in out.items() if v != 0 or k == 1}
    if e["k"] == "BinaryOperator" and e["op"] == "*":
        a, b = _linform(e["c"][0]), _linform(e["c"][1])
        if a is not None and b is not None and set(a) <= {1}:
            return {k: v * a.get(1, 0) for k, v in b.items()}
        if a is not None and b is not None and set(b) <= {1}:
            return {k: v * b.get(1, 0) for k, v in a.items()}
    return None


def _part_ref(e):
    """(node var, index expr, field) for node->part[index].field"""
    e = strip(e)
    if e is None or e["k"] != "MemberExpr" or e["n"] not in ("key", "entry", "branch"):
        return None
    a = strip(e["c"][0])
    if a is None or a["k"] != "ArraySubscriptExpr":
        return None
    arr, idx = strip(a["c"][0]), a["c"][1]
    if arr is None or arr["k"] != "MemberExpr" or arr["n"] != "part":
        return None
    nd = strip(arr["c"][0])
    if nd is None or nd["k"] != "DeclRefExpr":
        return None
    return nd["n"], idx, e["n"]


def v11(rep, rule="V11"):
    """A node with n keys has n+1 branches.  Whenever a run of keys is copied or slid by a loop -- into the new node of a split,
    into the left node of a merge, up or down inside a node to make or close a gap -- the branches of the same run are moved by a
    loop of their own, and the run of branches reaches one place further than the run of keys (the branch to the right of the
    last key).  A branch loop that stops where the key loop stops leaves the last subtree behind: it becomes unreachable and its
    neighbour appears twice (in the store's free-piece index: pieces that can no longer be found, then a fault in stoAlloc).
    For every function of btree.c and every (destination node, source node) with both a key loop and a branch loop, the highest
    source index of the branch loop is the highest source index of the key loop plus one."""
    f = common.extract("btree.c", all_trees=True)
    n = 0
    for name, fn in sorted(f.funcs.items()):
        if "body" not in fn or not fn.get("file", "").endswith("btree.c"):
            continue
        runs = {}
        par = common.parents(fn["body"])
        for lp in walk(fn["body"]):
            if lp["k"] not in ("ForStmt", "WhileStmt"):
                continue
            if lp["k"] == "ForStmt":
                # ForStmt children: init, (condvar), cond, inc, body
                kids_ = lp["c"]
                init, cond, inc, body = strip(kids_[0]), strip(kids_[-3]), strip(kids_[-2]), kids_[-1]
            else:
                # `j = a; while (j < b) { ...; j++; }`: the same loop, header spread out
                cond, body = strip(lp["c"][0]), lp["c"][-1]
                init = inc = None
                jn = (strip(cond["c"][0]) or {}).get("n") if cond is not None and cond["k"] == "BinaryOperator" and cond.get("c") else None
                if jn is not None:
                    steps = [y for y in walk(body) if y["k"] == "UnaryOperator" and y["op"] in ("++", "post++", "--", "post--") and
                             (strip(y["c"][0]) or {}).get("n") == jn]
                    if len(steps) == 1:
                        inc = steps[0]
                    p_ = par.get(lp["id"])
                    if p_ is not None and p_["k"] == "CompoundStmt":
                        sts_ = [x for x in p_["c"] if x is not None]
                        k_ = next(i for i, x in enumerate(sts_) if x is lp)
                        if k_ > 0:
                            prev = strip(sts_[k_ - 1])
                            if prev is not None and prev["k"] == "BinaryOperator" and prev["op"] == "=" and (strip(prev["c"][0]) or {}).get("n") == jn:
                                init = prev
            copies = []
            for x in walk(body):
                if x["k"] == "BinaryOperator" and x["op"] == "=":
                    d, s_ = _part_ref(x["c"][0]), _part_ref(x["c"][1])
                    if d is not None and s_ is not None and d[2] == s_[2]:
                        copies.append((d, s_, x))
            if not copies:
                continue
            if init is None or init["k"] != "BinaryOperator" or init["op"] != "=" or (strip(init["c"][0]) or {}).get("k") != "DeclRefExpr" or \
                    cond is None or cond["k"] != "BinaryOperator" or inc is None or inc["k"] != "UnaryOperator":
                raise AnalysisBroken("%s:%d: a loop that copies node parts but is not `for (j = a; j <op> b; j++/--)`" % (name, lp["l"]))
            jv = strip(init["c"][0])["n"]
            a = _linform(init["c"][1])
            # the index test is the conjunct that compares the loop variable
            tests = []

            def conj(e):
                e = strip(e)
                if e is not None and e["k"] == "BinaryOperator" and e["op"] == "&&":
                    conj(e["c"][0]); conj(e["c"][1])
                elif e is not None:
                    tests.append(e)
            conj(cond)
            # `b > j` is `j < b`: bring the index to the left
            flip = {"<": ">", ">": "<", "<=": ">=", ">=": "<="}
            norm_tests = []
            for t in tests:
                if t["k"] == "BinaryOperator" and t["op"] in flip and (strip(t["c"][1]) or {}).get("n") == jv and \
                        (strip(t["c"][0]) or {}).get("n") != jv:
                    t = dict(t, op=flip[t["op"]], c=[t["c"][1], t["c"][0]])
                norm_tests.append(t)
            tests = norm_tests
            t0 = [t for t in tests if t["k"] == "BinaryOperator" and (strip(t["c"][0]) or {}).get("n") == jv and t["op"] in ("<", "<=", ">", ">=")]
            if len(t0) != 1 or a is None:
                raise AnalysisBroken("%s:%d: the bound of the copying loop is not a comparison of its index" % (name, lp["l"]))
            b = _linform(t0[0]["c"][1])
            up = inc["op"] in ("++", "post++")
            if b is None or (up and t0[0]["op"] not in ("<", "<=")) or (not up and t0[0]["op"] not in (">", ">=")):
                raise AnalysisBroken("%s:%d: loop direction and bound do not fit" % (name, lp["l"]))
            if len(tests) > 1:
                continue            # a search-and-shift loop (stops at the insertion point): keys only, bounded by data
            if up:
                hi = dict(b)
                if t0[0]["op"] == "<":
                    hi[1] = hi.get(1, 0) - 1
            else:
                hi = dict(a)
            for d, s_, x in copies:
                si = _linform(s_[1])
                if si is None or si.get(jv) != 1:
                    raise AnalysisBroken("%s:%d: source index %s is not the loop index plus an offset" % (name, x["l"], render(s_[1])))
                top = dict(hi)
                for k, v in si.items():
                    if k != jv:
                        top[k] = top.get(k, 0) + v
                top = {k: v for k, v in top.items() if v != 0}
                runs.setdefault((d[0], s_[0]), {}).setdefault(d[2], []).append((top, x))
        for (dn, sn), flds in sorted(runs.items()):
            if "key" not in flds or "branch" not in flds:
                continue
            if len(flds["key"]) != 1 or len(flds["branch"]) != 1:
                raise AnalysisBroken("%s: several key or branch loops for %s <- %s" % (name, dn, sn))
            (kt, kx), (bt, bx) = flds["key"][0], flds["branch"][0]
            diff = dict(bt)
            for k, v in kt.items():
                diff[k] = diff.get(k, 0) - v
            diff = {k: v for k, v in diff.items() if v != 0}
            n += 1
            key = "branch-run-one-longer:%s:%s<-%s" % (name, dn, sn)
            if diff == {1: 1}:
                rep.ok(rule, key)
            elif set(diff) <= {1}:
                rep.violation(rule, key, "btree.c:%d (%s)" % (bx["l"], name),
                              "the loop that moves the branches of node `%s` stops at source index (last key)%+d; a run of keys is "
                              "followed by one more branch than keys, so the branch to the right of the last key moved is left "
                              "behind: that subtree becomes unreachable and its neighbour is linked twice (in the store's index of "
                              "free pieces: pieces that cannot be found again, then a fault inside stoAlloc)" % (sn, diff.get(1, 0)))
            else:
                raise AnalysisBroken("%s: the ends of the key run and the branch run of %s <- %s differ by %s" % (name, dn, sn, diff))
    rep.floor("key/branch runs moved together in btree.c", n, 6)


def v13(rep):
    """Keys are ordered by comparing them.  A three-way comparison written as the sign of a difference is only an ordering when
    the difference is exact in the type it is looked at in: `(int)(k1 - k2)` on floating keys truncates every difference below
    1 to `equal` (and wraps beyond 2^31), so a heap sifts the wrong way and hands out a key that is not the minimum; on 64-bit
    keys the narrowed difference changes sign.  In the container units no subtraction of floating (or 64-bit integer) operands
    is converted to a 32-bit integer."""
    n = 0
    nfun = 0
    for unit in V10_UNITS:
        f = common.extract(unit, all_trees=True)
        for name, fn in sorted(f.funcs.items()):
            if "body" not in fn or not fn.get("file", "").endswith(unit):
                continue
            nfun += 1
            for x in walk(fn["body"]):
                if x["k"] not in ("CStyleCastExpr", "ImplicitCastExpr") or x.get("tc") not in ("i32", "u32", "i16", "u16", "i8", "u8"):
                    continue
                inner = x["c"][0]
                while inner is not None and inner["k"] == "ParenExpr":
                    inner = inner["c"][0]
                if inner is None or inner["k"] != "BinaryOperator" or inner["op"] != "-":
                    continue
                tc = inner.get("tc") or ""
                if tc.startswith("f") or tc in ("i64", "u64"):
                    # a pointer difference or an index difference narrowed for printing is not an ordering decision
                    ops = [strip(inner["c"][0]), strip(inner["c"][1])]
                    if tc in ("i64", "u64") and not all(o is not None and o["k"] in ("MemberExpr", "ArraySubscriptExpr", "DeclRefExpr") and
                                                         any(y["k"] == "MemberExpr" and y["n"] in ("key", "hash") for y in walk(o)) for o in ops):
                        continue
                    n += 1
                    rep.violation("V13", "order-by-comparison:%s:%s" % (unit, name), "%s:%d (%s)" % (unit, x["l"], name),
                                  "the difference `%s` (%s) is converted to a %s-bit integer: as a three-way comparison of keys it "
                                  "calls any two keys closer than 1 equal and wraps beyond 2^31, so the order the container keeps is "
                                  "not the order of the keys (a priority queue returns 0.5 before 0.25)"
                                  % (render(inner)[:50], "floating" if tc.startswith("f") else "64-bit", x.get("tc")[1:]))
    rep.floor("functions of the container units scanned for narrowed differences", nfun, 120)
    if n == 0:
        rep.ok("V13", "order-by-comparison:none", sample={"functions": nfun})


def v14(rep):
    """What is handed back to the store is the pointer the store handed out.  The word loops of these modules walk their
    operands with `*p++`; a function that then frees `p` frees an address inside (or just past) the block -- the store answers
    `attempt to free unknown space` and the process ends (bitvResize grew a vector by copying with `*b++` and then freed `b`).
    In the container units no pointer parameter or local that is stepped (`++`, `--`, `+=`, `-=`) anywhere in a function is
    an argument of a freeing call (stoFree, *Free) in that function."""
    n = 0
    nfree = 0
    for unit in V10_UNITS + ("list.c",):
        f = common.extract(unit, all_trees=True)
        for name, fn in sorted(f.funcs.items()):
            if "body" not in fn or not fn.get("file", "").endswith(unit):
                continue
            stepped = {}
            for x in walk(fn["body"]):
                if x["k"] == "UnaryOperator" and x["op"] in ("++", "--", "post++", "post--"):
                    v = strip(x["c"][0])
                    if v is not None and v["k"] == "DeclRefExpr" and v.get("tc") == "ptr":
                        stepped.setdefault(v["n"], x["l"])
                elif x["k"] in ("CompoundAssignOperator", "BinaryOperator") and x.get("op") in ("+=", "-="):
                    v = strip(x["c"][0])
                    if v is not None and v["k"] == "DeclRefExpr" and v.get("tc") == "ptr":
                        stepped.setdefault(v["n"], x["l"])
            for c in calls(fn["body"]):
                cal = c.get("callee") or ""
                if not (cal == "stoFree" or cal.endswith("Free") or cal == "free"):
                    continue
                nfree += 1
                for a in c["c"][1:]:
                    a_ = strip(a)
                    if a_ is not None and a_["k"] == "DeclRefExpr" and a_["n"] in stepped:
                        n += 1
                        rep.violation("V14", "free-what-was-allocated:%s:%s" % (unit, name), "%s:%d (%s)" % (unit, c["l"], name),
                                      "`%s` is stepped at line %d and then handed to %s: the address freed lies inside or past the "
                                      "block that was allocated, the store reports `attempt to free unknown space` and the "
                                      "process ends (growing a bit vector from 64 to 200 bits)" % (a_["n"], stepped[a_["n"]], cal))
    rep.floor("freeing calls in the container units", nfree, 10)
    if n == 0:
        rep.ok("V14", "free-what-was-allocated", sample={"freeing calls": nfree})


V15_SORTED_WRITERS = {
    "dnfAndNew": "fills with zeros",
    "dnfAndCopy": "copies a conjunction in order",
    "dnfAndMerge": "the sorted merge of two conjunctions",
    "dnfAndCancelNegation": "copies a sub-sequence in order",
}


def v15(rep):
    """The literals of a conjunction are kept sorted by atom number: dnfAndMerge produces them that way and every test on
    conjunctions (dnfAndImplies, dnfAtomLT merges, cancellation) walks two conjunctions in step relying on it; the order of the
    *disjuncts* is the order of construction and means nothing.  A conjunction filled any other way -- the De Morgan image of a
    disjunction of literals written down in disjunct order -- is a well-formed object that the tests misread: `not (x3 or x1)`
    no longer implies `not x1`, and `not (x3 or x1) and x1` is not recognised as false.  In dnf.c an atom is stored into a
    conjunction only by the four order-preserving routines, or at index 0 of a one-literal conjunction."""
    f = common.extract("dnf.c", all_trees=True)
    n = 0
    for name, fn in sorted(f.funcs.items()):
        if "body" not in fn or not fn.get("file", "").endswith("dnf.c"):
            continue
        for x in walk(fn["body"]):
            if x["k"] != "BinaryOperator" or x["op"] != "=":
                continue
            l = strip(x["c"][0])
            if l is None or l["k"] != "ArraySubscriptExpr" or (l.get("t") or "") != "DNF_Atom":
                continue
            b = strip(l["c"][0])
            if b is None or b["k"] != "MemberExpr" or b["n"] != "argv":
                continue
            n += 1
            key = "conjunction-filled-in-order:%s@%d" % (name, x["l"])
            if name in V15_SORTED_WRITERS:
                rep.ok("V15", key, sample={"why": V15_SORTED_WRITERS[name]})
            elif const_value(l["c"][1]) == 0:
                rep.ok("V15", key, sample={"why": "the only literal of a one-literal conjunction"})
            else:
                rep.violation("V15", "conjunction-filled-in-order:%s" % name, "dnf.c:%d (%s)" % (x["l"], name),
                              "%s stores literals into a conjunction at a running index, outside the routines that keep a "
                              "conjunction sorted by atom number: the result is in whatever order the source was (for a negated "
                              "disjunction: the order the disjuncts were built in), and dnfImplies / dnfEqual / the contradiction "
                              "test of dnfAnd, which walk sorted conjunctions in step, give wrong answers for it" % name)
    rep.floor("stores of a literal into a conjunction", n, 8)


def v17(rep):
    """A slot's place in a table is its hash modulo the table's bucket count.  Code that walks one table's buckets by index and
    stores into another table's bucket array at the same index (tblCopy) is right only if the second array has the same number
    of buckets: with fewer, the stores for the upper buckets land beyond the array, and the chains that do fit hang from
    buckets where no lookup will search for them (a copy of a table that has grown past 35 entries loses most of its keys,
    iterates over part of them and still reports the original's size).  In table.c, inside a loop bounded by `i < E`, every use
    of `T->buckv[i]` / `T->buckv + i` has E equal to T's own bucket count: E is `T->buckc`, or T was made in this function by
    tblNew0(.., E) with the same expression."""
    f = common.extract("table.c", all_trees=True)
    n = two = 0
    for name, fn in sorted(f.funcs.items()):
        if "body" not in fn or not fn.get("file", "").endswith("table.c"):
            continue
        made = {}
        for x in walk(fn["body"]):
            if x["k"] == "BinaryOperator" and x["op"] == "=":
                l, r = strip(x["c"][0]), strip(x["c"][1])
                if l is not None and l["k"] == "DeclRefExpr" and r is not None and r["k"] == "CallExpr" \
                        and (r.get("callee") or "").startswith("tblNew"):
                    args = r["c"][1:]
                    made[l["n"]] = render(strip(args[2])) if r["callee"] == "tblNew0" and len(args) >= 3 else "<default:%s>" % r["callee"]
                elif l is not None and l["k"] == "MemberExpr" and l["n"] == "buckc" and r is not None:
                    made.setdefault(render(strip(l["c"][0])), render(r))     # the count is set here: t->buckc = E
        for lp in walk(fn["body"]):
            if lp["k"] != "ForStmt":
                continue
            cond = strip(lp["c"][-3])
            if cond is None or cond["k"] != "BinaryOperator" or cond["op"] != "<":
                continue
            iv, bound = strip(cond["c"][0]), render(strip(cond["c"][1]))
            if iv is None or iv["k"] != "DeclRefExpr":
                continue
            for y in walk(lp["c"][-1]):
                base = None
                if y["k"] == "ArraySubscriptExpr":
                    b_, ix = strip(y["c"][0]), strip(y["c"][1])
                elif y["k"] == "BinaryOperator" and y["op"] == "+":
                    b_, ix = strip(y["c"][0]), strip(y["c"][1])
                else:
                    continue
                if b_ is None or b_["k"] != "MemberExpr" or b_["n"] != "buckv" or ix is None or render(ix) != iv["n"]:
                    continue
                t = render(strip(b_["c"][0]))
                n += 1
                own = "%s->buckc" % t
                two += bound != own
                key = "bucket-index-within-own-count:%s:%s" % (name, t)
                if bound == own:
                    rep.ok("V17", key + "@%d" % y["l"], nontrivial=False)
                elif made.get(t) == bound or (bound.endswith("->buckc") and made.get(bound[:-len("->buckc")]) in (own, made.get(t, 0))):
                    # the loop runs to the count of a table that was made with this table's count (or both with the same one)
                    rep.ok("V17", key + "@%d" % y["l"], sample={"loop": bound, "made-with": made.get(t, made.get(bound[:-len("->buckc")], "?"))})
                else:
                    rep.violation("V17", key, "table.c:%d (%s)" % (y["l"], name),
                                  "`%s` is indexed by a loop that runs to `%s`, but %s has %s buckets: stores for the buckets "
                                  "above that land beyond the array, and the chains that fit hang where a lookup (hash modulo the "
                                  "table's own count) does not search -- a copy of a table grown past 35 entries loses most keys, "
                                  "iterates over part of them and reports the original's size"
                                  % (render(y)[:40], bound, t, ("`%s`" % made[t]) if t in made else "an unknown number of"))
    rep.floor("bucket arrays indexed inside a counted loop (table.c)", n, 4)
    rep.floor("bucket arrays indexed by a count that is not read from the same table", two, 2)


def _v18_node_of(b):
    """N for a `N->part[E].branch` MemberExpr b, else None"""
    if b is None or b["k"] != "MemberExpr" or b["n"] != "branch": return None
    a = strip(b["c"][0])
    if a is None or a["k"] != "ArraySubscriptExpr": return None
    p = strip(a["c"][0])
    if p is None or p["k"] != "MemberExpr" or p["n"] != "part": return None
    return render(strip(p["c"][0]))

def _v18_leaf_test(cond, N):
    """'leaf' when cond true implies N is a leaf, 'inner' when cond true implies N is not a leaf, else None (conjunctions looked into)"""
    c = strip(cond)
    if c is None: return None
    if c["k"] == "BinaryOperator" and c["op"] == "&&":
        for s in c["c"]:
            r = _v18_leaf_test(s, N)
            if r: return r
        return None
    neg = False
    while c is not None and c["k"] == "UnaryOperator" and c["op"] == "!":
        neg, c = not neg, strip(c["c"][0])
    if c is not None and c["k"] == "MemberExpr" and c["n"] == "isLeaf" and render(strip(c["c"][0])) == N:
        return "inner" if neg else "leaf"
    return None

def _v18_guarded(use, N, par):
    cur = use
    while cur["id"] in par:
        p_ = par[cur["id"]]
        if p_["k"] == "IfStmt":
            t = _v18_leaf_test(p_["c"][0], N)
            in_then = any(y is cur for y in walk(p_["c"][1]))
            in_else = len(p_["c"]) > 2 and p_["c"][2] is not None and any(y is cur for y in walk(p_["c"][2]))
            if (t == "inner" and in_then) or (t == "leaf" and in_else and "&&" not in render(p_["c"][0])):
                return True
        elif p_["k"] == "WhileStmt":
            if _v18_leaf_test(p_["c"][0], N) == "inner" and any(y is cur for y in walk(p_["c"][1])):
                return True
        elif p_["k"] == "BinaryOperator" and p_["op"] == "&&":
            if _v18_leaf_test(p_["c"][0], N) == "inner" and any(y is cur for y in walk(p_["c"][1])):
                return True
        elif p_["k"] == "CompoundStmt":
            for st in p_["c"]:
                if st is None: continue
                if st is cur or any(y is cur for y in walk(st)): break
                if st["k"] == "IfStmt" and _v18_leaf_test(st["c"][0], N) == "leaf" and "&&" not in render(st["c"][0]) and common.ends_flow(st["c"][1]):
                    return True
        cur = p_
    return False

def v18(rep):
    """Only an inner node of the B-tree has branches; in a leaf the `branch` members are never written.  Every routine that is
    handed an arbitrary node tests `isLeaf` before it follows a branch -- except where one path forgot: btreeDelete0 tested it
    when the key was found in the node and not when it was absent, so deleting a key that is not in the tree followed an
    uninitialised pointer out of a leaf.  Rule, over btree.c: a read of `P->part[..].branch` where P is a parameter is either
    under a test that P is not a leaf (enclosing `if`/`while`/`&&`, an earlier `if (P->isLeaf) return`), or it makes P a
    parameter that *requires an inner node*.  Every call that passes a node for such a parameter passes one known to be inner
    at the call: under such a test, made inner just before (`s->isLeaf = false`), or the caller's own requiring parameter
    (fixpoint).  No externally visible function ends up requiring an inner node."""
    f = common.extract("btree.c", all_trees=True)
    info, need = {}, {}
    reads = 0
    for name, fn in sorted(f.funcs.items()):
        if "body" not in fn or not fn.get("file", "").endswith("btree.c"):
            continue
        par = common.parents(fn["body"])
        params = [p_["n"] for p_ in fn.get("params", [])]
        info[name] = (fn, par, params)
        lhs = set()
        for x in walk(fn["body"]):
            if x["k"] == "BinaryOperator" and x["op"] == "=":
                l = strip(x["c"][0])
                if l is not None:
                    lhs.add(l["id"])
        for x in walk(fn["body"]):
            N = _v18_node_of(x)
            if N is None or x["id"] in lhs or N not in params:
                continue
            reads += 1
            if not _v18_guarded(x, N, par):
                need.setdefault((name, N), x["l"])
    rep.floor("reads of a branch of a parameter node (btree.c)", reads, 20)
    bad = {}
    changed = True
    while changed:
        changed = False
        for caller, (fn, par, params) in info.items():
            for c in calls(fn["body"]):
                callee = c.get("callee")
                if callee not in info:
                    continue
                cparams = info[callee][2]
                for i, a in enumerate(c["c"][1:]):
                    if i >= len(cparams) or (callee, cparams[i]) not in need:
                        continue
                    N = render(strip(a))
                    if _v18_guarded(c, N, par):
                        continue
                    made = any(y["k"] == "BinaryOperator" and y["op"] == "=" and (strip(y["c"][0]) or {}).get("n") == "isLeaf"
                               and render(strip(strip(y["c"][0])["c"][0])) == N and const_value(y["c"][1]) == 0 and y["l"] < c["l"]
                               for y in walk(fn["body"]))
                    if made:
                        continue
                    if N in params:
                        if (caller, N) not in need:
                            need[(caller, N)] = c["l"]
                            changed = True
                        continue
                    bad.setdefault((callee, cparams[i]), (caller, c["l"], N))
    for (fn_, p_), line in sorted(need.items()):
        key = "branch-read-needs-inner-node:%s:%s" % (fn_, p_)
        if (fn_, p_) in bad:
            caller, cl, N = bad[(fn_, p_)]
            rep.violation("V18", key, "btree.c:%d (%s), called at btree.c:%d (%s)" % (line, fn_, cl, caller),
                          "%s follows a branch of its node `%s` without testing that it is not a leaf (line %d), and %s passes it "
                          "`%s`, which is not known to be an inner node there: in a leaf the branch members are uninitialised, "
                          "so the pointer followed is garbage (deleting a key that is not in the tree: the descent reaches a leaf "
                          "that does not hold the key and goes on through `part[i].branch`)" % (fn_, p_, line, caller, N))
        elif not info[fn_][0].get("static", False):
            rep.violation("V18", key, "btree.c:%d (%s)" % (line, fn_),
                          "%s is visible to other files and follows a branch of its argument `%s` without testing that it is not a "
                          "leaf" % (fn_, p_))
        else:
            rep.ok("V18", key, sample={"first-unguarded-read": line})
    rep.floor("node parameters that require an inner node (btree.c)", len(need), 4)


def v19(rep):
    """Iteration visits each entry once -- also when the table is *looked at* on the way.  An operation that neither changes the
    number of entries or the bucket array nor allocates or frees a slot is a query; a query that relinks a chain (move the slot
    found to the front) pulls the slot the iterator stands on, or the ones before it, across the iterator: entries are skipped
    or visited again.  In table.c no query stores into a `next` link or a bucket head."""
    f = common.extract("table.c", all_trees=True)
    n = 0
    for name, fn in sorted(f.funcs.items()):
        if "body" not in fn or not fn.get("file", "").endswith("table.c"):
            continue
        links, mutator = [], False
        for x in walk(fn["body"]):
            l = None
            if x["k"] == "BinaryOperator" and x["op"] == "=":
                l = strip(x["c"][0])
            elif x["k"] == "UnaryOperator" and x.get("op") in ("++", "--", "post++", "post--"):
                l = strip(x["c"][0])
                if l is not None and not (l["k"] == "MemberExpr" and l["n"] == "count"):
                    l = None
            if l is None:
                continue
            if l["k"] == "MemberExpr" and l["n"] in ("count", "buckv", "buckc"):
                mutator = True
            elif (l["k"] == "MemberExpr" and l["n"] == "next") or (l["k"] == "ArraySubscriptExpr" and "buckv" in render(l)):
                links.append((x["l"], render(l)))
        if any(c.get("callee") in ("stoAlloc", "stoFree", "stoResize", "tblEnlarge", "tblNew0", "tblNew") for c in calls(fn["body"])):
            mutator = True
        if mutator:
            continue
        n += 1
        key = "lookup-writes-the-chain:%s" % name
        if not links:
            rep.ok("V19", key, nontrivial=False)
        else:
            rep.violation("V19", key, "table.c:%d (%s)" % (links[0][0], name),
                          "%s changes neither the number of entries nor the bucket array and allocates nothing -- a query -- yet it "
                          "stores into `%s`: the slot found is moved to the front of its chain, so an iteration in progress over "
                          "that chain skips or repeats entries (keys 7,14,21,28 in one bucket, `tblElt(t, 7)` after the first "
                          "step: the iteration ends after 3 visits)" % (name, "`, `".join(sorted({t for _, t in links}))))
    rep.floor("query operations of table.c", n, 6)


def v16(rep, rule="V16"):
    """Making room and using it are two steps in that order: a rotation or an insertion first slides the keys (entries,
    branches) of a node up by one and then writes the new key into the slot that became free.  Written the other way round the
    new key is copied along by the slide and appears twice while the key that was in the slot is lost (in the store's index of
    free pieces: one size vanishes, a later audit finds the keys out of order, a later request faults).  In btree.c no store
    into `N->part[..].F` precedes, in the same block, a loop that slides `N->part[..].F` within the same node N."""
    f = common.extract("btree.c", all_trees=True)
    n = 0
    for name, fn in sorted(f.funcs.items()):
        if "body" not in fn or not fn.get("file", "").endswith("btree.c"):
            continue
        for blk in walk(fn["body"]):
            if blk["k"] != "CompoundStmt":
                continue
            sts = [x for x in blk["c"] if x is not None]
            for li, lp in enumerate(sts):
                loops = [y for y in walk(lp) if y["k"] in ("ForStmt", "WhileStmt")] if lp["k"] in ("ForStmt", "WhileStmt", "IfStmt") else []
                for L in loops:
                    slid = set()
                    for x in walk(L):
                        if x["k"] == "BinaryOperator" and x["op"] == "=":
                            d, s_ = _part_ref(x["c"][0]), _part_ref(x["c"][1])
                            if d is not None and s_ is not None and d[0] == s_[0] and d[2] == s_[2]:
                                slid.add((d[0], d[2]))
                    if not slid:
                        continue
                    n += 1
                    early = None
                    for st in sts[:li]:
                        if st["k"] in ("ForStmt", "WhileStmt"):
                            continue
                        for x in walk(st):
                            if x["k"] == "BinaryOperator" and x["op"] == "=":
                                d = _part_ref(x["c"][0])
                                if d is not None and (d[0], d[2]) in slid and not any(y["k"] in ("ForStmt", "WhileStmt") and any(z is x for z in walk(y)) for y in walk(st)):
                                    early = (x, d)
                    key = "room-made-before-it-is-used:%s@%d" % (name, L["l"])
                    if early is None:
                        rep.ok(rule, key)
                    else:
                        x, d = early
                        rep.violation(rule, "room-made-before-it-is-used:%s" % name, "btree.c:%d (%s)" % (x["l"], name),
                                      "`%s` is stored before the loop at line %d slides the %s slots of node `%s`: the new value is "
                                      "moved along by the slide and appears twice, the value that was in the slot is lost (a key of "
                                      "the store's free-piece index vanishes and the separator is duplicated)"
                                      % (render(x)[:50], L["l"], d[2], d[0]))
    rep.floor("slide loops of btree.c", n, 6)


def v6(rep):
    """B-tree node layout: a node with n keys has n+1 branches, key j sits between branch j and branch j+1.  When a rotation moves
    the *last* key of a node (index n-1) out of it, the branch that goes with it is the last branch (index n); when it moves the
    first key (index 0) the branch is branch 0.  On the receiving side a key appended at index m comes with branch m+1, a key put
    at the front (index 0) with branch 0."""
    f = common.extract("btree.c", trees=["btreeRotateUp", "btreeRotateDown"])
    for name in ("btreeRotateUp", "btreeRotateDown"):
        fn = f.func(name)
        counts = {}       # node variable -> its nKeys variable
        for x in walk(fn["body"]):
            if x["k"] == "BinaryOperator" and x["op"] == "=":
                l, r = strip(x["c"][0]), strip(x["c"][1])
                if l is not None and r is not None and l["k"] == "DeclRefExpr" and r["k"] == "MemberExpr" and r["n"] == "nKeys":
                    b = strip(r["c"][0])
                    if b is not None and b["k"] == "DeclRefExpr":
                        counts[b["n"]] = l["n"]

        def part(e):
            """(node var, index expr, field) for node->part[index].field"""
            e = strip(e)
            if e is None or e["k"] != "MemberExpr" or e["n"] not in ("key", "entry", "branch"):
                return None
            a = strip(e["c"][0])
            if a is None or a["k"] != "ArraySubscriptExpr":
                return None
            arr, idx = strip(a["c"][0]), a["c"][1]
            if arr is None or arr["k"] != "MemberExpr" or arr["n"] != "part":
                return None
            nd = strip(arr["c"][0])
            if nd is None or nd["k"] != "DeclRefExpr":
                return None
            return nd["n"], idx, e["n"]
        moves = []
        par = common.parents(fn["body"])
        for x in walk(fn["body"]):
            if x["k"] != "BinaryOperator" or x["op"] != "=":
                continue
            d, s_ = part(x["c"][0]), part(x["c"][1])
            if d is None or s_ is None or d[0] == s_[0]:
                continue            # a slide within one node
            in_loop = False
            cur = x
            while cur["id"] in par:
                cur = par[cur["id"]]
                if cur["k"] in ("ForStmt", "WhileStmt"):
                    in_loop = True
            if not in_loop:
                moves.append((d, s_, x))
        keys_out = [(d, s_, x) for d, s_, x in moves if s_[2] == "key" and s_[0] in counts and d[0] not in counts]
        keys_in = [(d, s_, x) for d, s_, x in moves if d[2] == "key" and d[0] in counts and s_[0] not in counts]
        br = [(d, s_, x) for d, s_, x in moves if d[2] == "branch" and s_[2] == "branch"]
        if len(keys_out) != 1 or len(keys_in) != 1 or len(br) != 1:
            raise AnalysisBroken("%s: expected one key moved up, one key moved down and one branch moved across (found %d, %d, %d)"
                                 % (name, len(keys_out), len(keys_in), len(br)))
        (_, ksrc, kx), (kdst, _, _), (bdst, bsrc, bx) = keys_out[0], keys_in[0], br[0]
        where = "btree.c:%d (%s)" % (bx["l"], name)
        if bsrc[0] != ksrc[0] or bdst[0] != kdst[0]:
            rep.violation("V6", "btree-rotate:%s:branch-follows-key" % name, where,
                          "the key leaves node '%s' for '%s' (through the parent) but the branch is moved from '%s' to '%s'"
                          % (ksrc[0], kdst[0], bsrc[0], bdst[0]))
            continue
        for side, node, kidx, bidx in (("giving", ksrc[0], ksrc[1], bsrc[1]), ("receiving", kdst[0], kdst[1], bdst[1])):
            nv = counts[node]
            k, b = _lin(kidx, nv), _lin(bidx, nv)
            key = "btree-rotate:%s:%s-side" % (name, side)
            if k is None or b is None:
                raise AnalysisBroken("%s: index on the %s side is not linear in %s" % (name, side, nv))
            if side == "giving":
                want = {(1, -1): (1, 0), (0, 0): (0, 0)}.get(k)       # last key -> last branch; first key -> first branch
            else:
                want = {(1, 0): (1, 1), (0, 0): (0, 0)}.get(k)        # appended key -> branch after it; front key -> front branch
            if want is None:
                raise AnalysisBroken("%s: the key index on the %s side (%s) is neither an end of the node" % (name, side, render(kidx)))
            if b == want:
                rep.ok("V6", key, sample={"key index": render(kidx), "branch index": render(bidx)})
            else:
                rep.violation("V6", key, where,
                              "on the %s side node '%s' (with %s keys) %s key index `%s` but branch index `%s`: in a node with n keys "
                              "and n+1 branches the branch that belongs to that key is `%s`; the subtree moved is the wrong one, so "
                              "one subtree becomes reachable twice and another is lost (its keys vanish from lookup and iteration)"
                              % (side, node, nv, "gives up" if side == "giving" else "receives", render(kidx), render(bidx),
                                 ("%s" % nv if want == (1, 0) else "%s+1" % nv if want == (1, 1) else "0")))


MERGE_LOOPS = ("dnfAndImplies", "dnfAndImpliesNegation", "dnfAndCancelNegation")


def v7(rep):
    """The normal form keeps each conjunct as a sorted literal vector and walks two of them in step (a merge loop).  In the branch
    where the literal of the first conjunct sorts before the literal looked for, only the first index may move: advancing the
    second too skips a literal that is never matched (and, in the cancelling variant, stores more literals than were allocated).
    The three loops are siblings and are compared on exactly that point."""
    f = common.extract("dnf.c", trees=list(MERGE_LOOPS))
    n = 0
    for name in MERGE_LOOPS:
        fn = f.func(name)
        ps = [p["n"] for p in fn["params"]]
        if len(ps) != 2:
            raise AnalysisBroken("%s: expected two conjunct parameters" % name)
        loops = [x for x in walk(fn["body"]) if x["k"] == "ForStmt"]
        lt = [i for lp in loops for i in walk(lp) if i["k"] == "IfStmt" and any(c.get("callee") == "dnfAtomLT" or c.get("mac") == "dnfAtomLT"
                                                                                   for c in walk(i["c"][0]))]
        if len(lt) != 1:
            raise AnalysisBroken("%s: the `dnfAtomLT(first, second)` branch of the merge loop was not found" % name)
        cond = lt[0]["c"][0]
        order = [y["n"] for y in walk(cond) if y["k"] == "DeclRefExpr" and y.get("dk") != "fn" and not y["n"].startswith("dnf")]
        # which index feeds which atom variable
        src = {}
        for d in walk(fn["body"]):
            if d["k"] == "DeclStmt":
                for v in d.get("decls", []):
                    if v.get("init") is not None:
                        idx = [y["n"] for y in walk(v["init"]) if y["k"] == "DeclRefExpr" and y["n"] not in ps]
                        base = [y["n"] for y in walk(v["init"]) if y["k"] == "DeclRefExpr" and y["n"] in ps]
                        if len(idx) == 1 and len(base) == 1:
                            src[v["n"]] = (base[0], idx[0])
        if len(order) != 2 or order[0] not in src or order[1] not in src:
            raise AnalysisBroken("%s: operands of dnfAtomLT are not the two atom variables" % name)
        first_idx, second_idx = src[order[0]][1], src[order[1]][1]
        moved = set()
        for y in walk(lt[0]["c"][1]):
            if y["k"] == "CompoundAssignOperator" and y["op"] in ("+=",) or y["k"] == "UnaryOperator" and "++" in (y.get("op") or ""):
                t = strip(y["c"][0])
                if t is not None and t["k"] == "DeclRefExpr":
                    moved.add(t["n"])
        n += 1
        key = "merge-loop:%s:less-than-advances-first-only" % name
        if second_idx in moved:
            rep.violation("V7", key, "dnf.c:%d (%s)" % (lt[0]["l"], name),
                          "when the literal of '%s' sorts before the literal of '%s' looked for, the loop advances '%s' as well as '%s': "
                          "the literal of '%s' at that position is never matched%s" %
                          (src[order[0]][0], src[order[1]][0], second_idx, first_idx, src[order[1]][0],
                           "; the copy loop then stores one literal more than the result was allocated for"
                           if name == "dnfAndCancelNegation" else ""))
        elif first_idx in moved:
            rep.ok("V7", key)
        else:
            raise AnalysisBroken("%s: the less-than branch advances neither index" % name)
    rep.floor("merge loops over conjuncts", n, 3)


def v8(rep):
    """(P and not q) or q == P or q holds for a literal q.  For a conjunct Q = q1 and q2 the literal-wise negation (not q1 and not
    q2) is not the negation of Q, so cancelling it out of another disjunct is not an equivalence: (a and b) or (not a and not b)
    would become TRUE.  The cancelling rewrite of dnfOrMerge must therefore be restricted to single-literal disjuncts, either at
    the call or inside the test it relies on."""
    f = common.extract("dnf.c", trees=["dnfOrMerge", "dnfAndImpliesNegation"])
    fn = f.func("dnfOrMerge")
    par = common.parents(fn["body"])
    cs = calls(fn["body"], "dnfAndCancelNegation")
    if len(cs) != 1:
        raise AnalysisBroken("dnfOrMerge: expected one call of dnfAndCancelNegation")
    other = render(strip(cs[0]["c"][2]))

    def unit_test(n, who):
        """does n contain `<who>->argc == 1` (or <= 1 / < 2)"""
        for y in walk(n):
            if y["k"] == "BinaryOperator" and y["op"] in ("==", "<=", "<"):
                l, v = strip(y["c"][0]), const_value(y["c"][1])
                if l is not None and l["k"] == "MemberExpr" and l["n"] == "argc" and (who is None or render(strip(l["c"][0])) == who):
                    if (y["op"], v) in (("==", 1), ("<=", 1), ("<", 2)):
                        return True
        return False
    guarded = False
    cur = cs[0]
    while cur["id"] in par:
        p_ = par[cur["id"]]
        if p_["k"] == "IfStmt" and any(y is cur for y in walk(p_["c"][1])) and unit_test(p_["c"][0], other):
            guarded = True
        cur = p_
    tst = f.func("dnfAndImpliesNegation")
    second = tst["params"][1]["n"]
    for i in walk(tst["body"]):
        if i["k"] == "IfStmt":
            c = i["c"][0]
            rets = [r for r in walk(i["c"][1]) if r["k"] == "ReturnStmt" and const_value(r["c"][0]) == 0]
            neg = [y for y in walk(c) if y["k"] == "BinaryOperator" and y["op"] in ("!=", ">") and
                   (strip(y["c"][0]) or {}).get("n") == "argc" and render(strip(strip(y["c"][0])["c"][0])) == second and
                   const_value(y["c"][1]) == 1]
            if rets and neg:
                guarded = True
    where = "dnf.c:%d (dnfOrMerge)" % cs[0]["l"]
    if guarded:
        rep.ok("V8", "or-merge:cancellation-unit-only")
    else:
        rep.violation("V8", "or-merge:cancellation-unit-only", where,
                      "dnfOrMerge cancels the literal-wise negation of disjunct `%s` out of another disjunct whatever its length; that is "
                      "an equivalence only for a single literal: (a and b) or (not a and not b), and a xor b, are normalised to TRUE, so "
                      "an export conditional on such a formula is treated as unconditional" % other)


def _is_allones(n):
    s = strip(n)
    if s is None:
        return False
    if const_value(s) == -1:
        return True
    return s["k"] == "UnaryOperator" and s["op"] == "~" and const_value(s["c"][0]) == 0


def _lowbits_masks(body):
    """`~(ALLONES << k)` and `(1 << k) - 1`: the mask of the low k bits.  Yields (node, k) when k is `E % W`."""
    for x in walk(body):
        k = None
        if x["k"] == "UnaryOperator" and x["op"] == "~":
            sh = strip(x["c"][0])
            if sh is not None and sh["k"] == "BinaryOperator" and sh["op"] == "<<" and _is_allones(sh["c"][0]):
                k = strip(sh["c"][1])
        elif x["k"] == "BinaryOperator" and x["op"] == "-" and const_value(x["c"][1]) == 1:
            sh = strip(x["c"][0])
            if sh is not None and sh["k"] == "BinaryOperator" and sh["op"] == "<<" and const_value(sh["c"][0]) == 1:
                k = strip(sh["c"][1])
        if k is not None and k["k"] == "BinaryOperator" and k["op"] == "%":
            yield x, k


def v9(rep):
    """A vector of nbits bits occupies nwords words; the bits of the last word beyond nbits are garbage (bitvSetAll and bitvNot
    fill whole words).  A query that reads the last word whole must mask it with the low `nbits % W` bits -- and that mask is
    EMPTY when nbits is a multiple of W, where the whole word is significant.  So every low-bits mask whose count is a remainder
    modulo the word size must be unreachable for a zero remainder (rules/lowmask.py; the same rule is C02-Q16 on the
    optimiser's units)."""
    from . import lowmask
    lowmask.report(rep, "V9", ["bitv.c", "intset.c", "table.c", "dnf.c"], key="tail-mask-zero-count-guarded", with_unit=False)


V10_UNITS = ("table.c", "btree.c", "priq.c", "bitv.c", "intset.c", "dnf.c")


def v10(rep):
    """The operations of these modules are functions of their operands: the answer of tblElt, btreeSearch, bitvEqual or
    dnfImplies depends on the objects it is given and on nothing it did before.  Today no function of the six units writes a
    file-scope or function-static variable.  A remembered answer keyed by the *address* of an operand (`if (x == lastX) return
    lastResult;`) is wrong as soon as an operand is freed and its storage handed out again (dnfFree, tblFree, ...): the next
    object at that address gets the dead object's answer.  Rule: a function of these units that writes unit-level state and
    compares a parameter with such state by ==/!= is a violation; any other write of unit-level state is refused (a cache that
    is validated by content may be right -- that cannot be told from the shape)."""
    n = 0
    for unit in V10_UNITS:
        f = common.extract(unit, all_trees=True)
        for name, fn in sorted(f.funcs.items()):
            if "body" not in fn or not fn.get("file", "").endswith(unit):
                continue
            n += 1
            params = set(p["n"] for p in fn.get("params", []))
            locs, stat = set(params), set()
            for x in walk(fn["body"]):
                if x["k"] == "DeclStmt":
                    for d in x.get("decls", []):
                        if d.get("static"):
                            stat.add(d["n"])
                        else:
                            locs.add(d["n"])

            def state(e):
                e = strip(e)
                while e is not None and e["k"] in ("MemberExpr", "ArraySubscriptExpr") and not e.get("arrow"):
                    e = strip(e["c"][0])
                if e is not None and e["k"] == "DeclRefExpr" and e.get("dk") not in ("parm", "enum", "func") and \
                        (e["n"] in stat or e["n"] not in locs):
                    return e["n"]
                return None
            written = {}
            for x in walk(fn["body"]):
                tgt = None
                if x["k"] in ("BinaryOperator", "CompoundAssignOperator") and x["op"].endswith("=") and x["op"] not in ("==", "!=", "<=", ">="):
                    tgt = x["c"][0]
                elif x["k"] == "UnaryOperator" and x["op"] in ("++", "--", "post++", "post--"):
                    tgt = x["c"][0]
                if tgt is not None and state(tgt) is not None:
                    written.setdefault(state(tgt), x["l"])
            if not written:
                continue
            keyed = None
            for x in walk(fn["body"]):
                if x["k"] == "BinaryOperator" and x["op"] in ("==", "!="):
                    a, b = strip(x["c"][0]), strip(x["c"][1])
                    for p_, s_ in ((a, b), (b, a)):
                        if p_ is not None and p_["k"] == "DeclRefExpr" and p_["n"] in params and "*" in (p_.get("t") or "") + ("*" if p_.get("tc") == "ptr" else "") \
                                and s_ is not None and state(s_) in written:
                            keyed = (p_["n"], state(s_), x["l"])
            key = "operation-has-no-memory:%s:%s" % (unit, name)
            if keyed:
                rep.violation("V10", key, "%s:%d (%s)" % (unit, keyed[2], name),
                              "%s remembers an answer in `%s` and recognises the question by the address of its operand `%s`: when that "
                              "object is freed and the store hands the same block to a new object, the new object gets the old "
                              "answer -- the result depends on the history of allocations, not on the operands"
                              % (name, keyed[1], keyed[0]))
            else:
                raise AnalysisBroken("%s (%s) writes unit-level state %s: whether its result still depends on its operands only cannot "
                                     "be told from the shape of the code" % (name, unit, sorted(written)))
    rep.floor("functions of the container units scanned for unit-level state", n, 120)
    if not any(v for v in rep.violations if "operation-has-no-memory" in str(v)):
        rep.ok("V10", "operation-has-no-memory:none", sample={"functions": n})


def run(tier, only=None):
    rep = common.Report("C20", tier, EXPLANATION)
    v1(rep)
    v2(rep)
    v3(rep)
    v4(rep)
    v6(rep)
    v7(rep)
    v8(rep)
    v9(rep)
    v10(rep)
    v11(rep)
    v13(rep)
    v14(rep)
    v15(rep)
    v16(rep)
    v17(rep)
    v18(rep)
    v19(rep)
    try:
        v5(rep)
    except AnalysisBroken as e:
        if not rep.violations:
            raise
        rep.note("V5 not evaluated: %s" % e)
    rep.floor("C20 structural obligations", rep.obligations, 20)
    rep.assumptions.append("operation sequences (histories) are not analysed; these are necessary conditions visible in the code's shape")
    return rep
