"""C20 (thin): structural clauses of the core containers.

Decides only what is visible in the shape of the code:
V1  bit vectors: each set operation is the word-wise C operator of its name
    over exactly the class's words;
V2  hash table: look-up, store and removal compute the bucket in the same way;
    the entry count changes by exactly one on insert and on removal;
V3  binary heap: the parent/child index macros are mutually inverse and the
    two sift loops use them;
V4  B-tree: no dereference of a searched node after a restructuring call
    (shared with C10 T-btree); search siblings agree;
V5  normal-form algebra: the And/Or duals are the same code.
Behaviour over operation sequences is NOT decided.
"""
import os
import re

from . import common, siblings
from .common import AnalysisBroken, strip, walk, calls, render, const_value

EXPLANATION = (
    "Thin structural clauses of table.c, btree.c, priq.c, bitv.c, dnf.c/ablogic.c. V1: bitvNot/And/Or/Minus/Copy consist of one "
    "loop over i in [0, class->nwords) whose body stores, through the incremented result pointer, exactly ~a / a & b / a | b / "
    "a & ~b / a of the incremented operand pointers. V2: tblElt, tblSetElt and tblDrop compute hash, bucket index and bucket head "
    "by identical statements (token-identical after local renaming); tblSetElt increments t->count exactly once and tblDrop "
    "decrements it exactly once. V3: with the macro bodies of priq.c, heapParent(heapLeft(i)) == i and heapParent(heapRight(i)) == i "
    "for i in 0..200 and heapLeft(i) + 1 == heapRight(i); heapSiftOutward uses heapLeft and heapRight, heapSiftInward and heapCheck "
    "use heapParent. V4: the stale-node rule of C10 on btree.c. V5: dnfAnd/dnfOr style duals listed in the rule are isomorphic "
    "under the And/Or (and True/False) renaming. Not decided: that any container behaves as its model over operation sequences.")

BITV_OPS = {
    "bitvNot": ("un", "~", "a"),
    "bitvAnd": ("bin", "&", "a", "b"),
    "bitvOr": ("bin", "|", "a", "b"),
    "bitvMinus": ("bin", "&", "a", ("un", "~", "b")),
    "bitvCopy": "a",
}


def _ptr_read(n, params):
    """*p++ where p is parameter k -> name of the parameter"""
    s = strip(n)
    if s is not None and s["k"] == "UnaryOperator" and s["op"] == "*":
        inner = strip(s["c"][0])
        if inner is not None and inner["k"] == "UnaryOperator" and inner["op"] in ("post++", "++"):
            v = strip(inner["c"][0])
            if v is not None and v["k"] == "DeclRefExpr" and v["n"] in params:
                return v["n"]
    return None


def _bitv_tree(n, params):
    r = _ptr_read(n, params)
    if r:
        return r
    s = strip(n)
    if s is None:
        return None
    if s["k"] == "UnaryOperator" and s["op"] == "~":
        return ("un", "~", _bitv_tree(s["c"][0], params))
    if s["k"] == "BinaryOperator" and s["op"] in ("&", "|", "^"):
        return ("bin", s["op"], _bitv_tree(s["c"][0], params), _bitv_tree(s["c"][1], params))
    return ("?", render(s))


def v1(rep):
    f = common.extract("bitv.c", all_trees=True)
    for name, want in sorted(BITV_OPS.items()):
        fn = f.func(name)
        params = [p["n"] for p in fn["params"]]
        where = "bitv.c:%d (%s)" % (fn["l"], name)
        loops = [x for x in walk(fn["body"]) if x["k"] in ("ForStmt", "WhileStmt")]
        if len(loops) != 1 or loops[0]["k"] != "ForStmt":
            raise AnalysisBroken("%s: expected a single for loop over the words" % name)
        lp = loops[0]
        cond = strip(lp["c"][1])
        init = strip(lp["c"][0])
        bound_ok = (cond is not None and cond["k"] == "BinaryOperator" and cond["op"] == "<" and strip(cond["c"][1]) is not None and strip(cond["c"][1])["k"] == "MemberExpr" and strip(cond["c"][1]).get("n") == "nwords"
                    and init is not None and init["k"] == "BinaryOperator" and const_value(init["c"][1]) == 0)
        stores = [x for x in walk(lp["c"][3]) if x["k"] == "BinaryOperator" and x["op"] == "="]
        got = None
        if len(stores) == 1 and _ptr_read(stores[0]["c"][0], params) == params[1]:
            got = _bitv_tree(stores[0]["c"][1], params)
        # operand names by position: r = params[1], a = params[2], b = params[3]
        names = {"a": params[2] if len(params) > 2 else None, "b": params[3] if len(params) > 3 else None}

        def subst(t):
            if isinstance(t, str):
                return names.get(t, t)
            return tuple(subst(x) if i >= 2 or not isinstance(x, str) else x for i, x in enumerate(t)) if t[0] in ("un", "bin") else t
        want_t = subst(want) if not isinstance(want, str) else names[want]
        if not bound_ok:
            rep.violation("V1", "%s:all-words" % name, where, "the loop does not run over i in [0, class->nwords): `%s`" % render(cond))
        else:
            rep.ok("V1", "%s:all-words" % name, nontrivial=False)
        if got == want_t or (isinstance(want_t, tuple) and want_t[0] == "bin" and want_t[1] in ("&", "|") and isinstance(got, tuple)
                             and got[:2] == want_t[:2] and set(map(str, got[2:])) == set(map(str, want_t[2:]))):
            rep.ok("V1", "%s:word-operation" % name, sample={"function": name, "per_word": str(got)})
        else:
            rep.violation("V1", "%s:word-operation" % name, where,
                          "%s stores %s per word; the set operation of that name is %s" % (name, got, want_t))


def v2(rep):
    f = common.extract("table.c", all_trees=True)
    fns = [f.func(n) for n in ("tblElt", "tblSetElt", "tblDrop")]

    def prologue(fn):
        """token lists of the statements up to and including the assignment of the bucket head `b = t->buckv[x]`"""
        toks = []
        ids = {}          # locals and parameters are numbered by first use
        for st in fn["body"]["c"]:
            if st is None or st["k"] == "DeclStmt":
                continue
            t = []
            siblings.serialise(st, lambda x: x, t, True, ids)
            toks.append([x[0] for x in t])
            if st["k"] == "BinaryOperator" and st["op"] == "=" and "buckv" in render(st["c"][1]):
                break
        return toks
    ps = [prologue(fn) for fn in fns]
    if any(len(p) < 3 for p in ps):
        raise AnalysisBroken("table.c: the prologue `h = ...; x = h % t->buckc; b = t->buckv[x];` was not recognised")
    if ps[0][-3:] == ps[1][-3:] == ps[2][-3:]:
        rep.ok("V2", "bucket-computation-agrees", sample={"statements": 3, "functions": ["tblElt", "tblSetElt", "tblDrop"]})
    else:
        rep.violation("V2", "bucket-computation-agrees", "table.c (tblElt / tblSetElt / tblDrop)",
                      "look-up, store and removal no longer compute hash, bucket index and bucket head by the same statements: a key stored "
                      "by one is not found by the other")
    for name, op in (("tblSetElt", ("post++", "++", "pre++")), ("tblDrop", ("post--", "--", "pre--"))):
        fn = f.func(name)
        n = sum(1 for x in walk(fn["body"]) if x["k"] == "UnaryOperator" and x["op"] in op and "count" in render(x["c"][0]))
        other = sum(1 for x in walk(fn["body"]) if x["k"] in ("UnaryOperator", "CompoundAssignOperator", "BinaryOperator")
                    and x.get("op") in ("post++", "++", "pre++", "post--", "--", "pre--", "+=", "-=", "=")
                    and strip(x["c"][0]) is not None and strip(x["c"][0])["k"] == "MemberExpr" and strip(x["c"][0]).get("n") == "count") - n
        if n == 1 and other == 0:
            rep.ok("V2", "%s:count-by-one" % name)
        else:
            rep.violation("V2", "%s:count-by-one" % name, "table.c:%d (%s)" % (fn["l"], name),
                          "t->count must change exactly once by one in %s (found %d such updates and %d other writes)" % (name, n, other))


def v3(rep):
    src = open(os.path.join(common.SRC, "priq.c"), errors="replace").read()
    mac = {}
    for m in re.finditer(r"#\s*define\s+(heapParent|heapLeft|heapRight)\(i\)\s+(.*)", src):
        body = m.group(2).strip()
        if not re.fullmatch(r"[\s\d()i*/+\-]+", body):
            raise AnalysisBroken("priq.c: body of %s is not plain integer arithmetic: %s" % (m.group(1), body))
        mac[m.group(1)] = body
    if set(mac) != {"heapParent", "heapLeft", "heapRight"}:
        raise AnalysisBroken("priq.c: heapParent/heapLeft/heapRight macros not found")

    def ev(name, i):
        v = eval(mac[name].replace("/", "//"), {"__builtins__": {}}, {"i": i})
        return int(v)
    bad = [i for i in range(0, 201) if ev("heapParent", ev("heapLeft", i)) != i or ev("heapParent", ev("heapRight", i)) != i
           or ev("heapLeft", i) + 1 != ev("heapRight", i) or ev("heapLeft", i) <= i]
    if not bad:
        rep.ok("V3", "heap-index-macros-inverse", sample=mac)
    else:
        rep.violation("V3", "heap-index-macros-inverse", "priq.c (heapParent/heapLeft/heapRight)",
                      "parent(left(i)) == i, parent(right(i)) == i and right(i) == left(i)+1 fail for i = %s with %s" % (bad[:5], mac))
    f = common.extract("priq.c", all_trees=True)
    uses = {"heapSiftOutward": {"heapLeft", "heapRight"}, "heapSiftInward": {"heapParent"}, "heapCheck": {"heapParent"}}
    for name, want in sorted(uses.items()):
        fn = f.func(name)
        got = {x.get("mac") for x in walk(fn["body"])} | {x.get("imac") for x in walk(fn["body"])}
        if want <= got:
            rep.ok("V3", "%s:uses-index-macros" % name, nontrivial=False)
        else:
            rep.violation("V3", "%s:uses-index-macros" % name, "priq.c:%d (%s)" % (fn["l"], name),
                          "%s no longer navigates with %s" % (name, sorted(want - got)))


def v4(rep):
    from . import c10_store_tables
    c10_store_tables.check_btree_handles(_Fwd(rep, "V4"), "compiler")


class _Fwd:
    def __init__(self, rep, rule):
        self.rep, self.rule = rep, rule

    def ok(self, rule, key, nontrivial=True, sample=None):
        self.rep.ok(self.rule, key, nontrivial=nontrivial, sample=sample)

    def violation(self, rule, key, where, msg, detail=None):
        self.rep.violation(self.rule, key, where, msg, detail=detail)

    def floor(self, what, n, least):
        self.rep.floor(what, n, least)

    def note(self, msg):
        self.rep.note(msg)


DUALS = [("ablogic.c", "ablogAnd", "ablogOr"), ("absyn.c", "abNewAndAll", "abNewOrAll")]


def v5(rep):
    pairs = [("@", "And"), ("@", "Or"), ("@", "and"), ("@", "or"), ("@", "AND"), ("@", "OR"), ("@", "True"), ("@", "False")]
    for unit, a, b in DUALS:
        f = common.extract(unit, trees=[a, b])
        r = siblings.compare(f.func(a), f.func(b), pairs)
        key = "duals:%s:%s~%s" % (unit, a, b)
        # the operators & and | themselves are the intended difference in bitv.c
        if r is not None and unit == "bitv.c" and {r[1], r[3]} == {"BinaryOperator &", "BinaryOperator |"}:
            r = None
        if r is None:
            rep.ok("V5", key)
        elif siblings.kind_of_difference(r) == "shape":
            raise AnalysisBroken("the duals %s and %s no longer have the same shape; re-confirm by hand" % (a, b))
        else:
            rep.violation("V5", key, "%s:%d (%s) / %s:%d (%s)" % (unit, r[2], a, unit, r[4], b),
                          "%s and %s are dual implementations and differ at token %d: `%s` against `%s`" % (a, b, r[0], r[1], r[3]))


def run(tier, only=None):
    rep = common.Report("C20", tier, EXPLANATION)
    v1(rep)
    v2(rep)
    v3(rep)
    v4(rep)
    try:
        v5(rep)
    except AnalysisBroken as e:
        if not rep.violations:
            raise
        rep.note("V5 not evaluated: %s" % e)
    rep.floor("C20 structural obligations", rep.obligations, 20)
    rep.assumptions.append("operation sequences (histories) are not analysed; these are necessary conditions visible in the code's shape")
    return rep
